#!/bin/bash
# Offline setup: warm the dependency build caches used by the checks (Kani deps, nightly MIR deps).
# Everything is rebuilt from files on disk; nothing here is needed for correctness, only for speed.
set -u
export CARGO_NET_OFFLINE=true
cd "$(dirname "$0")"
mkdir -p /var/tmp/pearl-verif/cache evidence replays
python3 - <<'PY'
import sys, os
sys.path.insert(0, os.getcwd())
from vlib import common, mir_engine
s = common.scratch_dir("setup")
try:
    p, src, dt = mir_engine.dump_mir(s)
    print("MIR dump ok: %d bytes in %.0fs" % (os.path.getsize(p), dt))
except Exception as e:
    print("MIR warm-up failed:", e)
import shutil; shutil.rmtree(s, ignore_errors=True)
PY
exit 0
