#!/usr/bin/env python3
"""Collect the seeded breaking changes into /verif/seeded/<name>/ and evaluate the checks against them.

  seed_eval.py collect            copy confirmed mutants from /tmp/seed/<ID>/out/m*/ (needs /tmp/seed/confirm/*.txt)
  seed_eval.py run [name...]      for each seeded change: git -C /repo apply patch; run the listed checks; git checkout -- .
                                  writes seeded/<name>/result.json and seeded/README.md
Nothing here is used by the registered checks; it is the harness for §6 of DESIGN.md."""
import sys, os, json, subprocess, shutil, re, time

VERIF = os.path.dirname(os.path.dirname(os.path.abspath(__file__)))
SEED = "/tmp/seed"
OUT = os.path.join(VERIF, "seeded")

# which checks to run for a mutant of property X (own property first; related properties that share the mechanism)
RELATED = {
    "C01": ["C01"], "C02": ["C02"], "C03": ["C03", "C17"], "C04": ["C04", "C10", "C11"], "C05": ["C05", "C06"], "C06": ["C06", "C05"],
    "C07": ["C07", "C11"], "C09": ["C09"], "C10": ["C10", "C04"], "C11": ["C11", "C07", "C03"], "C12": ["C12"], "C13": ["C13"],
    "C14": ["C14", "C12", "C07"], "C15": ["C15", "C03"], "C16": ["C16"], "C17": ["C17", "C09"],
}


def sh(cmd, **kw):
    return subprocess.run(cmd, shell=True, capture_output=True, text=True, **kw)


def collect():
    os.makedirs(OUT, exist_ok=True)
    for f in sorted(os.listdir(os.path.join(SEED, "confirm"))):
        if not f.endswith(".txt"):
            continue
        name = f[:-4]
        pid, m = name.split("_", 1)
        src = os.path.join(SEED, pid, "out", m)
        txt = open(os.path.join(SEED, "confirm", f)).read()
        conf = dict(re.findall(r"(\w+_rc)=(\d+)", txt))
        unit = "UNIT-STYLE" in txt
        ok = conf.get("suite_mutant_rc") == "0" and (unit or (conf.get("demo_clean_rc") == "0" and conf.get("demo_mutant_rc") not in (None, "0")))
        dst = os.path.join(OUT, "%s-%s" % (pid, m))
        if not ok:
            print("skip (not confirmed on the current tree):", name, conf)
            continue
        os.makedirs(dst, exist_ok=True)
        for fn in ("patch.diff", "demo.rs", "README.md"):
            p = os.path.join(src, fn)
            if os.path.exists(p):
                shutil.copy(p, os.path.join(dst, fn))
        readme = open(os.path.join(src, "README.md")).read() if os.path.exists(os.path.join(src, "README.md")) else ""
        needs = ""
        m2 = re.search(r"(?is)(needs|manifest|scenario|interleaving|what .*needed)[^\n]*\n(.{0,600})", readme)
        if m2:
            needs = " ".join(m2.group(0).split())[:500]
        meta = {
            "property": pid,
            "name": "%s-%s" % (pid, m),
            "origin": "written by an independent sub-agent given only the property text and a scratch worktree",
            "breaks": "see README.md (the agent's description)",
            "needs_to_manifest": needs,
            "confirmed_by_me": {
                "how": "tools/confirm_mutants.sh in a scratch worktree at /repo HEAD: demo on clean tree, demo with patch, lib+integration suite with patch",
                "demo_on_clean_tree_rc": conf.get("demo_clean_rc"),
                "demo_with_patch_rc": conf.get("demo_mutant_rc"),
                "suite_with_patch_rc": conf.get("suite_mutant_rc"),
                "unit_style_demo_placed_by_hand": unit,
            },
        }
        json.dump(meta, open(os.path.join(dst, "meta.json"), "w"), indent=1)
        print("collected", name)


def run(names):
    rows = []
    for name in sorted(os.listdir(OUT)):
        d = os.path.join(OUT, name)
        if not os.path.isdir(d) or (names and name not in names):
            continue
        meta = json.load(open(os.path.join(d, "meta.json")))
        patch = os.path.join(d, "patch.diff")
        st = sh("git -C /repo status --porcelain")
        if st.stdout.strip():
            print("refusing: /repo is not clean")
            return
        a = sh("git -C /repo apply %s" % patch)
        if a.returncode != 0:
            a = sh("git -C /repo apply --3way %s" % patch)
        if a.returncode != 0:
            meta["check_results"] = {"apply": "patch does not apply to the current tree: " + a.stderr[-300:]}
            json.dump(meta, open(os.path.join(d, "meta.json"), "w"), indent=1)
            sh("git -C /repo checkout -- . ; git -C /repo reset -q")
            rows.append((name, meta["property"], "patch does not apply", ""))
            print(name, "does not apply")
            continue
        results = {}
        caught_by = []
        try:
            for chk in RELATED.get(meta["property"], [meta["property"]]):
                t0 = time.time()
                r = sh("cd %s && ./check %s --tier quick" % (VERIF, chk))
                lines = [l for l in r.stdout.splitlines() if l.startswith(("VIOLATION", "INCONCLUSIVE", "KNOWN-FINDING", "check "))]
                results[chk] = {"rc": r.returncode, "wall_s": round(time.time() - t0), "lines": lines[:8]}
                if r.returncode == 1:
                    caught_by.append(chk)
                print(name, chk, "rc=%d" % r.returncode, flush=True)
        finally:
            sh("git -C /repo checkout -- . ; git -C /repo reset -q ; git -C /repo clean -fdq src tests")
        meta["check_results"] = results
        meta["caught_by"] = caught_by
        meta["what_i_ran"] = "git -C /repo apply seeded/%s/patch.diff; ./check <ID> --tier quick for %s; git -C /repo checkout -- ." % (name, RELATED.get(meta["property"]))
        json.dump(meta, open(os.path.join(d, "meta.json"), "w"), indent=1)
        verdicts = {k: {0: "pass", 1: "VIOLATION", 2: "inconclusive"}.get(v["rc"], str(v["rc"])) for k, v in results.items()}
        viol = [l for v in results.values() for l in v["lines"] if l.startswith("VIOLATION")]
        rows.append((name, meta["property"], ", ".join("%s:%s" % kv for kv in verdicts.items()), viol[0][:160] if viol else ""))
    # README
    lines = ["# Seeded breaking changes and what the checks say about them", "",
             "Generated by tools/seed_eval.py. Each directory: patch.diff, the agent's demo.rs and README.md, meta.json (confirmation + check results).", "",
             "| change | property | checks run (quick tier) | first violation line |", "|---|---|---|---|"]
    old = {}
    rp = os.path.join(OUT, "README.md")
    if os.path.exists(rp) and names:
        for l in open(rp):
            m = re.match(r"\| (\S+) \|", l)
            if m and m.group(1) not in ("change", "---"):
                old[m.group(1)] = l.rstrip("\n")
    for r in rows:
        old[r[0]] = "| %s | %s | %s | %s |" % r
    lines += [old[k] for k in sorted(old)]
    open(rp, "w").write("\n".join(lines) + "\n")


if __name__ == "__main__":
    if len(sys.argv) > 1 and sys.argv[1] == "collect":
        collect()
    elif len(sys.argv) > 1 and sys.argv[1] == "run":
        run(sys.argv[2:])
    else:
        print(__doc__)
