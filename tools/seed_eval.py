#!/usr/bin/env python3
"""Collect the seeded breaking changes into /verif/seeded/<name>/ and evaluate the checks against them.

  seed_eval.py collect            copy confirmed mutants from /tmp/seed/<ID>/out/m*/ (needs /tmp/seed/confirm/*.txt)
  seed_eval.py run [name...]      for each seeded change: git -C /repo apply patch; run the listed checks; git checkout -- .
                                  writes seeded/<name>/result.json and seeded/README.md
Nothing here is used by the registered checks; it is the harness for §6 of DESIGN.md."""
import sys, os, json, subprocess, shutil, re, time

VERIF = os.path.dirname(os.path.dirname(os.path.abspath(__file__)))
SEED = os.environ.get("SEED_ROOT", "/tmp/seed")
SUFFIX = os.environ.get("SEED_SUFFIX", "")
OUT = os.path.join(VERIF, "seeded")

# which checks to run for a mutant of property X (own property first; related properties that share the mechanism)
RELATED = {
    "C01": ["C01", "C02"], "C02": ["C02", "C01", "C09"], "C03": ["C03", "C17"], "C04": ["C04", "C10", "C11"], "C05": ["C05", "C06"], "C06": ["C06", "C05"],
    "C07": ["C07", "C11"], "C09": ["C09"], "C10": ["C10", "C04"], "C11": ["C11", "C07", "C03"], "C12": ["C12"], "C13": ["C13"],
    "C14": ["C14", "C12", "C07"], "C15": ["C15", "C03"], "C16": ["C16"], "C17": ["C17", "C09"],
}


def sh(cmd, **kw):
    return subprocess.run(cmd, shell=True, capture_output=True, text=True, **kw)


def collect():
    os.makedirs(OUT, exist_ok=True)
    for f in sorted(os.listdir(os.path.join(SEED, "confirm"))):
        if not f.endswith(".txt"):
            continue
        name = f[:-4]
        pid, m = name.split("_", 1)
        src = os.path.join(SEED, pid, "out", m)
        txt = open(os.path.join(SEED, "confirm", f)).read()
        conf = dict(re.findall(r"(\w+_rc)=(\d+)", txt))
        unit = "UNIT-STYLE" in txt
        manual = re.search(r"MANUAL: (.*)", txt)
        ok = conf.get("suite_mutant_rc") == "0" and (unit or (conf.get("demo_clean_rc") == "0" and conf.get("demo_mutant_rc") not in (None, "0")))
        dst = os.path.join(OUT, "%s-%s%s" % (pid, SUFFIX, m))
        if not ok:
            print("skip (not confirmed on the current tree):", name, conf)
            continue
        os.makedirs(dst, exist_ok=True)
        for fn in ("patch.diff", "demo.rs", "README.md", "patch.orig.diff"):
            p = os.path.join(src, fn)
            if os.path.exists(p):
                shutil.copy(p, os.path.join(dst, fn))
        if os.path.exists(os.path.join(src, "demo_adapted.rs")):
            shutil.copy(os.path.join(src, "demo.rs"), os.path.join(dst, "demo_original.rs"))
            shutil.copy(os.path.join(src, "demo_adapted.rs"), os.path.join(dst, "demo.rs"))
        if os.path.isdir(os.path.join(src, "corpus")):
            shutil.copytree(os.path.join(src, "corpus"), os.path.join(dst, "corpus"), dirs_exist_ok=True)
        readme = open(os.path.join(src, "README.md")).read() if os.path.exists(os.path.join(src, "README.md")) else ""
        needs = ""
        m2 = re.search(r"(?is)(needs|manifest|scenario|interleaving|what .*needed)[^\n]*\n(.{0,600})", readme)
        if m2:
            needs = " ".join(m2.group(0).split())[:500]
        meta = {
            "property": pid,
            "name": "%s-%s%s" % (pid, SUFFIX, m),
            "origin": "written by an independent sub-agent given only the property text and a scratch worktree",
            "breaks": "see README.md (the agent's description)",
            "needs_to_manifest": needs,
            "confirmed_by_me": {
                "how": "tools/confirm_mutants.sh in a scratch worktree at /repo HEAD: demo on clean tree, demo with patch, lib+integration suite with patch",
                "demo_on_clean_tree_rc": conf.get("demo_clean_rc"),
                "demo_with_patch_rc": conf.get("demo_mutant_rc"),
                "suite_with_patch_rc": conf.get("suite_mutant_rc"),
                "unit_style_demo_placed_by_hand": unit,
                "note": manual.group(1) if manual else ("ported to the current tree by me (original: patch.orig.diff)" if os.path.exists(os.path.join(src, "patch.orig.diff")) else ""),
            },
        }
        json.dump(meta, open(os.path.join(dst, "meta.json"), "w"), indent=1)
        print("collected", name)


def eval_one(name):
    """one seeded change: scratch copy of /repo's working tree + patch; ./check <ID> --tier quick with VERIF_REPO=<copy>"""
    d = os.path.join(OUT, name)
    meta = json.load(open(os.path.join(d, "meta.json")))
    patch = os.path.join(d, "patch.diff")
    work = "/var/tmp/pearl-verif/seedrun-%s" % name
    shutil.rmtree(work, ignore_errors=True)
    os.makedirs(work)
    tree = os.path.join(work, "repo")
    sh("rsync -a --exclude /target --exclude /.git /repo/ %s/" % tree)
    a = sh("cd %s && patch -p1 -s < %s" % (tree, patch))
    if a.returncode != 0:
        meta["check_results"] = {"apply": "patch does not apply to the current tree: " + (a.stdout + a.stderr)[-300:]}
        json.dump(meta, open(os.path.join(d, "meta.json"), "w"), indent=1)
        shutil.rmtree(work, ignore_errors=True)
        return (name, meta["property"], "patch does not apply", "")
    results, caught_by = {}, []
    env = dict(os.environ, VERIF_REPO=tree, VERIF_OUT=os.path.join(work, "out"))
    own_only = os.environ.get("SEED_OWN_ONLY") == "1"
    for chk in RELATED.get(meta["property"], [meta["property"]]):
        if own_only and chk != meta["property"]:
            # neighbour checks: keep the result of the previous evaluation (marked), only the own property's check is re-run
            prev = (meta.get("check_results") or {}).get(chk)
            if isinstance(prev, dict) and "rc" in prev:
                prev = dict(prev, reused_from_previous_evaluation=True)
                results[chk] = prev
                if prev["rc"] == 1:
                    caught_by.append(chk)
            continue
        t0 = time.time()
        r = sh("cd %s && ./check %s --tier quick" % (VERIF, chk), env=env)
        lines = [l for l in r.stdout.splitlines() if l.startswith(("VIOLATION", "INCONCLUSIVE", "KNOWN-FINDING", "check "))]
        viol = []
        try:
            ev = json.load(open(os.path.join(work, "out", "evidence", chk + ".json")))
            viol = [v.get("summary", str(v))[:300] if isinstance(v, dict) else str(v)[:300] for v in ev.get("violations", [])]
        except Exception:
            pass
        results[chk] = {"rc": r.returncode, "wall_s": round(time.time() - t0), "lines": lines[:8], "violations": viol[:6]}
        if r.returncode == 1 and not any(l.startswith("VIOLATION") for l in lines):
            results[chk]["rc"] = 3        # exit 1 without a VIOLATION line is a crash of the machinery, not a verdict
        if results[chk]["rc"] == 1:
            caught_by.append(chk)
        print(name, chk, "rc=%d" % r.returncode, flush=True)
    shutil.rmtree(work, ignore_errors=True)
    meta["check_results"] = results
    meta["caught_by"] = caught_by
    meta["what_i_ran"] = ("rsync copy of /repo's working tree + patch -p1 < seeded/%s/patch.diff; VERIF_REPO=<copy> ./check <ID> --tier quick for %s "
                          "(same as git -C /repo apply / check / git checkout, but lets several changes be evaluated at once; "
                          "a sample was also run the literal way, see seeded/README.md)" % (name, RELATED.get(meta["property"])))
    json.dump(meta, open(os.path.join(d, "meta.json"), "w"), indent=1)
    verdicts = {k: {0: "pass", 1: "VIOLATION", 2: "inconclusive"}.get(v["rc"], str(v["rc"])) for k, v in results.items()}
    first = ""
    for v in results.values():
        vl = [l for l in v["lines"] if l.startswith("VIOLATION")]
        if v["rc"] == 1 and vl:
            m = re.search(r"\((.*)\)\s*$", vl[0])
            first = (m.group(1) if m else vl[0])[:220].replace("|", "/")
            break
    return (name, meta["property"], ", ".join("%s:%s" % kv for kv in verdicts.items()), first)


def run(names, jobs=3):
    from concurrent.futures import ThreadPoolExecutor
    todo = [n for n in sorted(os.listdir(OUT)) if os.path.isdir(os.path.join(OUT, n)) and (not names or n in names)]
    with ThreadPoolExecutor(max_workers=jobs) as pool:
        rows = list(pool.map(eval_one, todo))
    lines = ["# Seeded breaking changes and what the checks say about them", "",
             "Generated by tools/seed_eval.py. Each directory: patch.diff, the agent's demo.rs and README.md, meta.json (confirmation + check results).", "",
             "| change | property | checks run (quick tier) | first violation reported |", "|---|---|---|---|"]
    old = {}
    rp = os.path.join(OUT, "README.md")
    if os.path.exists(rp):
        for l in open(rp):
            m = re.match(r"\| (\S+) \|", l)
            if m and m.group(1) not in ("change", "---"):
                old[m.group(1)] = l.rstrip("\n")
    for r in rows:
        old[r[0]] = "| %s | %s | %s | %s |" % r
    lines += [old[k] for k in sorted(old)]
    open(rp, "w").write("\n".join(lines) + "\n")


if __name__ == "__main__":
    if len(sys.argv) > 1 and sys.argv[1] == "collect":
        collect()
    elif len(sys.argv) > 1 and sys.argv[1] == "run":
        run(sys.argv[2:])
    else:
        print(__doc__)
