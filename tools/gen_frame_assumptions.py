#!/usr/bin/env python3-vt
"""Regenerates mir2smt/frame_assumptions.json: for every registered Engine-M obligation (both tiers' parameters), the
crate callees that stay opaque on the CURRENT /repo tree.  The file is part of each obligation's stated assumptions
("callee X does not modify the state the claims talk about"); at check time any crate callee outside the list is
executed instead of being havocked.  Run only on a tree where every obligation holds; review the diff.
usage: gen_frame_assumptions.py [mir_dir]"""
import sys, os, json, importlib
from concurrent.futures import ProcessPoolExecutor
V = os.path.dirname(os.path.dirname(os.path.abspath(__file__)))
sys.path.insert(0, V)
os.environ["VERIF_RECORD_FRAME"] = "1"
ARGS = [a for a in sys.argv[1:] if not a.startswith("--")]
ONLY_MISSING = "--missing" in sys.argv      # keep existing entries, add obligations that have none
D = ARGS[0] if ARGS else "/var/tmp/pearl-verif/mir"


def one(job):
    module, func, kw = job
    from mir2smt import pearl as P
    crate = P.Crate(open(D + "/pearl.mir").read(), D + "/src")
    P.CURRENT_OB = "%s.%s" % (module, func)
    del P.ALL_EXECUTORS[:]
    try:
        r = getattr(importlib.import_module("mir2smt." + module), func)(crate, **kw)
        st = r.status
    except Exception as e:
        st = "error %s" % str(e)[:100]
    seen = sorted(set().union(*[e.opaque_seen for e in P.ALL_EXECUTORS])) if P.ALL_EXECUTORS else []
    return module, func, kw, st, seen


def main():
    import props
    jobs = {}
    for pid, p in props.PROPS.items():
        for o in p.get("mir", []):
            for kw in (o["kwargs"], o.get("thorough_kwargs") or o["kwargs"]):
                jobs[(o["module"], o["func"], json.dumps(kw, sort_keys=True))] = (o["module"], o["func"], kw)
    out = {}
    fp = os.path.join(V, "mir2smt", "frame_assumptions.json")
    if ONLY_MISSING and os.path.exists(fp):
        out = json.load(open(fp))
        jobs = {k: v for k, v in jobs.items() if "%s.%s" % (v[0], v[1]) not in out}
    only = [a.split("=", 1)[1] for a in sys.argv if a.startswith("--only=")]
    if only and os.path.exists(fp):
        out = json.load(open(fp))
        jobs = {k: v for k, v in jobs.items() if "%s.%s" % (v[0], v[1]) in only}
        for k in only:
            out.pop(k, None)
    with ProcessPoolExecutor(max_workers=12) as pool:
        for module, func, kw, st, seen in pool.map(one, list(jobs.values())):
            print("%-12s %-36s %-14s %-10s %d opaque" % (module, func, kw, st, len(seen)), flush=True)
            if st != "holds":
                print("   !! not 'holds': the list for this obligation may be incomplete")
            k = "%s.%s" % (module, func)
            out[k] = sorted(set(out.get(k, [])) | set(seen))
    json.dump(out, open(fp, "w"), indent=1, sort_keys=True)


if __name__ == "__main__":
    main()
