#!/bin/bash
# usage: run_obs.sh <MIR_DIR> <PID>... : runs every Engine-M obligation (quick kwargs) of the given properties on a dev MIR dump
D=$1; shift
cd /verif
python3 - "$@" <<'PY' > /tmp/_obs.txt
import sys; sys.path.insert(0,'/verif')
import props
seen=set()
for pid in sys.argv[1:]:
    for o in props.PROPS[pid]["mir"]:
        k=(o["module"],o["func"],tuple(sorted((o.get("kwargs") or {}).items())))
        if k in seen: continue
        seen.add(k)
        print(o["module"],o["func"]," ".join("%s=%s"%(a,b) for a,b in (o.get("kwargs") or {}).items()))
PY
while read -r m f kw; do
  MIR_DIR=$D timeout 600 python3-vt mir2smt/devtest.py $m $f $kw 2>&1 | grep -E "^[a-zA-Z_0-9]+(\[.*\])? +(holds|violated|inconclusive|vacuous)|Unsupported|Error" | cut -c1-220 | sed "s/^/$m.$f: /" | head -2
done < /tmp/_obs.txt
