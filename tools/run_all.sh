#!/bin/bash
# usage: run_all.sh [tier]  : runs every claimed check sequentially, prints one line each
cd /verif
TIER=${1:-quick}
for id in $(python3 -c "import props; print(' '.join(sorted(props.PROPS)))"); do
  s=$(date +%s)
  out=$(./check $id --tier $TIER 2>&1); rc=$?
  e=$(date +%s)
  echo "$id rc=$rc $((e-s))s :: $(echo "$out" | tail -1)"
  echo "$out" | grep -E "^(VIOLATION|INCONCLUSIVE|KNOWN-FINDING)" | head -5
done
