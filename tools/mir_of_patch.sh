#!/bin/bash
# usage: mir_of_patch.sh <patch.diff> <outdir> : dumps MIR of /repo + patch into <outdir>/pearl.mir (src in <outdir>/src)
set -e
P=$1; D=$2
rm -rf $D; mkdir -p $D/src
rsync -a --exclude /target --exclude /.git /repo/ $D/src/
(cd $D/src && patch -p1 -s < $P)
cd $D/src && CARGO_NET_OFFLINE=true CARGO_TARGET_DIR=/var/tmp/pearl-verif/cache/mir-target cargo +nightly rustc --offline --lib -- -Zunpretty=mir -C debug-assertions=off -C overflow-checks=on > ../pearl.mir 2> ../mir.err || { tail -20 ../mir.err; exit 1; }
wc -l ../pearl.mir
