#!/bin/bash
# usage: kani_survivors.sh <sweep id> <harness...>
id=$1; shift
cd /var/tmp/pearl-verif && rm -rf mutsrcK && mkdir mutsrcK && rsync -a --exclude /target --exclude /.git /repo/ mutsrcK/
python3 - "$id" <<'PY'
import json,sys
m=json.load(open('/var/tmp/pearl-verif/mutsweep/%s.json'%sys.argv[1]))
p='/var/tmp/pearl-verif/mutsrcK/'+m['file']
L=open(p,newline='').read().split('\n')
assert L[m['line']-1]==m['old']
L[m['line']-1]=m['new']
open(p,'w',newline='').write('\n'.join(L))
print(m['file'], m['line'], m['new'].strip())
PY
cd /verif && VERIF_REPO=/var/tmp/pearl-verif/mutsrcK timeout 1500 python3 tools_probe.py 600 "$@" 2>&1 | grep -E "success|failed|timeout|error|compile" | cut -c1-160
