#!/bin/bash
# usage: mir_of_dir.sh <srcdir> <outdir>
set -e
S=$1; D=$2
rm -rf $D; mkdir -p $D/src
rsync -a --exclude /target --exclude /.git --exclude /tmp $S/ $D/src/
cd $D/src && CARGO_NET_OFFLINE=true CARGO_TARGET_DIR=/var/tmp/pearl-verif/cache/mir-target cargo +nightly rustc --offline --lib -- -Zunpretty=mir -C debug-assertions=off -C overflow-checks=on > ../pearl.mir 2> ../mir.err || { tail -20 ../mir.err; exit 1; }
wc -l ../pearl.mir
