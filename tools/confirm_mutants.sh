#!/bin/bash
# usage: confirm_mutants.sh <ID>...   : for each /tmp/seed/<ID>/out/m*/, confirm in a scratch worktree:
#   suite passes with patch; demo fails with patch; demo passes without patch.  Results -> $SEED/confirm/<ID>_m<i>.txt
set -u
export CARGO_NET_OFFLINE=true
WT=/tmp/seedconfirm
SEED=${SEED_ROOT:-/tmp/seed}
mkdir -p $SEED/confirm
[ -d $WT ] || git -C /repo worktree add --detach $WT HEAD -q
(cd $WT && git checkout -q -- . && git clean -fdq tests src && git checkout -q --detach $(git -C /repo rev-parse HEAD))
export TMPDIR=$WT/target/tmp; mkdir -p $TMPDIR
for ID in "$@"; do
  for M in $SEED/$ID/out/m*/; do
    [ -f $M/patch.diff ] || continue
    n=$(basename $M); OUT=$SEED/confirm/${ID}_$n.txt; : > $OUT
    cd $WT && git checkout -q -- . && git clean -fdq tests src
    demo=tests/zz_demo_${ID}_$n.rs
    unset PEARL_COMPAT_CORPUS; [ -d $M/corpus ] && export PEARL_COMPAT_CORPUS=$M/corpus
    unit=""
    if grep -q "mod common" $M/demo.rs 2>/dev/null || grep -q "^use pearl" $M/demo.rs 2>/dev/null || grep -q "pearl::" $M/demo.rs; then cp $M/demo.rs $demo; else unit=1; fi
    if [ -n "$unit" ]; then
      # in-crate demo: follow its own placement header ("copy this file to <path>", "append to the end of <file> the line: <line>", "--lib <filter>")
      dst=$(grep -oE "copy this file to +[^ ]+" $M/demo.rs | head -1 | awk '{print $NF}')
      host=$(grep -oE "append to the end of [^ ]+" $M/demo.rs | head -1 | awk '{print $NF}')
      line=$(grep -oE "the line: +.*" $M/demo.rs | head -1 | sed 's/the line: *//')
      filt=$(grep -oE "\-\-lib [a-z0-9_]+" $M/demo.rs | head -1 | awk '{print $2}')
      if [ -n "$dst" ] && [ -n "$host" ] && [ -n "$line" ] && [ -n "$filt" ]; then
        echo "UNIT-STYLE demo placed as $dst (+ '$line' in $host)" >> $OUT
        place() { mkdir -p $(dirname $dst); cp $M/demo.rs $dst; printf '\n%s\n' "$line" >> $host; }
        place; cargo test --offline --lib $filt > $OUT.clean.log 2>&1; echo "demo_clean_rc=$?" >> $OUT
        git checkout -q -- . && git clean -fdq tests src
        git apply $M/patch.diff || { echo "patch_apply_failed" >> $OUT; continue; }
        place; cargo test --offline --lib $filt > $OUT.mut.log 2>&1; echo "demo_mutant_rc=$?" >> $OUT
        git checkout -q -- . && git clean -fdq tests src
      else
        echo "UNIT-STYLE demo (needs manual placement)" >> $OUT
      fi
    fi
    # demo without patch
    if [ -z "$unit" ]; then
      cargo test --offline --test zz_demo_${ID}_$n > $OUT.clean.log 2>&1; echo "demo_clean_rc=$?" >> $OUT
    fi
    git apply $M/patch.diff || { echo "patch_apply_failed" >> $OUT; continue; }
    if [ -z "$unit" ]; then
      cargo test --offline --test zz_demo_${ID}_$n > $OUT.mut.log 2>&1; echo "demo_mutant_rc=$?" >> $OUT
      rm -f $demo
    fi
    cargo test --offline --lib --test tests > $OUT.suite.log 2>&1; echo "suite_mutant_rc=$?" >> $OUT
    grep -h "^test result" $OUT.suite.log >> $OUT
    git checkout -q -- . && git clean -fdq tests src
    cat $OUT
  done
done
