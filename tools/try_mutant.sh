#!/bin/bash
# usage: try_mutant.sh <patch.diff> <ID> [tier]   -- applies the patch to /repo, runs the check, reverts.
set -u
P=$1; ID=$2; TIER=${3:-quick}
git -C /repo apply "$P" || { echo "patch does not apply"; exit 3; }
cd /verif && ./check "$ID" --tier "$TIER"; RC=$?
git -C /repo checkout -- . 
echo "try_mutant rc=$RC"
exit $RC
