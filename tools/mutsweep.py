#!/usr/bin/env python3-vt
"""Operator-level mutation sweep against the Engine-M obligations (a development aid, not a registered check).

  mutsweep.py gen                       list mutation sites in the functions named in TARGETS
  mutsweep.py run [PID ...] [--max N]   for each site: copy /repo, apply, dump MIR, run the property's obligations
                                        (quick parameters), write /var/tmp/pearl-verif/mutsweep/<id>.json
  mutsweep.py report                    table of caught / missed / inconclusive / does-not-compile

Mutation operators: relational swaps (< <=, > >=, == !=), && <-> ||, +1/-1 dropped, true <-> false, `!` dropped.
Survivors are then run against the repo's own test suite by hand (suite passes + check passes = blind spot)."""
import sys, os, re, json, subprocess, shutil, time, importlib, hashlib
V = os.path.dirname(os.path.dirname(os.path.abspath(__file__)))
sys.path.insert(0, V)
OUT = "/var/tmp/pearl-verif/mutsweep"

# property -> [(file, function name)] : the functions whose bodies are mutated
TARGETS = {
    "C01": [("src/blob/index/core.rs", "push"), ("src/blob/index/core.rs", "get_latest"), ("src/storage/core.rs", "get_latest_entry"),
            ("src/blob/index/bptree/core.rs", "read_header_buf"), ("src/blob/index/bptree/core.rs", "get_leftmost"), ("src/storage/read_result.rs", "latest")],
    "C02": [("src/blob/index/core.rs", "get_all_with_deletion_marker"), ("src/blob/core.rs", "delete"), ("src/storage/core.rs", "read_all_with_deletion_marker"),
            ("src/storage/core.rs", "delete_in_closed"), ("src/storage/core.rs", "delete_core"), ("src/storage/core.rs", "delete_in_active"),
            ("src/storage/core.rs", "write_with_optional_meta")],
    "C03": [("src/blob/core.rs", "load_index"), ("src/blob/index/bptree/core.rs", "from_records"), ("src/blob/index/bptree/core.rs", "validate"),
            ("src/blob/index/bptree/core.rs", "get_records_headers"), ("src/storage/core.rs", "read_blobs"), ("src/storage/core.rs", "init_from_existing")],
    "C04": [("src/blob/core.rs", "push_deletion_record"), ("src/storage/core.rs", "restore_active_blob"), ("src/storage/core.rs", "close_active_blob"),
            ("src/blob/index/core.rs", "load_in_memory")],
    "C05": [("src/blob/entry.rs", "load"), ("src/blob/entry.rs", "load_data"), ("src/blob/core.rs", "read_current_record")],
    "C06": [("src/blob/core.rs", "load"), ("src/storage/core.rs", "init_from_existing"), ("src/storage/core.rs", "pop_active")],
    "C07": [("src/io/unix/sync.rs", "write_append_all"), ("src/io/unix/sync.rs", "write_append_writable_data"), ("src/io/unix/sync.rs", "write_data")],
    "C09": [("src/blob/index/bptree/serializer.rs", "serialize_bptree"), ("src/blob/index/bptree/serializer.rs", "shift_all_and_write"),
            ("src/blob/index/bptree/serializer.rs", "collect_next_layer_nodes"), ("src/blob/index/bptree/core.rs", "go_right")],
    "C10": [("src/filter/hierarchical.rs", "push"), ("src/filter/hierarchical.rs", "pop"), ("src/filter/hierarchical.rs", "add_child"),
            ("src/filter/bloom.rs", "add"), ("src/filter/bloom.rs", "contains_in_memory"), ("src/filter/bloom.rs", "contains_in_file"),
            ("src/blob/index/core.rs", "deserialize_filters")],
    "C11": [("src/blob/index/core.rs", "dump_in_memory"), ("src/blob/core.rs", "write_mut"), ("src/blob/core.rs", "write")],
    "C12": [("src/blob/core.rs", "dump"), ("src/blob/core.rs", "write_header"), ("src/storage/core.rs", "fsyncdata")],
    "C13": [("src/storage/observer_worker.rs", "process_msg"), ("src/storage/observer_worker.rs", "tick"), ("src/storage/observer_worker.rs", "tick_with_deadline"),
            ("src/storage/observer_worker.rs", "process_deferred_blob_index_dump")],
    "C15": [("src/filter/hierarchical.rs", "len"), ("src/blob/index/core.rs", "push")],
    # second batch: functions around the first batch (read path, lifecycle, tree descent, tools)
    "C01b": [("src/blob/core.rs", "get_latest_entry"), ("src/blob/core.rs", "get_entry_with_meta"), ("src/blob/core.rs", "filter_entries"),
             ("src/blob/index/bptree/core.rs", "find_by_key"), ("src/blob/index/bptree/core.rs", "get_latest"), ("src/blob/index/bptree/core.rs", "read_headers"),
             ("src/blob/index/bptree/core.rs", "find_leaf_node"), ("src/storage/core.rs", "read_with_optional_meta"), ("src/storage/core.rs", "contains_with")],
    "C04b": [("src/storage/core.rs", "create_active_blob"), ("src/storage/core.rs", "replace_active_blob"), ("src/storage/observer_worker.rs", "try_update_active_blob"),
             ("src/storage/observer_worker.rs", "update_active_blob"), ("src/storage/core.rs", "try_dump_old_blob_indexes")],
    "C10b": [("src/blob/core.rs", "check_filter"), ("src/blob/index/core.rs", "contains_key_fast"), ("src/filter/hierarchical.rs", "iter_possible_childs_rev"),
             ("src/filter/hierarchical.rs", "merge_filters"), ("src/filter/hierarchical.rs", "remove"), ("src/filter/range.rs", "contains"), ("src/filter/range.rs", "add")],
    "C16b": [("src/tools/blob_reader.rs", "skip_wrong_record_data"), ("src/tools/blob_writer.rs", "write_header"), ("src/tools/blob_writer.rs", "validate_written_records"),
             ("src/tools/blob_writer.rs", "validate_written_header")],
    "C09b": [("src/blob/index/bptree/serializer.rs", "build_tree"), ("src/blob/index/bptree/serializer.rs", "process_keys_portion"),
             ("src/blob/index/bptree/core.rs", "go_right_file"), ("src/blob/index/bptree/core.rs", "leaf_node_buf_size")],
    # third batch
    "C02c": [("src/blob/core.rs", "read_all_entries_with_deletion_marker"), ("src/storage/core.rs", "read_all"), ("src/blob/index/core.rs", "get_all")],
    "C03c": [("src/blob/core.rs", "from_file"), ("src/blob/core.rs", "try_regenerate_index"), ("src/blob/index/core.rs", "from_file"), ("src/blob/index/core.rs", "load")],
    "C05c": [("src/record/record.rs", "validate"), ("src/record/record.rs", "check_data_checksum"), ("src/record/partially_serialized.rs", "finalize_with_checksum"),
             ("src/record/record.rs", "data_checksum_audit")],
    "C06c": [("src/storage/core.rs", "should_save_corrupted_blob"), ("src/storage/core.rs", "count_old_corrupted_blobs"), ("src/blob/core.rs", "start")],
    "C07c": [("src/storage/core.rs", "next_blob_name"), ("src/blob/index/tools.rs", "clean_file")],
    "C12c": [("src/storage/core.rs", "should_try_fsync"), ("src/storage/observer_worker.rs", "try_run_fsync_task"), ("src/io/unix/sync.rs", "fsyncdata"),
             ("src/storage/core.rs", "close_active_blob")],
    "C14c": [("src/blob/core.rs", "open_new"), ("src/storage/core.rs", "create_active_blob")],
    "C15c": [("src/storage/core.rs", "records_count"), ("src/storage/core.rs", "records_count_detailed"), ("src/storage/core.rs", "blobs_count"), ("src/storage/core.rs", "max_id")],
    # fourth batch: the whole filter hierarchy + blob read helpers
    "C10d": [("src/filter/hierarchical.rs", f) for f in ("parent_id", "add_to_filter", "merge_filters", "check_filter_fast", "from_vec", "get_filter_from_child", "add_child",
                                                        "last_inner_node", "add_to_parents", "add_filter_from_cow", "init_filter_from_cow", "new_inner_node", "pop", "remove",
                                                        "last_id", "last", "get_child", "get_child_mut", "new", "len", "next")],
    "C02d": [("src/blob/core.rs", "get_entry_with_meta"), ("src/blob/core.rs", "filter_entries"), ("src/blob/core.rs", "get_latest_entry")],
    # fifth batch (after seeding round 3): filter trait impls, bloom constructors, File reads / open flags, blob header, observer
    "C10e": [("src/filter/traits.rs", "checked_add_assign"), ("src/filter/traits.rs", "contains_fast"), ("src/filter/combined.rs", "checked_add_assign"),
             ("src/filter/combined.rs", "contains_fast"), ("src/filter/bloom.rs", "from"), ("src/filter/bloom.rs", "save"), ("src/filter/bloom.rs", "new_from_shared_config"),
             ("src/filter/bloom.rs", "checked_add_assign"), ("src/filter/range.rs", "merge_with"), ("src/filter/range.rs", "checked_add_assign")],
    "C06e": [("src/blob/header.rs", "from_file"), ("src/blob/header.rs", "validate"), ("src/blob/header.rs", "validate_without_version"),
             ("src/io/unix/sync.rs", "read_exact_at"), ("src/io/unix/sync.rs", "read_exact_at_allocate"), ("src/io/unix/sync.rs", "read_all")],
    "C11e": [("src/io/unix/sync.rs", "open"), ("src/io/unix/sync.rs", "create")],
    "C13e": [("src/storage/observer.rs", "send_msg"), ("src/storage/observer.rs", "run"), ("src/storage/observer.rs", "shutdown")],
    "C14e": [("src/blob/index/core.rs", "load"), ("src/blob/index/core.rs", "load_in_memory")],
    "C16": [("src/tools/blob_reader.rs", "read_single_record"), ("src/tools/blob_reader.rs", "read_record"), ("src/tools/blob_reader.rs", "is_eof"),
            ("src/tools/utils.rs", "process_blob_with"), ("src/tools/validation.rs", "validate_blob"), ("src/tools/blob_writer.rs", "write_record")],
}
OPS = [(r"(?<![<>=!-])<(?![<=])", "<="), (r"<=", "<"), (r"(?<![<>=!-])>(?![>=])", ">="), (r">=", ">"), (r"==", "!="), (r"!=", "=="),
       (r"&&", "||"), (r"\|\|", "&&"), (r"\+ 1\b", "+ 0"), (r"- 1\b", "- 0"), (r"\btrue\b", "false"), (r"\bfalse\b", "true"), (r"if !", "if ")]


# file-level targets: every function of the file (outside `mod tests`), judged by ALL Engine-M obligations
FILE_TARGETS = {
    "F1": "src/blob/core.rs", "F2": "src/storage/core.rs", "F3": "src/blob/index/core.rs", "F4": "src/blob/index/bptree/core.rs",
    "F5": "src/storage/observer_worker.rs", "F6": "src/filter/hierarchical.rs", "F7": "src/io/unix/sync.rs", "F8": "src/blob/entry.rs",
    "F9": "src/record/record.rs",
}


def fn_ranges(text, name):
    """line ranges (0-based, inclusive) of every `fn name` body in the file"""
    lines = text.split("\n")
    out = []
    for i, l in enumerate(lines):
        if re.search(r"\bfn %s\b" % re.escape(name), l):
            depth, started = 0, False
            for j in range(i, len(lines)):
                depth += lines[j].count("{") - lines[j].count("}")
                if "{" in lines[j]:
                    started = True
                if started and depth <= 0:
                    out.append((i, j))
                    break
    return out


def sites():
    res = []
    allt = [(pid, f, fn) for pid, targets in TARGETS.items() for f, fn in targets]
    for pid, f in FILE_TARGETS.items():
        text = open(os.path.join("/repo", f), newline="").read()
        cut = text.find("mod tests")
        names = sorted(set(re.findall(r"\bfn (\w+)", text[:cut] if cut > 0 else text)))
        allt += [(pid, f, fn) for fn in names]
    for pid, f, fn in allt:
        if True:
            text = open(os.path.join("/repo", f), newline="").read()
            cut = text.find("mod tests")
            if cut > 0:
                text = text[:cut]
            lines = text.split("\n")
            for (a, b) in fn_ranges(text, fn):
                for ln in range(a + 1, b + 1):
                    l = lines[ln]
                    code = l.split("//")[0]
                    if re.search(r"\b(debug|trace|info|warn|error)!|assert|#\[", code) or "->" in code and "=>" not in code and "fn " in code:
                        continue
                    for rx, rep in OPS:
                        for m in re.finditer(rx, code):
                            # skip generics / arrows / lifetimes
                            ctx = code[max(0, m.start() - 2):m.end() + 2]
                            if "->" in ctx or "=>" in ctx or "::<" in code[max(0, m.start() - 3):m.end()] or re.search(r"<[A-Z'_]", code[m.start():m.start() + 3]) and rep in ("<=",):
                                continue
                            if rx.startswith("(?<![<>=!-])>") and re.search(r"[A-Za-z_)\]>]\s*>$", code[:m.end()]) and re.search(r"<", code[:m.start()]):
                                continue
                            new = code[:m.start()] + rep + code[m.end():] + l[len(code):]
                            mid = hashlib.sha1(("%s:%d:%d:%s" % (f, ln, m.start(), rep)).encode()).hexdigest()[:8]
                            res.append({"id": "%s-%s" % (pid, mid), "pid": pid, "file": f, "fn": fn, "line": ln + 1, "old": l, "new": new})
    return res


def run_one(mt, crate_cache={}):
    work = os.path.join(OUT, "w-" + mt["id"])
    shutil.rmtree(work, ignore_errors=True)
    os.makedirs(work)
    src = os.path.join(work, "src")
    subprocess.run("rsync -a --exclude /target --exclude /.git /repo/ %s/" % src, shell=True, check=True)
    p = os.path.join(src, mt["file"])
    lines = open(p, newline="").read().split("\n")
    assert lines[mt["line"] - 1] == mt["old"], "site moved"
    lines[mt["line"] - 1] = mt["new"]
    open(p, "w", newline="").write("\n".join(lines))
    env = dict(os.environ, CARGO_NET_OFFLINE="true", CARGO_TARGET_DIR="/var/tmp/pearl-verif/cache/mir-target")
    r = subprocess.run("cd %s && cargo +nightly rustc --offline --lib -- -Zunpretty=mir -C debug-assertions=off -C overflow-checks=on > ../pearl.mir 2> ../mir.err" % src,
                       shell=True, env=env)
    if r.returncode != 0:
        shutil.rmtree(work, ignore_errors=True)
        return {"status": "does-not-compile"}
    import props
    from mir2smt import pearl as P
    crate = P.Crate(open(os.path.join(work, "pearl.mir")).read(), src)
    out = {}
    verdict = "missed"
    if mt["pid"].startswith("F"):
        seen, obs = set(), []
        for pid_, p_ in props.PROPS.items():
            for o_ in p_.get("mir", []):
                k_ = (o_["module"], o_["func"])
                if k_ not in seen and o_.get("tier", "quick") == "quick":
                    seen.add(k_); obs.append(o_)
        slow = ("push_step", "read_all_merge", "hier_no_false_negative", "len_counts_live", "partition_agree", "recovery_copies_prefix", "leaf_packing", "latest_entry_fold")
        obs.sort(key=lambda o_: (o_["func"] in slow, o_["func"]))
    else:
        obs = props.PROPS[mt["pid"].rstrip("bcde")].get("mir", [])
    for o in obs:
        if o.get("tier", "quick") != "quick":
            continue
        kw = dict(o.get("kwargs", {}))
        for k in ("L", "N", "B", "M"):       # smaller bounds for the sweep
            if k in kw and isinstance(kw[k], int) and o["func"] in ("push_step", "get_latest_mem", "get_all_marker", "get_all_mem", "partition_agree"):
                kw[k] = min(kw[k], 4)
        t0 = time.time()
        try:
            P.CURRENT_OB = "%s.%s" % (o["module"], o["func"])
            del P.ALL_EXECUTORS[:]
            P._FRAME = None
            r = getattr(importlib.import_module("mir2smt." + o["module"]), o["func"])(crate, **kw)
            st, det = r.status, r.detail
        except Exception as e:
            st, det = "inconclusive", "exc: %s" % str(e)[:150]
        out[o["name"]] = {"status": st, "detail": det[:200], "wall": round(time.time() - t0, 1)}
        if st == "violated":
            verdict = "caught"
            break
        if st in ("inconclusive", "vacuous") and verdict == "missed":
            verdict = "inconclusive"
    shutil.rmtree(work, ignore_errors=True)
    return {"status": verdict, "obligations": out}


def main():
    os.makedirs(OUT, exist_ok=True)
    cmd = sys.argv[1] if len(sys.argv) > 1 else "gen"
    if cmd == "gen":
        s = sites()
        print(len(s), "sites")
        from collections import Counter
        print(Counter(x["pid"] for x in s))
        json.dump(s, open(os.path.join(OUT, "sites.json"), "w"), indent=1)
    elif cmd == "run":
        args = [a for a in sys.argv[2:] if not a.startswith("--")]
        mx = int(sys.argv[sys.argv.index("--max") + 1]) if "--max" in sys.argv else 10 ** 9
        s = [x for x in sites() if not args or x["pid"] in args or x["id"] in args]
        import random
        random.Random(7).shuffle(s)
        per = {}
        todo = []
        for x in s:
            if per.get(x["pid"], 0) < mx and not os.path.exists(os.path.join(OUT, x["id"] + ".json")):
                per[x["pid"]] = per.get(x["pid"], 0) + 1
                todo.append(x)
        from concurrent.futures import ProcessPoolExecutor
        with ProcessPoolExecutor(max_workers=int(os.environ.get("SWEEP_JOBS", "6"))) as pool:
            for mt, r in zip(todo, pool.map(run_one, todo)):
                mt = dict(mt); mt.update(r)
                json.dump(mt, open(os.path.join(OUT, mt["id"] + ".json"), "w"), indent=1)
                print("%-14s %-18s %s:%d  %s" % (mt["id"], mt["status"], mt["file"], mt["line"], mt["new"].strip()[:90]), flush=True)
    elif cmd == "report":
        from collections import Counter
        rows = [json.load(open(os.path.join(OUT, f))) for f in sorted(os.listdir(OUT)) if f.endswith(".json") and f != "sites.json"]
        c = Counter((r["pid"], r["status"]) for r in rows)
        for pid in sorted(set(r["pid"] for r in rows)):
            print(pid, {k[1]: v for k, v in c.items() if k[0] == pid})
        for r in rows:
            if r["status"] in ("missed", "inconclusive"):
                print("  %s %-12s %s:%d fn %s | %s  ->  %s" % (r["id"], r["status"], r["file"], r["line"], r["fn"], r["old"].strip()[:70], r["new"].strip()[:70]))


if __name__ == "__main__":
    main()
