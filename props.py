"""Per-property registry: which Kani harnesses (Engine K) and MIR obligations (Engine M) decide each property."""
from vlib.kani_engine import Harness as H

COMMON_K = ["E1: tokio runtime boundary of src/io/unix/sync.rs replaced by the environment model (kani_env.rs)",
            "E2: BTreeMap<K, Vec<RecordHeader>> replaced by a sorted-Vec map with the same observable API",
            "E4: log macros expand to nothing", "std::fmt::format -> String::new(); Backtrace::capture -> disabled"]
COMMON_M = ["std containers are theories: Vec/slice = bounded element list + symbolic length; BTreeMap = single-key model",
            "summaries listed per obligation in coverage.stubs_and_summaries are exact w.r.t. std documentation",
            "unwinding paths (panics inside callees) are not modelled; lock poisoning and blocking are outside",
            "closures passed to map_err/with_context/ok_or_else only build error values and are not executed"]


def ob(name, module, func, tier="quick", **kw):
    d = {"name": name, "module": module, "func": func, "tier": tier, "kwargs": kw.pop("kwargs", {})}
    d.update(kw)
    return d


PROPS = {}

PROPS["C01"] = {
    "level": "model_checking",
    "kani": [
        H("c01_latest_fold_ts", "fold of ReadResult<BlobRecordTimestamp>::latest over 4 per-blob results = first maximal timestamp",
          ["ReadResult<BlobRecordTimestamp>::latest", "ReadResult::timestamp"], "4 blobs, arbitrary u64 timestamps and kinds", covers=3, timeout=300),
        H("c01_latest_pair_ts", "two-operand rule of latest(): other wins only on strictly greater timestamp",
          ["ReadResult<BlobRecordTimestamp>::latest"], "all inputs", covers=1, timeout=120),
    ],
    "mir": [
        ob("push_step", "ob_index", "push_step", kwargs={"L": 5}, thorough_kwargs={"L": 6}),
        ob("get_latest_mem", "ob_index", "get_latest_mem", kwargs={"L": 6}, thorough_kwargs={"L": 12}),
    ],
    "assumptions": COMMON_K + COMMON_M + [
        "composition (written argument, DESIGN.md C01): I(v) is established by new/load/regeneration and preserved by push; "
        "the blob-local winner is the last element; the cross-blob fold keeps the first maximal element",
        "outside: glue of Storage::get_latest_entry / read_with_optional_meta, filter pruning (C10), loading bytes (C05)"],
}

PROPS["C02"] = {
    "level": "model_checking",
    "kani": [
        H("c02_is_deleted_bit", "is_deleted() is exactly bit 0 of flags", ["RecordHeader::is_deleted", "RecordHeader::timestamp"], "all u8 flags", covers=1, timeout=120),
        H("c02_record_deleted_is_marker", "Record::deleted builds a marker: DELETE flag, data size 0, key/timestamp kept",
          ["Record::deleted", "Record::create", "Header::mark_as_deleted", "Header::update_checksum"], "key length 2, empty meta", covers=1, timeout=600),
    ],
    "mir": [
        ob("get_all_marker", "ob_index", "get_all_marker", kwargs={"L": 6}, thorough_kwargs={"L": 10}),
        ob("get_all_mem", "ob_index", "get_all_mem", kwargs={"L": 6}, thorough_kwargs={"L": 10}),
    ],
    "assumptions": COMMON_K + COMMON_M + ["outside: delete fan-out count at Storage level, duplicate-write guard, HashMap equality of Meta"],
}

PROPS["C02"]["mir"].append(ob("blob_delete", "ob_blob", "blob_delete"))

PROPS["C03"] = {
    "level": "model_checking",
    "kani": [
        H("c03_validate_exact_k2", "BPTreeFileIndex::validate accepts a header iff written, version 6, key size, exact blob size, magic",
          ["<BPTreeFileIndex<ArrayKey<2>> as FileIndexTrait>::validate", "IndexHeader::{is_written,version,key_size,blob_size,magic_byte}"],
          "all header field values, all blob sizes; K = ArrayKey<2>", covers=4, timeout=600),
        H("c03_validate_exact_k8", "same for K = ArrayKey<8>", ["<BPTreeFileIndex<ArrayKey<8>> as FileIndexTrait>::validate"],
          "all header field values, all blob sizes", covers=4, timeout=600, tier="thorough"),
        H("c03_written_bit_packing", "written bit and version share one byte without interference; defaults",
          ["IndexHeader::{set_written,is_written,version,set_version,default}"], "all u8 versions", covers=1, timeout=120),
    ],
    "mir": [ob("load_index_fallback", "ob_blob", "load_index_fallback")],
    "assumptions": COMMON_K + COMMON_M + ["outside: next_blob_id / directory listing, equality of answers across a real re-open, SHA-256 of the index body"],
}

PROPS["C04"] = {
    "level": "model_checking",
    "kani": [],
    "mir": [ob("push_deletion_loads_first", "ob_blob", "push_deletion_loads_first"),
            ob("restore_loads_index", "ob_storage", "restore_loads_index")],
    "assumptions": COMMON_M + ["outside: interleavings with background work, free_excess_resources, runtime flavours"],
}

PROPS["C11"] = {
    "level": "model_checking",
    "kani": [],
    "mir": [ob("dump_failure_keeps_headers", "ob_index", "dump_failure_keeps_headers"),
            ob("write_mut_order", "ob_blob", "write_mut_order"),
            ob("blob_write_order", "ob_blob", "blob_write_order")],
    "assumptions": COMMON_M + ["faults are modelled as arbitrary Err results of the callee futures (write_to_file, from_records, serialize_filters)",
                               "outside: post-restart state, background-task logging"],
}

PROPS["C12"] = {
    "level": "model_checking",
    "kani": [H("c12_fsync_accounting", "File::fsyncdata: after Ok no dirty bytes w.r.t. the size at the call and the model saw a sync; after Err synced_size unchanged",
               ["File::fsyncdata", "File::dirty_bytes", "File::size", "File::synced_size"], "file size <= 32, one symbolic fault, 0..2 Pending polls", covers=2, timeout=900)],
    "mir": [ob("dump_order", "ob_blob", "dump_order"), ob("write_header_order", "ob_blob", "write_header_order")],
    "assumptions": COMMON_K + COMMON_M + ["call-order level: 'synced' = the sync future completed with Ok before the next step started",
                                          "outside: 'a sync happens without further client action' (worker task), single-flight under concurrency"],
}

PROPS["C13"] = {
    "level": "model_checking",
    "kani": [],
    "mir": [ob("worker_survives", "ob_storage", "worker_survives")],
    "assumptions": COMMON_M + ["safety kernel only: process_msg never returns Err for an inapplicable lifecycle request (run() panics on Err)",
                               "outside: liveness itself (rotation eventually happens, dumps complete, close returns): tokio scheduler, mpsc, timers"],
}

PROPS["C14"] = {
    "level": "model_checking",
    "kani": [],
    "mir": [ob("write_mut_order_c14", "ob_blob", "write_mut_order"), ob("blob_write_order_c14", "ob_blob", "blob_write_order")],
    "assumptions": COMMON_M + ["claim: no suspension point lies between the completed file write and the index insertion",
                               "outside: Storage-level futures, reservation inside the blocking closure (file level)"],
}

PROPS["C04"]["mir"].append(ob("close_active_order_c04", "ob_storage", "close_active_order"))
PROPS["C11"]["mir"] += [ob("worker_survives_io", "ob_storage", "worker_survives_io"), ob("close_active_order_c11", "ob_storage", "close_active_order")]
PROPS["C12"]["mir"] += [ob("close_active_order", "ob_storage", "close_active_order"), ob("explicit_fsync", "ob_storage", "explicit_fsync")]
PROPS["C13"]["mir"].append(ob("worker_survives_io_c13", "ob_storage", "worker_survives_io"))

PROPS["C04"]["mir"].append(ob("hier_pop_push", "ob_hier", "hier_no_false_negative"))

PROPS["C10"] = {
    "level": "model_checking",
    "kani": [],
    "mir": [ob("hier_no_false_negative", "ob_hier", "hier_no_false_negative", kwargs={"n": 4}, thorough_kwargs={"n": 5, "groups": (2, 3, 4)})],
    "assumptions": COMMON_M + ["filters are modelled as bit-sets over 3 abstract keys; checked_add_assign either merges (union) or refuses; "
                               "a child's filter is a superset of the keys it stores (established by C10 bloom/range kernels)",
                               "outside: aHash values, real bloom sizes"],
}

PROPS["C15"] = {
    "level": "model_checking",
    "kani": [],
    "mir": [ob("len_counts_live", "ob_hier", "len_counts_live"),
            ob("push_counts", "ob_index", "push_step", kwargs={"L": 3})],
    "assumptions": COMMON_M + ["outside: disk_used, corrupted_blobs_count, next_blob_id after restart"],
}

PROPS["C01"]["mir"].append(ob("latest_entry_fold", "ob_storage", "latest_entry_fold", kwargs={"B": 2}, thorough_kwargs={"B": 3}))
PROPS["C02"]["mir"] += [ob("read_all_merge_2x2", "ob_storage", "read_all_merge", kwargs={"B": 1, "Lb": 2}),
                        ob("read_all_merge_3x1", "ob_storage", "read_all_merge", kwargs={"B": 2, "Lb": 1}),
                        ob("read_all_merge_3x2", "ob_storage", "read_all_merge", tier="thorough", kwargs={"B": 2, "Lb": 2})]

PROPS["C05"] = {
    "level": "model_checking",
    "kani": [
        H("c05_crc_burst_n4", "data_checksum_audit rejects every non-zero XOR pattern (<= 32 bits) applied to a value of 1..4 bytes",
          ["RecordHeader::data_checksum_audit", "crc::Crc<u32>::checksum (CRC32C)"], "value length 1..4 bytes, all patterns", covers=1, timeout=900),
        H("c05_audit_exact_n3", "data_checksum_audit is Ok iff stored checksum == CRC32C(bytes)", ["RecordHeader::data_checksum_audit"],
          "value length 0..3 bytes, all stored checksums", covers=2, timeout=600),
        H("c05_partial_ser_equiv_head", "finalize_with_checksum patches offset+checksum into the pre-serialized head exactly as set_offset_checksum + serialize would",
          ["PartiallySerializedRecord::finalize_with_checksum", "RecordHeader::set_offset_checksum", "RecordHeader::to_raw"],
          "key length 2, all header field values and offsets", covers=1, timeout=1800, tier="thorough"),
        H("c17_record_header_layout_k1", "record header byte layout / patch positions / decoder inverse (key length 1)",
          ["RecordHeader::to_raw", "RecordHeader::from_raw", "RecordHeader::serialized_size", "blob_offset_offset", "checksum_offset"],
          "key length 1, all field values", covers=1, timeout=600),
    ],
    "mir": [ob("entry_load_audits", "ob_record", "entry_load_audits"), ob("entry_load_data_audits", "ob_record", "entry_load_data_audits"),
            ob("read_current_record_step", "ob_record", "read_current_record_step"),
            ob("rawrecords_all_or_nothing", "ob_record", "rawrecords_all_or_nothing", kwargs={"N": 3}, thorough_kwargs={"N": 5})],
    "assumptions": COMMON_K + COMMON_M + ["byte buffers are modelled as file ranges (offset, length): what is audited / returned is identified by where it was read from",
                                          "Header::serialized_size is an uninterpreted function of the header (bincode outside)",
                                          "outside: meta maps, the 80 KiB in-place/background threshold, bytes travelling through a real file"],
}

PROPS["C06"] = {
    "level": "model_checking",
    "kani": [H("c06_classify_corruption_errors", "should_save_corrupted_blob: Bincode and every validation kind except BlobVersion are quarantined, nothing else",
               ["Storage::should_save_corrupted_blob", "Error::kind"], "all ErrorKind classes used by init, all 12 ValidationErrorKind values", covers=3, timeout=900)],
    "mir": [ob("rawrecords_all_or_nothing_c06", "ob_record", "rawrecords_all_or_nothing", kwargs={"N": 3}, thorough_kwargs={"N": 5}),
            ob("read_current_record_step_c06", "ob_record", "read_current_record_step")],
    "assumptions": COMMON_K + COMMON_M + ["power-loss model at parse level only: a torn tail is any failure of read / parse / validation of some record",
                                          "outside: real SIGKILL, init's directory handling, index files, recovery tool, writes after recovery"],
}

PROPS["C03"]["mir"].append(ob("from_records_order", "ob_bptree", "from_records_order"))
PROPS["C12"]["mir"].append(ob("from_records_order_c12", "ob_bptree", "from_records_order"))
PROPS["C11"]["mir"] += [ob("from_records_order_c11", "ob_bptree", "from_records_order"),
                        ob("append_all_only_appends_c11", "ob_file", "append_all_only_appends"),
                        ob("append_writable_only_appends_c11", "ob_file", "append_writable_only_appends")]
PROPS["C14"]["mir"] += [ob("append_all_only_appends_c14", "ob_file", "append_all_only_appends"),
                        ob("append_writable_only_appends_c14", "ob_file", "append_writable_only_appends")]

PROPS["C07"] = {
    "level": "model_checking",
    "kani": [],
    "mir": [ob("append_all_only_appends", "ob_file", "append_all_only_appends"),
            ob("append_writable_only_appends", "ob_file", "append_writable_only_appends"),
            ob("from_records_order_c07", "ob_bptree", "from_records_order")],
    "assumptions": COMMON_M + ["file operations are events (offset, length, outcome); std's write_all_at is all-or-error, write_at may be short",
                               "the positional write (File::write_all_at) is reached only from from_records at offset 0 of the index file (from_records_order)",
                               "outside: blob ids after restart/quarantine, truncation (clean_file) call sites, 'queries perform no writes' above File level"],
}

PROPS["C09"] = {
    "level": "model_checking",
    "kani": [H("c09_node_new_serialized_layout", "Node::new_serialized emits NodeMeta | keys | offsets and matches serialized_size_with_keys",
               ["Node::new_serialized", "Node::serialized_size_with_keys"], "2 keys of 2 bytes, 3 offsets, all values", covers=1, timeout=600)],
    "mir": [ob("partition_agree", "ob_bptree", "partition_agree", kwargs={"N": 6}, thorough_kwargs={"N": 7})],
    "assumptions": COMMON_K + COMMON_M + ["outside: leaf packing (serialize_bptree), in-leaf search and left/right expansion (read_headers/go_right), end-to-end build-then-query, SHA-256"],
}

PROPS["C13"]["mir"].append(ob("deferred_deadline_inv", "ob_storage", "deferred_deadline_inv"))
PROPS["C04"]["mir"]  # restore_loads_index now also carries the C14 claim (no suspension between pop and install)
PROPS["C14"]["mir"].append(ob("restore_no_suspension", "ob_storage", "restore_loads_index"))

PROPS["C10"]["kani"] = [
    H("c10_bit_mapping_mem_vs_file", "in-memory probe (u64 words) and on-file probe (bytes of the LE image) address the same bit; to_raw_vec is the word vector",
      ["AtomicBitVec::{from_raw_slice,get,to_raw_vec,items_count}", "OffsetAndMaskCalculator::{offset_and_mask_u8,get_bit_u8}"], "bit counts 1..=70 (not multiples of 64 included), all word values, all bit indices", covers=3, timeout=600),
    H("c10_bitvec_or_with_union", "or_with is the bitwise union and refuses a different bit count", ["AtomicBitVec::or_with"], "70 bits, all word values", covers=1, timeout=300),
    H("c10_bitvec_set_get", "set(i) makes get(i) true and leaves other bits alone", ["AtomicBitVec::{set,get,items_count}"], "bit counts 1..=70", covers=1, timeout=900, tier="thorough"),
    H("c10_range_add_contains", "RangeFilterInner::add/contains: closed interval of the added keys, never loses a contained key", ["RangeFilterInner::{add,contains}"],
      "K = ArrayKey<2>, arbitrary pre-state", covers=2, timeout=300),
    H("c10_range_merge_superset", "merge_with yields a superset of both operands", ["RangeFilterInner::merge_with"], "K = ArrayKey<2>", covers=2, timeout=300),
    H("c10_range_empty_and_clear", "empty / cleared range filter", ["RangeFilterInner::{new,clear,add,contains}"], "K = ArrayKey<2>", covers=1, timeout=300),
    H("c10_filter_result_conservative", "FilterResult + is NotContains only if both are; default is NeedAdditionalCheck", ["<FilterResult as Add>::add", "FilterResult::default"], "all values", covers=1, timeout=120),
]
PROPS["C10"]["assumptions"] = COMMON_K + PROPS["C10"]["assumptions"]

PROPS["C17"] = {
    "level": "model_checking",
    "kani": [
        H("c17_record_header_layout_k1", "record header: magic u64 | key len u64 | key | meta_size | data_size | flags u8 | blob_offset | timestamp | data_checksum u32 | header_checksum u32; decoder inverse; patch positions",
          ["RecordHeader::{to_raw,from_raw,serialized_size,blob_offset_offset,checksum_offset}"], "key length 1, all field values", covers=1, timeout=600),
        H("c17_record_header_layout_k4", "same, key length 4", ["RecordHeader::{to_raw,from_raw,serialized_size}"], "key length 4, all field values", covers=1, timeout=600),
        H("c17_blob_header_layout_and_validation", "blob header: magic u64 | version u32 | flags u64; validate accepts exactly magic 0xdeafabcd + version 1",
          ["blob::Header::{validate,validate_without_version,serialized_size,new}", "bincode (de)serialize of blob::Header"], "all field values", covers=2, timeout=600),
        H("c17_index_header_layout", "index header encoder layout incl. hash length prefix, version byte (version<<1|written), key_size u16, blob_size",
          ["bincode serialize of IndexHeader", "IndexHeader::serialized_size"], "hash of 4 bytes, all scalar values", covers=1, timeout=600),
        H("c17_tree_meta_layout", "TreeMeta = leaves_offset | tree_offset, NodeMeta = size; decoders invert", ["TreeMeta::{new,from_raw,serialized_size_default}", "NodeMeta::{new,serialized_size_default}"],
          "all values", covers=1, timeout=300),
        H("c09_node_new_serialized_layout", "inner node = NodeMeta | keys | offsets", ["Node::new_serialized", "Node::serialized_size_with_keys"], "2 keys of 2 bytes", covers=1, timeout=600),
        H("c03_validate_exact_k2", "index header accepted iff written, version 6, key size, exact blob size, magic (key-size / version mismatch rejected)",
          ["<BPTreeFileIndex<ArrayKey<2>> as FileIndexTrait>::validate"], "all header values", covers=4, timeout=600),
    ],
    "mir": [],
    "assumptions": COMMON_K + ["layout differential against the byte layout of the pinned release written out in the harnesses (field order, widths, little-endian, length prefixes, magics, versions)",
                               "outside: replay of a corpus of old files (concrete testing, not done), aHash outputs and seeds, SHA-256, bloom Save layout (f64 field)"],
}
PROPS["C09"]["kani"].append(H("c09_node_binary_search_k1", "in-node binary search over serialized keys: Ok(index of equal key) / Err(insertion point)", ["Node::binary_search_serialized"],
                              "n <= 4 sorted one-byte keys, all queries", covers=3, timeout=300))

PROPS["C16"] = {
    "level": "model_checking",
    "kani": [],
    "mir": [ob("recover_addressable", "ob_tools", "recover_addressable"), ob("reader_eof_exact", "ob_tools", "reader_eof_exact"),
            ob("migration_all_records", "ob_tools", "migration_all_records")],
    "assumptions": COMMON_M + ["bincode (de)serialization and std::fs::File reads/writes of the tools are arbitrary-outcome events; only positions, lengths and which header is written are tracked",
                               "outside: validate_blob / validate_index acceptance of every storage-produced file, byte-level damage classes, index-reading tools, meta bytes (covered by no checksum in the format)"],
}

PROPS["C10"]["mir"].append(ob("filter_offsets_agree", "ob_index", "filter_offsets_agree"))
PROPS["C12"]["mir"].append(ob("fsync_flag_released", "ob_storage", "fsync_flag_released"))

PROPS["C03"]["mir"] += [ob("read_blobs_max_id", "ob_storage", "read_blobs_max_id"), ob("init_ids_above_all", "ob_storage", "init_ids_above_all")]
PROPS["C07"]["mir"] += [ob("read_blobs_max_id_c07", "ob_storage", "read_blobs_max_id"), ob("init_ids_above_all_c07", "ob_storage", "init_ids_above_all")]
PROPS["C15"]["mir"] += [ob("read_blobs_max_id_c15", "ob_storage", "read_blobs_max_id")]

PROPS["C09"]["mir"].append(ob("go_right_continues", "ob_bptree", "go_right_continues"))

PROPS["C09"]["mir"].append(ob("leaf_search", "ob_bptree", "leaf_search", kwargs={"M": 4}, thorough_kwargs={"M": 6}))
PROPS["C01"]["mir"].append(ob("leaf_search_c01", "ob_bptree", "leaf_search", kwargs={"M": 4}, thorough_kwargs={"M": 6}))
PROPS["C06"]["mir"] += [ob("rawrecords_tiles_file", "ob_record", "rawrecords_tiles_file", kwargs={"N": 2}, thorough_kwargs={"N": 4}),
                        ob("init_fails_only_on_callee_error", "ob_storage", "init_fails_only_on_callee_error"),
                        ob("validate_rejects_short_index", "ob_bptree", "validate_rejects_short_index"),
                        ob("read_blobs_max_id_c06", "ob_storage", "read_blobs_max_id"),
                        ob("init_ids_above_all_c06", "ob_storage", "init_ids_above_all")]
PROPS["C03"]["mir"].append(ob("validate_rejects_short_index_c03", "ob_bptree", "validate_rejects_short_index"))
PROPS["C06"]["assumptions"] = COMMON_K + COMMON_M + [
    "power-loss model: a torn blob tail is any file size (records tile the file or the scan fails); a torn record is any failure of read / parse / validation; a torn index is any file shorter than its header describes",
    "file reads: Ok implies the range is inside the file (read_exact), any read may fail",
    "outside: real SIGKILL timing, torn CONTENT of an index tail of full length (only the hash detects it, and the hash is checked only when the index is loaded), the recovery tool (C16), end-to-end init over a real directory"]
PROPS["C15"]["mir"].append(ob("load_in_memory_count", "ob_index", "load_in_memory_count"))
PROPS["C04"]["mir"].append(ob("load_in_memory_count_c04", "ob_index", "load_in_memory_count"))

_AHASH = [
    H("c17_hash_pinned_len1_4_8", "bloom hash dataflow = pinned aHash 0.7.4 fallback for inputs of 1, 4, 8 bytes (folded_multiply replaced on both sides by the same multiplication-free, non-commutative stand-in)",
      ["AHasher::new_with_keys", "<AHasher as Hasher>::write", "AHasher::large_update", "read_small", "<AHasher as Hasher>::finish", "convert::*"],
      "all inputs of exactly 1, 4, 8 bytes, both bloom hasher keys", covers=3, timeout=300, stubs=["folded_multiply -> mix_stub"]),
    H("c17_hash_pinned_len9_16", "same, inputs of 9 and 16 bytes", ["<AHasher as Hasher>::write", "AHasher::large_update"], "all inputs of exactly 9, 16 bytes", covers=2, timeout=300, stubs=["folded_multiply -> mix_stub"]),
    H("c17_hash_pinned_len17", "same, 17 bytes (tail block first, then the front block)", ["<AHasher as Hasher>::write"], "all inputs of exactly 17 bytes", covers=1, timeout=300, stubs=["folded_multiply -> mix_stub"]),
    H("c17_hash_pinned_len33", "same, 33 bytes (tail + two full blocks)", ["<AHasher as Hasher>::write"], "all inputs of exactly 33 bytes", covers=1, timeout=300, stubs=["folded_multiply -> mix_stub"]),
    H("c17_folded_multiply_def", "folded_multiply(a, b) = low64(a*b) xor high64(a*b) of the full 128-bit product", ["operations::folded_multiply"], "all a, b: u64", covers=0, timeout=600),
    H("c17_mix_stub_discriminates", "vacuity guard: the stand-in for folded_multiply is not commutative and depends on both operands", ["(harness-side) mix_stub"], "witnesses only", covers=3, timeout=60),
]
PROPS["C17"]["kani"] += _AHASH
PROPS["C10"]["kani"] += _AHASH
PROPS["C09"]["mir"].append(ob("leaf_packing", "ob_tree", "leaf_packing", kwargs={"N": 2}, thorough_kwargs={"N": 3}))  # N=3: 40-120 s; N=4: 16 min, solver unknown (nonlinear)
PROPS["C14"]["mir"].append(ob("close_active_order_c14", "ob_storage", "close_active_order"))
PROPS["C15"]["mir"].append(ob("validate_rejects_short_index_c15", "ob_bptree", "validate_rejects_short_index"))
PROPS["C03"]["mir"] += [ob("records_fold_step", "ob_load", "records_fold_step", kwargs={"L": 3}, thorough_kwargs={"L": 5}),
                        ob("records_reverse", "ob_load", "records_reverse", kwargs={"L": 4}, thorough_kwargs={"L": 6})]
PROPS["C04"]["mir"] += [ob("records_fold_step_c04", "ob_load", "records_fold_step", kwargs={"L": 3}, thorough_kwargs={"L": 5}),
                        ob("records_reverse_c04", "ob_load", "records_reverse", kwargs={"L": 4}, thorough_kwargs={"L": 6})]
PROPS["C02"]["mir"] += [ob("delete_in_closed_counts", "ob_delete", "delete_in_closed_counts", kwargs={"B": 3}, thorough_kwargs={"B": 5}),
                        ob("delete_core_sum", "ob_delete", "delete_core_sum"),
                        ob("delete_in_active_flag", "ob_delete", "delete_in_active_flag")]
PROPS["C02"]["mir"].append(ob("write_guard_and_ack", "ob_write", "write_guard_and_ack"))
PROPS["C11"]["mir"].append(ob("write_guard_and_ack_c11", "ob_write", "write_guard_and_ack"))
PROPS["C16"]["mir"] += [ob("validate_blob_all_or_error", "ob_tools", "validate_blob_all_or_error", kwargs={"N": 3}, thorough_kwargs={"N": 5}),
                        ob("reader_record_step", "ob_tools", "reader_record_step"),
                        ob("reader_skip_once", "ob_tools", "reader_skip_once")]
PROPS["C16"]["mir"].append(ob("recovery_copies_prefix", "ob_tools", "recovery_copies_prefix", kwargs={"N": 3}))
PROPS["C06"]["mir"].append(ob("recovery_copies_prefix_c06", "ob_tools", "recovery_copies_prefix", kwargs={"N": 3}))
PROPS["C10"]["mir"] += [ob("bloom_bits_agree", "ob_bloom", "bloom_bits_agree", kwargs={"H": 2}, thorough_kwargs={"H": 3}),
                        ob("bloom_hasher_keys_c10", "ob_bloom", "bloom_hasher_keys")]
PROPS["C17"]["mir"] += [ob("bloom_hasher_keys", "ob_bloom", "bloom_hasher_keys")]
PROPS["C10"]["assumptions"] = PROPS["C10"]["assumptions"] + ["bloom_bits_agree: AtomicBitVec::len() = Bloom::bits_count (established by every constructor: new / from save / set_in_memory); hash values are arbitrary per hasher (the hash function itself: c17_hash_pinned_*)"]
PROPS["C13"]["mir"] += [ob("worker_tick", "ob_worker", "worker_tick"), ob("worker_tick_deadline", "ob_worker", "worker_tick_deadline")]
PROPS["C13"]["mir"].append(ob("process_msg_dispatch", "ob_worker", "process_msg_dispatch"))
PROPS["C03"]["mir"].append(ob("validate_rejects_absurd_index", "ob_bptree", "validate_rejects_absurd_index"))
PROPS["C06"]["mir"].append(ob("validate_rejects_absurd_index_c06", "ob_bptree", "validate_rejects_absurd_index"))
PROPS["C13"]["mir"] += [ob("rotation_decision", "ob_worker", "rotation_decision"), ob("rotation_request", "ob_worker", "rotation_request")]
PROPS["C04"]["mir"] += [ob("rotation_decision_c04", "ob_worker", "rotation_decision")]
PROPS["C09"]["mir"] += [ob("find_leaf_descent", "ob_tree", "find_leaf_descent", kwargs={"D": 3}), ob("go_right_file_run", "ob_tree", "go_right_file_run", kwargs={"R": 3}, thorough_kwargs={"R": 5})]
PROPS["C16"]["mir"] += [ob("writer_revalidates", "ob_tools", "writer_revalidates", kwargs={"N": 2}, thorough_kwargs={"N": 3})]
PROPS["C13"]["mir"].append(ob("dump_all_old_blobs", "ob_worker", "dump_all_old_blobs", kwargs={"B": 2}, thorough_kwargs={"B": 3}))
PROPS["C12"]["mir"].append(ob("dump_all_old_blobs_c12", "ob_worker", "dump_all_old_blobs", kwargs={"B": 2}))
PROPS["C01"]["mir"] += [ob("find_leaf_descent_c01", "ob_tree", "find_leaf_descent", kwargs={"D": 3}), ob("go_right_file_run_c01", "ob_tree", "go_right_file_run", kwargs={"R": 3})]
PROPS["C02"]["mir"].append(ob("read_all_drops_marker", "ob_misc", "read_all_drops_marker"))
PROPS["C15"]["mir"].append(ob("blobs_count_sum", "ob_misc", "blobs_count_sum"))
PROPS["C07"]["mir"].append(ob("clean_file_rules", "ob_misc", "clean_file_rules"))
PROPS["C12"]["mir"].append(ob("fsync_trigger_rules", "ob_misc", "fsync_trigger_rules"))
PROPS["C06"]["mir"].append(ob("rawrecords_start_checks", "ob_misc", "rawrecords_start_checks"))
PROPS["C17"]["mir"].append(ob("rawrecords_start_checks_c17", "ob_misc", "rawrecords_start_checks"))
PROPS["C03"]["mir"].append(ob("blob_from_file_regenerates", "ob_misc", "blob_from_file_regenerates"))
PROPS["C06"]["mir"].append(ob("blob_from_file_regenerates_c06", "ob_misc", "blob_from_file_regenerates"))
PROPS["C01"]["mir"].append(ob("blob_latest_dispatch", "ob_blobread", "blob_latest_dispatch"))
PROPS["C10"]["mir"].append(ob("blob_latest_dispatch_c10", "ob_blobread", "blob_latest_dispatch"))
PROPS["C02"]["mir"].append(ob("blob_meta_lookup", "ob_blobread", "blob_meta_lookup", kwargs={"L": 3}, thorough_kwargs={"L": 5}))

PROPS["C06"]["kani"].append(H("c06_classify_foreign_errors", "should_save_corrupted_blob: an error that is not a pearl Error (plain I/O error, ad-hoc anyhow error) never quarantines a blob",
                              ["Storage::should_save_corrupted_blob"], "one ad-hoc anyhow error, one io::Error (PermissionDenied)", covers=2, timeout=600))
PROPS["C11"]["mir"] += [ob("replace_keeps_old_blob", "ob_worker", "replace_keeps_old_blob"), ob("rotation_decision_c11", "ob_worker", "rotation_decision"),
                        ob("rotation_request_c11", "ob_worker", "rotation_request")]
PROPS["C04"]["mir"] += [ob("replace_keeps_old_blob_c04", "ob_worker", "replace_keeps_old_blob")]
PROPS["C14"]["mir"] += [ob("replace_keeps_old_blob_c14", "ob_worker", "replace_keeps_old_blob")]
PROPS["C16"]["mir"].append(ob("reader_skip_position", "ob_tools", "reader_skip_position"))
PROPS["C10"]["mir"].append(ob("storage_check_filters", "ob_filters", "storage_check_filters", kwargs={"B": 2}, thorough_kwargs={"B": 3}))
PROPS["C03"]["mir"].append(ob("index_hash_checked", "ob_misc", "index_hash_checked"))
PROPS["C06"]["mir"].append(ob("index_hash_checked_c06", "ob_misc", "index_hash_checked"))
PROPS["C03"]["mir"].append(ob("regenerate_pushes_all", "ob_blob", "regenerate_pushes_all", kwargs={"N": 3}))
PROPS["C06"]["mir"].append(ob("regenerate_pushes_all_c06", "ob_blob", "regenerate_pushes_all", kwargs={"N": 3}))
PROPS["C13"]["mir"].append(ob("dump_task_single_flight", "ob_misc", "dump_task_single_flight"))
PROPS["C12"]["mir"] += [ob("inner_new_state", "ob_misc", "inner_new_state"), ob("dump_task_single_flight_c12", "ob_misc", "dump_task_single_flight")]
PROPS["C07"]["mir"] += [ob("init_new_ids", "ob_misc", "init_new_ids"), ob("inner_new_state_c07", "ob_misc", "inner_new_state")]
PROPS["C03"]["mir"].append(ob("init_new_ids_c03", "ob_misc", "init_new_ids"))
PROPS["C09"]["mir"].append(ob("node_fits_block", "ob_tree", "node_fits_block"))

_L8 = H("c17_hash_pinned_len8", "bloom hash dataflow = pinned aHash fallback for 8-byte inputs (the usual key size), alone", ["<AHasher as Hasher>::write", "AHasher::large_update", "read_small"],
        "all inputs of exactly 8 bytes, both bloom hasher keys", covers=1, timeout=300, stubs=["folded_multiply -> mix_stub"])
PROPS["C17"]["kani"].append(_L8)
PROPS["C10"]["kani"].append(_L8)
PROPS["C11"]["mir"].append(ob("open_flags_positional_c11", "ob_file", "open_flags_positional"))
PROPS["C07"]["mir"].append(ob("open_flags_positional", "ob_file", "open_flags_positional"))

# --- round 3 of seeded changes: obligations added or shared with the property the change was written against
PROPS["C02"]["kani"].append(PROPS["C01"]["kani"][1])      # c01_latest_pair_ts: backs contains() in the duplicate-write guard and read_with
PROPS["C02"]["mir"].append(ob("push_step_c02", "ob_index", "push_step", kwargs={"L": 5}))
PROPS["C04"]["mir"].append(ob("blob_delete_c04", "ob_blob", "blob_delete"))
PROPS["C06"]["mir"] += [ob("read_exact_passes_through", "ob_file", "read_exact_passes_through"),
                        ob("header_read_classified", "ob_record", "header_read_classified")]
PROPS["C03"]["mir"].append(ob("read_exact_passes_through_c03", "ob_file", "read_exact_passes_through"))
PROPS["C10"]["mir"] += [ob("option_filter_merge", "ob_filters", "option_filter_merge"),
                        ob("combined_filter_merge", "ob_filters", "combined_filter_merge"),
                        ob("bloom_ctor_invariant", "ob_bloom", "bloom_ctor_invariant")]
PROPS["C11"]["mir"] += [ob("dump_order_c11", "ob_blob", "dump_order"), ob("delete_core_sum_c11", "ob_delete", "delete_core_sum")]
PROPS["C13"]["mir"].append(ob("send_msg_delivers", "ob_worker", "send_msg_delivers"))
PROPS["C09"]["mir"].append(ob("read_headers_file_order", "ob_tree", "read_headers_file_order"))
PROPS["C02"]["mir"].append(ob("read_headers_file_order_c02", "ob_tree", "read_headers_file_order"))
PROPS["C14"]["mir"].append(ob("index_load_cancel_safe", "ob_index", "index_load_cancel_safe"))
PROPS["C04"]["mir"].append(ob("index_load_cancel_safe_c04", "ob_index", "index_load_cancel_safe"))


# --- an obligation belongs to every property whose statement depends on the kernel it decides (lesson of seeding round 3)
def _share(src_pid, src_name, *dst_pids):
    o = [x for x in PROPS[src_pid]["mir"] if x["name"] == src_name][0]
    for d in dst_pids:
        n = dict(o)
        n["name"] = "%s_%s" % (re.sub(r"_c\d\d$", "", src_name), d.lower())
        if not any(x["module"] == n["module"] and x["func"] == n["func"] and x.get("kwargs") == n.get("kwargs") for x in PROPS[d]["mir"]):
            PROPS[d]["mir"].append(n)


import re
for _n in ("leaf_search", "go_right_continues", "find_leaf_descent", "go_right_file_run", "read_headers_file_order"):
    _share("C09", _n, "C03", "C04")        # an index on disk answers like the index in memory
_share("C07", "append_all_only_appends", "C05")
_share("C07", "append_writable_only_appends", "C05")
_share("C06", "read_exact_passes_through", "C05")
_share("C03", "load_index_fallback", "C06", "C11")
_share("C16", "recovery_copies_prefix", "C07")
_share("C13", "send_msg_delivers", "C12")
_share("C03", "regenerate_pushes_all", "C15")
_share("C03", "records_fold_step", "C09")
_share("C03", "records_reverse", "C09")
_share("C15", "load_in_memory_count", "C09")
PROPS["C10"]["mir"].append(ob("bloom_merge_sound", "ob_bloom", "bloom_merge_sound"))
# the blob-header acceptance predicate (exactly magic + version) is what init's classification of a damaged first block rests on
PROPS["C06"]["kani"].append([h for h in PROPS["C17"]["kani"] if h.name == "c17_blob_header_layout_and_validation"][0])
PROPS["C13"]["mir"].append(ob("observer_requests_typed", "ob_worker", "observer_requests_typed"))
PROPS["C12"]["mir"].append(ob("observer_requests_typed_c12", "ob_worker", "observer_requests_typed"))
PROPS["C13"]["mir"].append(ob("storage_background_requests", "ob_worker", "storage_background_requests"))
PROPS["C13"]["mir"].append(ob("storage_close_dumps", "ob_worker", "storage_close_dumps"))
PROPS["C12"]["mir"].append(ob("storage_close_dumps_c12", "ob_worker", "storage_close_dumps"))
PROPS["C01"]["mir"].append(ob("storage_read_glue", "ob_blobread", "storage_read_glue"))
PROPS["C02"]["mir"].append(ob("storage_read_glue_c02", "ob_blobread", "storage_read_glue"))
PROPS["C02"]["mir"].append(ob("delete_entry_glue", "ob_delete", "delete_entry_glue"))
PROPS["C15"]["mir"].append(ob("records_count_rows", "ob_misc", "records_count_rows", kwargs={"B": 2}, thorough_kwargs={"B": 3}))
PROPS["C15"]["mir"].append(ob("disk_used_sum", "ob_misc", "disk_used_sum", kwargs={"B": 2}))
PROPS["C07"]["mir"].append(ob("quarantine_moves_blob", "ob_misc", "quarantine_moves_blob"))
PROPS["C06"]["mir"].append(ob("quarantine_moves_blob_c06", "ob_misc", "quarantine_moves_blob"))
