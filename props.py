"""Per-property registry: which Kani harnesses (Engine K) and MIR obligations (Engine M) decide each property."""
from vlib.kani_engine import Harness as H

COMMON_K = ["E1: tokio runtime boundary of src/io/unix/sync.rs replaced by the environment model (kani_env.rs)",
            "E2: BTreeMap<K, Vec<RecordHeader>> replaced by a sorted-Vec map with the same observable API",
            "E4: log macros expand to nothing", "std::fmt::format -> String::new(); Backtrace::capture -> disabled"]
COMMON_M = ["std containers are theories: Vec/slice = bounded element list + symbolic length; BTreeMap = single-key model",
            "summaries listed per obligation in coverage.stubs_and_summaries are exact w.r.t. std documentation",
            "unwinding paths (panics inside callees) are not modelled; lock poisoning and blocking are outside",
            "closures passed to map_err/with_context/ok_or_else only build error values and are not executed"]


def ob(name, module, func, tier="quick", **kw):
    d = {"name": name, "module": module, "func": func, "tier": tier, "kwargs": kw.pop("kwargs", {})}
    d.update(kw)
    return d


PROPS = {}

PROPS["C01"] = {
    "level": "model_checking",
    "kani": [
        H("c01_latest_fold_ts", "fold of ReadResult<BlobRecordTimestamp>::latest over 4 per-blob results = first maximal timestamp",
          ["ReadResult<BlobRecordTimestamp>::latest", "ReadResult::timestamp"], "4 blobs, arbitrary u64 timestamps and kinds", covers=3, timeout=300),
        H("c01_latest_pair_ts", "two-operand rule of latest(): other wins only on strictly greater timestamp",
          ["ReadResult<BlobRecordTimestamp>::latest"], "all inputs", covers=1, timeout=120),
    ],
    "mir": [
        ob("push_step", "ob_index", "push_step", kwargs={"L": 5}, thorough_kwargs={"L": 7}),
        ob("get_latest_mem", "ob_index", "get_latest_mem", kwargs={"L": 6}, thorough_kwargs={"L": 12}),
    ],
    "assumptions": COMMON_K + COMMON_M + [
        "composition (written argument, DESIGN.md C01): I(v) is established by new/load/regeneration and preserved by push; "
        "the blob-local winner is the last element; the cross-blob fold keeps the first maximal element",
        "outside: glue of Storage::get_latest_entry / read_with_optional_meta, filter pruning (C10), loading bytes (C05)"],
}

PROPS["C02"] = {
    "level": "model_checking",
    "kani": [
        H("c02_is_deleted_bit", "is_deleted() is exactly bit 0 of flags", ["RecordHeader::is_deleted", "RecordHeader::timestamp"], "all u8 flags", covers=1, timeout=120),
        H("c02_record_deleted_is_marker", "Record::deleted builds a marker: DELETE flag, data size 0, key/timestamp kept",
          ["Record::deleted", "Record::create", "Header::mark_as_deleted", "Header::update_checksum"], "key length 2, empty meta", covers=1, timeout=600),
    ],
    "mir": [
        ob("get_all_marker", "ob_index", "get_all_marker", kwargs={"L": 6}, thorough_kwargs={"L": 10}),
        ob("get_all_mem", "ob_index", "get_all_mem", kwargs={"L": 6}, thorough_kwargs={"L": 10}),
    ],
    "assumptions": COMMON_K + COMMON_M + ["outside: delete fan-out count at Storage level, duplicate-write guard, HashMap equality of Meta"],
}
