"""Prose for MANIFEST.json (kept apart from the registry)."""
SOURCE_COMMITS = []  # no hook commits; /repo carries only "fix:" commits (see KNOWN_FINDINGS.txt)
TECH_DEFAULT = "bounded model checking of the real code: Kani/CBMC harnesses over kani::any() inputs + SMT (z3) symbolic execution of the crate's MIR; verdict = solver answer within stated bounds"
LEVEL_DEFAULT = ("Bounded: every harness/obligation is decided by a SAT/SMT solver for all values of its symbolic inputs within the "
                 "stated sizes (vector lengths, byte counts, unwinding), from an arbitrary invariant-satisfying pre-state (one inductive "
                 "step per kernel). Nothing is claimed outside the bounds; the composition from kernels to the API sentence is a written argument in DESIGN.md.")
NOTE_DEFAULT = ("Trusted base: Kani/CBMC, z3 (cross-checked with z3 4.8.12 and cvc5), rustc's MIR dump, the overlay environment model "
                "(kani_env.rs), the MIR summary catalogue (mir2smt/summaries.py, iters.py) and the representation invariants; see evidence assumptions.")
_B = "Bounded model checking, decided by SAT/SMT solvers over the real code (Kani harnesses on the compiled crate; symbolic execution of the MIR dump), one inductive step per kernel from an arbitrary invariant-satisfying pre-state; nothing is claimed outside the stated bounds. "
LEVEL_TEXT = {
    "C01": _B + "Decided: ordered insertion (per-key vector <= 5/7), latest lookup in memory (<= 6/12) and in an on-disk leaf (<= 4/6 records), cross-blob fold of latest (<= 2/3 closed blobs). Outside: which blobs are consulted (C10), byte loading (C05).",
    "C02": _B + "Decided: per-blob history cut (<= 6/10), cross-blob merge and cut (2x2, 3x1; 3x2 thorough), Blob::delete rule, delete fan-out over closed blobs (<= 3/5) and its sum, duplicate-write guard and acknowledgement. Outside: Meta equality inside contains_with.",
    "C03": _B + "Decided: index acceptance predicate incl. file length, fallback to regeneration, two-phase index write order, loading an index back (fold step, reversal, count), blob-id allocation at init (<= 2 files). Outside: answers across a real re-open, SHA-256, writer side of the version order.",
    "C04": _B + "Decided: index reload before a deletion, restore/close of the active blob (order, no suspension while the blob is in neither place), container pop/push scenarios (<= 4 children), disk->memory load. Outside: interleavings with background work, runtime flavours.",
    "C05": _B + "Decided: CRC kernels (bursts <= 32 bits over 4 bytes), record header layout, partial-serialisation equivalence (thorough), Entry::load audits over file ranges, scan step and all-or-nothing scan (<= 3/5 records). Outside: Meta maps, 80 KiB threshold, real files.",
    "C06": _B + "Decided at the places the code meets a crash state: blob of any size (scan tiles the file or fails, <= 2/4 records), index shorter than described, error classification, init with no readable blob, id allocation, recovery copy loop (<= 3). Outside: real SIGKILL timing, torn content of a full-length index tail, end-to-end init on a real directory.",
    "C07": _B + "Decided: every blob write is an all-or-error append inside a range reserved in the writing closure and the size counter never moves back; the only positional write is the index header; ids never reused at init. Outside: clean_file call sites, 'queries perform no writes' above File level.",
    "C09": _B + "Decided: layer partitioning writer vs describer (n <= 6/7), leaf packing windows (<= 3 keys, nonlinear), in-leaf search and leftmost walk (<= 4/6), continuation past the 4 KiB buffer, node layout and in-node search (Kani). Outside: multi-level descent end-to-end on real files.",
    "C10": _B + "Decided: hierarchy never hides a live child (<= 4/5 children, group sizes 2,3(,4)), bloom add/probe/file-probe bit agreement (<= 2/3 hashers), bit<->byte mapping, range filter, filter offsets, hasher keys and hash dataflow (stubbed multiply). Outside: bloom Save bytes, float sizing formulas.",
    "C11": _B + "Faults are arbitrary Err results of callee futures / file operations. Decided: failed dump keeps headers, write/index order, worker survives I/O errors, close keeps the blob on a failed sync, append discipline, acknowledged write implies stored. Outside: post-restart state end-to-end.",
    "C12": _B + "Decided at call-order level: header synced before use, blob synced before its index is dumped, index flag after body, close/explicit fsync leave nothing dirty, single-flight flag released on every exit, dirty-byte accounting (Kani). Outside: that a background sync is eventually scheduled (liveness).",
    "C13": _B + "Safety kernels only: process_msg / deferred processing never return Err (run() panics on Err), loop step stops only on channel close, postponed dump always re-armed. Outside: liveness (scheduling, task completion).",
    "C14": _B + "Structural: no suspension point between a blob write and its index insertion, reservation inside the non-cancellable closure, no suspension while a blob is in neither the active slot nor the closed list (restore, close). Outside: Storage-level futures in general, Blob::open_new (observed, not covered).",
    "C15": _B + "Decided: blobs_count over container histories (<= 4 children), records_count on push and on load, id allocation, index accepted only for its exact blob length. Outside: disk_used, corrupted count end-to-end.",
    "C16": _B + "Decided: reader step validates header and data CRC and advances exactly, skip-once logic, validate_blob all-or-error (<= 3/5), recovery copies exactly the valid prefix in order (<= 3), writer re-addresses records, migration of every record. Outside: index tools, acceptance of real storage output end-to-end.",
    "C17": _B + "Layout differentials: real encoders emit the pinned byte layouts written out in the harnesses and decoders invert them (record header k=1,4; blob header; index header; tree/node meta), validation rejects mismatches, bloom hasher keys and hash dataflow pinned. Outside: replaying a corpus of old files, SHA-256, bloom Save.",
}
LEVEL_NOTE = {}
TECHNIQUE = {}
NOT_APPLICABLE = {
    "C08": "concurrency: Kani executes one thread and cannot compile tokio's task code to a checkable program; Engine M summarises locks away, which is exactly what this property is about (DESIGN.md §3 C08)",
}
for _p in []:
    NOT_APPLICABLE.setdefault(_p, "check under construction in this round (see DESIGN.md §3); not claimed until its obligations run green")
NOTES = ("All checks rebuild from /repo's working tree: Engine K copies it and runs cargo-kani on the copy; Engine M dumps MIR of a copy with the "
         "nightly toolchain. exit 0 = all decided and held; exit 1 + VIOLATION = a solver counterexample; exit 2 = inconclusive (timeout, construct "
         "outside the summary catalogue, solver disagreement, vacuity witness missing).")
