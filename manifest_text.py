"""Prose for MANIFEST.json (kept apart from the registry)."""
SOURCE_COMMITS = []  # no hook commits; /repo carries only "fix:" commits (see KNOWN_FINDINGS.txt)
TECH_DEFAULT = "bounded model checking of the real code: Kani/CBMC harnesses over kani::any() inputs + SMT (z3) symbolic execution of the crate's MIR; verdict = solver answer within stated bounds"
LEVEL_DEFAULT = ("Bounded: every harness/obligation is decided by a SAT/SMT solver for all values of its symbolic inputs within the "
                 "stated sizes (vector lengths, byte counts, unwinding), from an arbitrary invariant-satisfying pre-state (one inductive "
                 "step per kernel). Nothing is claimed outside the bounds; the composition from kernels to the API sentence is a written argument in DESIGN.md.")
NOTE_DEFAULT = ("Trusted base: Kani/CBMC, z3 (cross-checked with z3 4.8.12 and cvc5), rustc's MIR dump, the overlay environment model "
                "(kani_env.rs), the MIR summary catalogue (mir2smt/summaries.py, iters.py) and the representation invariants; see evidence assumptions.")
LEVEL_TEXT = {}
LEVEL_NOTE = {}
TECHNIQUE = {}
NOT_APPLICABLE = {
    "C08": "concurrency: Kani executes one thread and cannot compile tokio's task code to a checkable program; Engine M summarises locks away, which is exactly what this property is about (DESIGN.md §3 C08)",
}
for _p in []:
    NOT_APPLICABLE.setdefault(_p, "check under construction in this round (see DESIGN.md §3); not claimed until its obligations run green")
NOTES = ("All checks rebuild from /repo's working tree: Engine K copies it and runs cargo-kani on the copy; Engine M dumps MIR of a copy with the "
         "nightly toolchain. exit 0 = all decided and held; exit 1 + VIOLATION = a solver counterexample; exit 2 = inconclusive (timeout, construct "
         "outside the summary catalogue, solver disagreement, vacuity witness missing).")
