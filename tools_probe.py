#!/usr/bin/env python3
"""Dev helper: run named harnesses with a cap; prints a table. usage: tools_probe.py <timeout_s> name..."""
import sys, os
sys.path.insert(0, os.path.dirname(os.path.abspath(__file__)))
from vlib import common, kani_engine as K
t = int(sys.argv[1]); names = sys.argv[2:]
scratch, src, done = K.prepare_scratch("probe")
full = K.list_harness_fullnames(src)
hs = []
for n in names:
    h = K.Harness(n, "", [], "", timeout=t); h.fullname = full[n]; hs.append(h)
res, out, wall, cf = K.run_harnesses(scratch, src, hs)
print("wall %.0fs compile_failed=%s" % (wall, cf))
if cf:
    import re
    print("\n".join(l for l in out.splitlines() if l.startswith("error") or "-->" in l)[:4000])
for n, r in res.items():
    print("%-40s %-8s checks=%d covers=%d/%d t=%.1fs %s" % (n, r.status, r.checks, r.covers_sat, r.covers_total, r.time_s, "; ".join(r.failed_checks)[:300]))
keep = os.environ.get("KEEP")
import shutil
if not keep: shutil.rmtree(scratch, ignore_errors=True)
else: print("scratch:", scratch)
