//! C16: scenarios in which the UNMODIFIED tools already violate the property.
//! Every test below asserts what the property demands and FAILS on the clean checkout.
//!
//! Placement: copy to `tests/c16_preexisting.rs` (uses `tests/common.rs`) and run
//!     cargo test --offline --test c16_preexisting -- --test-threads=1
//! Public API only.

use bytes::Bytes;
use pearl::{BlobRecordTimestamp, Meta, ReadResult};
use std::{
    fs,
    path::{Path, PathBuf},
};

mod common;
use common::KeyTest;

const RECORDS: u32 = 8;
const DAMAGED: u32 = 3;

fn rt() -> tokio::runtime::Runtime {
    tokio::runtime::Builder::new_multi_thread()
        .worker_threads(2)
        .enable_all()
        .build()
        .unwrap()
}

fn payload(i: u32) -> Vec<u8> {
    (0..(200 + i * 3)).map(|j| (i * 31 + j * 7 + 1) as u8).collect()
}

/// Let the storage produce a closed blob with `RECORDS` records; returns (blob, index) paths
fn produce(dir: &Path) -> (PathBuf, PathBuf) {
    let _ = fs::remove_dir_all(dir);
    rt().block_on(async {
        let storage = common::create_test_storage(dir, 1_000_000).await.unwrap();
        for i in 0..RECORDS {
            let data = Bytes::from(payload(i));
            let ts = BlobRecordTimestamp::new(100 + i as u64);
            if i % 2 == 1 {
                let mut meta = Meta::new();
                meta.insert("version".to_owned(), format!("v{}", i).into_bytes());
                storage.write_with(KeyTest::new(i), data, ts, meta).await.unwrap();
            } else {
                storage.write(KeyTest::new(i), data, ts).await.unwrap();
            }
        }
        storage.close().await.unwrap();
    });
    (dir.join("test.0.blob"), dir.join("test.0.index"))
}

/// Open a storage on `dir`, read keys 0..RECORDS and describe what was served for each
fn read_all(dir: &Path) -> Vec<String> {
    rt().block_on(async {
        let storage = common::create_test_storage(dir, 1_000_000)
            .await
            .expect("storage opens the recovered blob");
        let mut res = vec![];
        for i in 0..RECORDS {
            res.push(match storage.read(KeyTest::new(i)).await {
                Ok(ReadResult::Found(d)) if d.as_ref() == payload(i).as_slice() => "original bytes".to_owned(),
                Ok(ReadResult::Found(d)) => format!("WRONG bytes ({} of them)", d.len()),
                Ok(_) => "not found".to_owned(),
                Err(e) => format!("error: {:#}", e),
            });
        }
        storage.close().await.unwrap();
        res
    })
}

fn flip(path: &Path, pos: u64) {
    let mut bytes = fs::read(path).unwrap();
    bytes[pos as usize] ^= 0x01;
    fs::write(path, bytes).unwrap();
}

/// returns Err(description) when the property is violated for the blob in `outdir`
fn check_recovered(outdir: &Path, dropped: Option<u32>) -> Result<(), String> {
    let out = outdir.join("test.0.blob");
    pearl::tools::validate_blob(&out).map_err(|e| format!("recovered blob does not validate: {:#}", e))?;
    let got = read_all(outdir);
    for i in 0..RECORDS {
        let expected = if Some(i) == dropped { "not found" } else { "original bytes" };
        if got[i as usize] != expected {
            return Err(format!("record {}: expected '{}', storage says '{}'", i, expected, got[i as usize]));
        }
    }
    Ok(())
}

struct Produced {
    base: PathBuf,
    blob: PathBuf,
    /// (record start, meta offset, data offset) of record DAMAGED
    offsets: (u64, u64, u64),
}

fn setup(name: &str) -> Produced {
    let base = std::env::temp_dir().join(format!("c16_pre_{}_{}", name, std::process::id()));
    let (blob, index) = produce(&base.join("src"));
    pearl::tools::validate_blob(&blob).expect("storage-produced blob validates");
    let headers = pearl::tools::read_index_sync(&index).expect("read index");
    let h = &headers[&DAMAGED.to_be_bytes().to_vec()][0];
    Produced { offsets: (h.blob_offset(), h.meta_offset(), h.data_offset()), base, blob }
}

fn damaged_copy(p: &Produced, pos: u64) -> PathBuf {
    fs::create_dir_all(p.base.join("out")).unwrap();
    let damaged = p.base.join("damaged.blob");
    fs::copy(&p.blob, &damaged).unwrap();
    flip(&damaged, pos);
    damaged
}

/// P1: blob header has no checksum and validate_blob only looks at its magic: a flipped `version` byte is
/// accepted, recovery copies it and the storage refuses the output (version 1 -> 0).
#[test]
fn p1_flipped_blob_header_version_is_rejected_by_validate_blob() {
    let p = setup("p1");
    let damaged = damaged_copy(&p, 8); // blob header: 0 magic u64 | 8 version u32 | 12 flags u64
    assert!(pearl::tools::validate_blob(&damaged).is_err(), "corrupted blob header accepted");
}

/// P1b: same for the `flags` field (nothing ever looks at it)
#[test]
fn p1b_flipped_blob_header_flags_is_rejected_by_validate_blob() {
    let p = setup("p1b");
    let damaged = damaged_copy(&p, 12);
    assert!(pearl::tools::validate_blob(&damaged).is_err(), "corrupted blob header accepted");
}

/// P2: a flipped byte inside `data_size` (or `meta_size`, or the key length) of one record header: the skip
/// uses the sizes of the damaged header itself, lands in garbage, and every intact record after it is lost
#[test]
fn p2_records_after_a_header_with_damaged_size_field_survive_recovery_with_skip() {
    let p = setup("p2");
    let damaged = damaged_copy(&p, p.offsets.0 + 28); // data_size, lowest byte
    pearl::tools::recovery_blob(&damaged, &p.base.join("out").join("test.0.blob"), 1, true).expect("recovery");
    check_recovered(&p.base.join("out"), Some(DAMAGED)).unwrap();
}

/// P3: a flipped byte in meta that makes it undeserializable (here the length of the first key string becomes
/// huge): the error is a plain bincode error, not a ToolsError, so `read_record(skip_wrong = true)` gives up
/// and every intact record after it is lost
#[test]
fn p3_records_after_a_record_with_undeserializable_meta_survive_recovery_with_skip() {
    let p = setup("p3");
    // meta layout: 0 entry count u64 | 8 key string length u64 | 16 "version" | 23 value length u64 | 31 value
    let damaged = damaged_copy(&p, p.offsets.1 + 8 + 6); // key string length: 7 -> 7 + 2^48
    pearl::tools::recovery_blob(&damaged, &p.base.join("out").join("test.0.blob"), 1, true).expect("recovery");
    check_recovered(&p.base.join("out"), Some(DAMAGED)).unwrap();
}

/// P4: meta is covered by no checksum: a flipped byte inside a meta value is accepted by validate_blob
/// (and copied by recovery as if it were intact)
#[test]
fn p4_flipped_meta_value_byte_is_rejected_by_validate_blob() {
    let p = setup("p4");
    let damaged = damaged_copy(&p, p.offsets.1 + 31); // first byte of the value "v3"
    assert!(pearl::tools::validate_blob(&damaged).is_err(), "blob with corrupted meta accepted");
}

/// P5: entry count of meta 1 -> 0: bincode::deserialize accepts trailing bytes, so the reader sees an empty
/// meta; the writer re-serializes it as 8 bytes while header.meta_size still says 33, so the output is
/// malformed (validate_every = 0) or the recovery fails as a whole (validate_every != 0)
#[test]
fn p5_meta_entry_count_flip_gives_a_valid_recovered_blob() {
    let p = setup("p5");
    let damaged = damaged_copy(&p, p.offsets.1); // entry count, lowest byte: 1 -> 0
    let out = p.base.join("out").join("test.0.blob");
    pearl::tools::recovery_blob(&damaged, &out, 0, true).expect("recovery");
    // whether record 3 is kept (its data is intact) or dropped, the output has to validate and serve the rest
    let without_read_back = pearl::tools::validate_blob(&out).map_err(|e| format!("{:#}", e));
    let with_read_back = pearl::tools::recovery_blob(&damaged, &p.base.join("out2.blob"), 1, true)
        .map_err(|e| format!("{:#}", e));
    println!("validate_every = 0: validate_blob(output) = {:?}", without_read_back);
    println!("validate_every = 1: recovery_blob = {:?}", with_read_back);
    assert!(without_read_back.is_ok(), "recovered blob does not validate");
    assert!(with_read_back.is_ok(), "recovery with read-back fails");
}
