// C16 / PART A: recovery_blob with skip_wrong_record=true on UNMODIFIED code.
//
// Build a blob with several records, flip one byte in the data of a record in
// the middle, recover with skipping, open the recovered blob with the storage
// (no index file) and read every surviving record, comparing bytes.

use bytes::Bytes;
use pearl::{tools, BlobRecordTimestamp, ReadResult};
use std::fs;
use std::io::{Read, Seek, SeekFrom, Write};

mod common;
use common::KeyTest;

const BLOB_HEADER_SIZE: u64 = 8 + 4 + 8; // magic u64, version u32, flags u64
const RECORD_HEADER_SIZE: u64 = 8 + (8 + 4) + 8 + 8 + 1 + 8 + 8 + 4 + 4; // key len = 4
const EMPTY_META_SIZE: u64 = 8; // bincode HashMap length
const DATA_SIZE: u64 = 100;
const RECORD_SIZE: u64 = RECORD_HEADER_SIZE + EMPTY_META_SIZE + DATA_SIZE;
const N: u32 = 5;
const DAMAGED: u32 = 2;

fn data_for(i: u32) -> Vec<u8> {
    (0..DATA_SIZE).map(|j| (i as u8).wrapping_mul(37).wrapping_add(j as u8)).collect()
}

fn flip_byte(path: &std::path::Path, offset: u64) {
    let mut f = fs::OpenOptions::new().read(true).write(true).open(path).unwrap();
    let mut b = [0u8; 1];
    f.seek(SeekFrom::Start(offset)).unwrap();
    f.read_exact(&mut b).unwrap();
    b[0] ^= 0xFF;
    f.seek(SeekFrom::Start(offset)).unwrap();
    f.write_all(&b).unwrap();
    f.sync_all().unwrap();
}

#[tokio::test]
async fn recovered_blob_with_skipped_record_data_damage_is_served_by_storage() {
    // flipped byte in the DATA of the record (header CRC ok, data CRC wrong)
    run("c16_pre_data", RECORD_HEADER_SIZE + EMPTY_META_SIZE + 10).await
}

#[tokio::test]
async fn recovered_blob_with_skipped_record_header_damage_is_served_by_storage() {
    // flipped byte in the timestamp field of the record HEADER (header CRC wrong,
    // sizes intact so the reader can skip meta+data)
    run("c16_pre_header", 8 + (8 + 4) + 8 + 8 + 1 + 8 + 2).await
}

async fn run(name: &str, offset_in_record: u64) {
    let src_dir = common::init(&format!("{}_src", name));
    let dst_dir = common::init(&format!("{}_dst", name));
    let _ = fs::remove_dir_all(&src_dir);
    let _ = fs::remove_dir_all(&dst_dir);

    // 1. storage produces a blob with N records
    let storage = common::create_test_storage(&src_dir, 1_000_000).await.unwrap();
    for i in 0..N {
        storage
            .write(KeyTest::new(i), Bytes::from(data_for(i)), BlobRecordTimestamp::now())
            .await
            .unwrap();
    }
    storage.close().await.unwrap();
    let src_blob = src_dir.join("test.0.blob");
    assert_eq!(
        fs::metadata(&src_blob).unwrap().len(),
        BLOB_HEADER_SIZE + N as u64 * RECORD_SIZE,
        "layout assumption"
    );
    tools::validate_blob(&src_blob).expect("undamaged blob must validate");

    // 2. damage one byte of record DAMAGED
    let off = BLOB_HEADER_SIZE + DAMAGED as u64 * RECORD_SIZE + offset_in_record;
    flip_byte(&src_blob, off);
    assert!(tools::validate_blob(&src_blob).is_err(), "damaged blob must be rejected");

    // 3. recover with skipping
    fs::create_dir_all(&dst_dir).unwrap();
    let dst_blob = dst_dir.join("test.0.blob");
    tools::recovery_blob(&src_blob, &dst_blob, 1, true).expect("recovery must succeed");
    tools::validate_blob(&dst_blob).expect("recovered blob must validate");
    assert_eq!(
        fs::metadata(&dst_blob).unwrap().len(),
        BLOB_HEADER_SIZE + (N as u64 - 1) * RECORD_SIZE,
        "recovered blob must contain all records but the damaged one"
    );

    // 4. open recovered blob with the storage (no index file) and read survivors
    assert!(!dst_dir.join("test.0.index").exists());
    let storage = common::create_test_storage(&dst_dir, 1_000_000).await.unwrap();
    assert_eq!(storage.corrupted_blobs_count(), 0, "recovered blob is reported corrupted");
    let mut failures = vec![];
    for i in (0..N).filter(|i| *i != DAMAGED) {
        match storage.read(KeyTest::new(i)).await {
            Ok(ReadResult::Found(d)) if d == Bytes::from(data_for(i)) => {}
            Ok(ReadResult::Found(d)) => failures.push(format!("key {}: WRONG BYTES (len {})", i, d.len())),
            Ok(other) => failures.push(format!("key {}: {:?}", i, other)),
            Err(e) => failures.push(format!("key {}: read error: {:#}", i, e)),
        }
    }
    storage.close().await.unwrap();
    let _ = fs::remove_dir_all(&src_dir);
    let _ = fs::remove_dir_all(&dst_dir);
    assert!(failures.is_empty(), "surviving records not served: {:#?}", failures);
}
