use bytes::Bytes;
use pearl::{tools, BlobRecordTimestamp, Meta};
use std::fs;
use std::io::{Read, Seek, SeekFrom, Write};
mod common;
use common::KeyTest;

#[tokio::test]
async fn meta_flip() {
    let dir = common::init("c16_meta_flip");
    let _ = fs::remove_dir_all(&dir);
    let storage = common::create_test_storage(&dir, 1_000_000).await.unwrap();
    let mut meta = Meta::new();
    meta.insert("version".to_owned(), "abcdef");
    storage.write_with(KeyTest::new(1), Bytes::from(vec![7u8; 50]), BlobRecordTimestamp::now(), meta).await.unwrap();
    storage.close().await.unwrap();
    let blob = dir.join("test.0.blob");
    tools::validate_blob(&blob).unwrap();
    // meta = 8 (len) + 8 + 7 ("version") + 8 + 6 ("abcdef"); flip last byte of value
    let off = 20 + 61 + 8 + 8 + 7 + 8 + 5;
    let mut f = fs::OpenOptions::new().read(true).write(true).open(&blob).unwrap();
    let mut b = [0u8; 1];
    f.seek(SeekFrom::Start(off)).unwrap();
    f.read_exact(&mut b).unwrap();
    assert_eq!(b[0], b'f');
    b[0] ^= 0xFF;
    f.seek(SeekFrom::Start(off)).unwrap();
    f.write_all(&b).unwrap();
    drop(f);
    let r = tools::validate_blob(&blob);
    println!("validate_blob after meta flip: {:?}", r);
    assert!(r.is_err(), "blob with damaged meta byte accepted");
}
