//! C14: scenarios in which the UNMODIFIED code violates the property.
//! Copy to `tests/c14_preexisting.rs`, run `cargo test --offline --test c14_preexisting`: both tests FAIL at HEAD.

use std::{future::Future, task::Poll, time::Duration};

use bytes::Bytes;
use pearl::{BlobRecordTimestamp, Storage};

mod common;

use common::KeyTest;

const SETTLE: Duration = Duration::from_millis(40);

async fn poll_k_then_drop<F: Future>(fut: F, k: usize) -> Option<F::Output> {
    let mut fut = Box::pin(fut);
    for _ in 0..k {
        if let Poll::Ready(v) = futures::poll!(fut.as_mut()) {
            return Some(v);
        }
        tokio::time::sleep(SETTLE).await;
    }
    drop(fut);
    tokio::time::sleep(SETTLE).await;
    None
}

async fn write(storage: &Storage<KeyTest>, key: u32) {
    storage
        .write(KeyTest::new(key), Bytes::from(vec![key as u8; 1000]), BlobRecordTimestamp::now())
        .await
        .unwrap();
}

/// `Inner::restore_active_blob` pops the last closed blob out of `safe.blobs`, then awaits
/// `blob.load_index()` (file reads when the index was dumped) and only then stores it as the active blob.
/// Dropping the future during these reads drops the blob: all its records are unreadable until a restart.
#[tokio::test(flavor = "current_thread")]
async fn preexisting_cancelled_restore_active_blob_loses_the_blob() {
    let path = common::init("c14_pre_restore");
    let _ = std::fs::remove_dir_all(&path);
    let storage = common::create_test_storage(&path, 10_000_000).await.unwrap();
    for key in 1..=3 {
        write(&storage, key).await;
    }
    storage.try_close_active_blob().await.unwrap();
    // the observer dumps the index of the closed blob in background
    for _ in 0..100 {
        if path.join("test.0.index").exists() {
            break;
        }
        tokio::time::sleep(SETTLE).await;
    }
    tokio::time::sleep(SETTLE).await;
    assert!(path.join("test.0.index").exists());
    assert_eq!(storage.records_count().await, 3);

    let res = poll_k_then_drop(storage.try_restore_active_blob(), 1).await;
    assert!(res.is_none(), "expected the restore to be pending on the index file read");

    let blobs = storage.blobs_count().await;
    let records = storage.records_count().await;
    let found = storage.read(KeyTest::new(1)).await.unwrap().is_found();
    storage.close().await.unwrap();
    std::fs::remove_dir_all(&path).unwrap();
    assert_eq!((blobs, records, found), (1, 3, true), "(blobs count, records count, key 1 found)");
}

/// `Blob::open_new` creates the file and then appends the header in a second awaited operation.
/// Dropping `try_create_active_blob` (also: `init`, a `write`/`delete` that has to create the active blob)
/// in between leaves a 0-byte `.blob` file, which does not parse on the next start: it is moved to the
/// directory of corrupted blobs and counted as corrupted.
#[tokio::test(flavor = "current_thread")]
async fn preexisting_cancelled_create_active_blob_leaves_unparsable_file() {
    let path = common::init("c14_pre_create");
    let _ = std::fs::remove_dir_all(&path);
    let storage = common::create_test_storage(&path, 10_000_000).await.unwrap();
    write(&storage, 1).await;
    storage.try_close_active_blob().await.unwrap();

    let res = poll_k_then_drop(storage.try_create_active_blob(), 1).await;
    assert!(res.is_none(), "expected the creation to be pending on the file open");
    let len = std::fs::metadata(path.join("test.1.blob")).map(|m| m.len());
    storage.close().await.unwrap();

    let storage = common::create_test_storage(&path, 10_000_000).await.unwrap();
    let corrupted = storage.corrupted_blobs_count();
    storage.close().await.unwrap();
    std::fs::remove_dir_all(&path).unwrap();
    assert_eq!(corrupted, 0, "blob file left by the cancelled operation (len {:?}) does not parse", len);
}
