// Pre-existing C15 violations on UNMODIFIED pearl. Place at tests/c15_preexisting.rs and run
//   cargo test --offline --test c15_preexisting -- --test-threads=1
// Every test in this file FAILS on the unmodified code.

use bytes::Bytes;
use pearl::{BlobRecordTimestamp, Storage};
use std::path::Path;
use std::time::Duration;
use tokio::time::sleep;

mod common;
use common::KeyTest;

async fn write(storage: &Storage<KeyTest>, key: u32, ts: u64) {
    let data: Bytes = vec![key as u8; 64].into();
    storage
        .write(KeyTest::new(key), data, BlobRecordTimestamp::new(ts))
        .await
        .unwrap();
}

fn storage_files_size(path: &Path) -> u64 {
    std::fs::read_dir(path)
        .unwrap()
        .map(|e| e.unwrap())
        .filter(|e| {
            let name = e.file_name().to_string_lossy().to_string();
            name.ends_with(".blob") || name.ends_with(".index")
        })
        .map(|e| e.metadata().unwrap().len())
        .sum()
}

/// close + restore of the active blob: one blob exists, `blobs_count` says 2.
#[tokio::test]
async fn preexisting_blobs_count_after_close_and_restore() {
    let path = common::init("c15_pre_blobs_count");
    let storage = common::default_test_storage_in(&path).await.unwrap();
    write(&storage, 1, 1).await;
    assert_eq!(storage.blobs_count().await, 1);
    storage.try_close_active_blob().await.unwrap();
    assert_eq!(storage.blobs_count().await, 1);
    storage.try_restore_active_blob().await.unwrap();
    let blob_files = std::fs::read_dir(&path)
        .unwrap()
        .filter(|e| {
            e.as_ref()
                .unwrap()
                .file_name()
                .to_string_lossy()
                .ends_with(".blob")
        })
        .count();
    assert_eq!(blob_files, 1);
    assert_eq!(storage.next_blob_id(), 1);
    let count = storage.blobs_count().await;
    common::clean(storage, path).await;
    assert_eq!(count, 1, "blobs_count after close + restore");
}

/// Same root cause: the active blob is labelled with `children.len()` in
/// `records_count_detailed`, so after close + restore blob 0 is reported as blob 1.
#[tokio::test]
async fn preexisting_records_count_detailed_label_after_restore() {
    let path = common::init("c15_pre_detailed_label");
    let storage = common::default_test_storage_in(&path).await.unwrap();
    write(&storage, 1, 1).await;
    storage.try_close_active_blob().await.unwrap();
    storage.try_restore_active_blob().await.unwrap();
    let detailed = storage.records_count_detailed().await;
    common::clean(storage, path).await;
    assert_eq!(detailed, vec![(0, 1)]);
}

/// After a restart the active blob's index is loaded into memory, its `.index` file stays
/// on disk, and `disk_used` stops counting it.
#[tokio::test]
async fn preexisting_disk_used_after_restart() {
    let path = common::init("c15_pre_disk_used");
    let storage = common::default_test_storage_in(&path).await.unwrap();
    for i in 0..5 {
        write(&storage, i, 1).await;
    }
    storage.close().await.unwrap();
    let storage = common::default_test_storage_in(&path).await.unwrap();
    sleep(Duration::from_millis(100)).await;
    let used = storage.disk_used().await;
    let on_disk = storage_files_size(&path);
    common::clean(storage, path).await;
    assert_eq!(used, on_disk, "disk_used vs directory listing after restart");
}

/// close -> index dumped -> restore: the restored active blob keeps its index on disk, so the
/// next `write` appends the record to the blob file and then fails in `index.push`
/// ("Index is closed, push is unavalaible"). The record is physically in the blob but is not
/// counted; after a restart the stale index is detected, regenerated, and the count jumps.
#[tokio::test]
async fn preexisting_write_after_restore_of_dumped_blob() {
    let path = common::init("c15_pre_restore_dumped");
    let storage = common::default_test_storage_in(&path).await.unwrap();
    write(&storage, 1, 1).await;
    storage.try_close_active_blob().await.unwrap();
    for _ in 0..200 {
        if path.join("test.0.index").exists() {
            break;
        }
        sleep(Duration::from_millis(25)).await;
    }
    sleep(Duration::from_millis(200)).await;
    storage.try_restore_active_blob().await.unwrap();
    let data: Bytes = vec![2u8; 64].into();
    let res = storage
        .write(KeyTest::new(2), data, BlobRecordTimestamp::new(1))
        .await;
    let before = storage.records_count().await;
    storage.close().await.unwrap();
    let storage = common::default_test_storage_in(&path).await.unwrap();
    let after = storage.records_count().await;
    common::clean(storage, path).await;
    assert_eq!(
        before, after,
        "records_count before vs after restart (write result was {:?})",
        res.as_ref().map_err(|e| format!("{:#}", e))
    );
    assert!(res.is_ok());
}
