// C12: scenarios in which the UNMODIFIED code violates the property (see PREEXISTING.md).
//
// Integration tests, public API only. Copy to tests/c12_preexisting.rs and run
//     cargo test --offline --test c12_preexisting -- --test-threads=1
// (the two tests share the process-wide gates of the tap, run them one at a time).
// Both tests FAIL on the unmodified code.
//
// Observation: the test binary defines `fsync`, `fdatasync`, `pwrite` and `pwrite64` (see the m1/m2 demos).
// In addition the wrappers have "gates": a sync (resp. a write) on a chosen file can be held until the
// test releases it, which is the way to get a particular schedule deterministically.

use bytes::Bytes;
use pearl::{ArrayKey, BlobRecordTimestamp, Builder, Storage};
use std::path::PathBuf;
use std::time::Duration;

#[allow(dead_code)]
mod tap {
    use std::collections::HashMap;
    use std::sync::atomic::{AtomicBool, Ordering};
    use std::sync::Mutex;

    #[derive(Debug, Clone)]
    pub enum Ev {
        Write { path: String, off: u64, len: u64 },
        SyncStart { path: String, covers: u64 },
        SyncEnd { path: String, covers: u64, ok: bool },
    }

    #[derive(Default)]
    pub struct State {
        pub events: Vec<Ev>,
        pub written_end: HashMap<String, u64>,
        pub synced_end: HashMap<String, u64>,
    }

    pub static STATE: Mutex<Option<State>> = Mutex::new(None);
    // gate: block fsync on paths ending with this suffix until released
    pub static GATE_SUFFIX: Mutex<Option<String>> = Mutex::new(None);
    pub static GATE_ENTERED: AtomicBool = AtomicBool::new(false);
    pub static GATE_RELEASE: AtomicBool = AtomicBool::new(false);
    // gate: block pwrite on paths ending with this suffix (before the real write) until released
    pub static PW_GATE_SUFFIX: Mutex<Option<String>> = Mutex::new(None);
    pub static PW_GATE_ENTERED: AtomicBool = AtomicBool::new(false);
    pub static PW_GATE_RELEASE: AtomicBool = AtomicBool::new(false);

    fn path_of(fd: libc::c_int) -> Option<String> {
        let link = format!("/proc/self/fd/{}", fd);
        std::fs::read_link(link)
            .ok()
            .map(|p| p.to_string_lossy().into_owned())
    }

    fn with<R>(f: impl FnOnce(&mut State) -> R) -> R {
        let mut g = STATE.lock().unwrap_or_else(|e| e.into_inner());
        f(g.get_or_insert_with(State::default))
    }

    unsafe fn do_sync(fd: libc::c_int, nr: libc::c_long) -> libc::c_int {
        let path = path_of(fd).unwrap_or_default();
        let covers = with(|s| {
            let covers = s.written_end.get(&path).copied().unwrap_or(0);
            s.events.push(Ev::SyncStart { path: path.clone(), covers });
            covers
        });
        let gated = GATE_SUFFIX
            .lock()
            .unwrap()
            .as_ref()
            .map_or(false, |sfx| path.ends_with(sfx.as_str()));
        if gated {
            GATE_ENTERED.store(true, Ordering::SeqCst);
            while !GATE_RELEASE.load(Ordering::SeqCst) {
                std::thread::sleep(std::time::Duration::from_millis(5));
            }
        }
        let r = libc::syscall(nr, fd) as libc::c_int;
        with(|s| {
            if r == 0 {
                let e = s.synced_end.entry(path.clone()).or_insert(0);
                *e = (*e).max(covers);
            }
            s.events.push(Ev::SyncEnd { path, covers, ok: r == 0 });
        });
        r
    }

    #[no_mangle]
    pub unsafe extern "C" fn fsync(fd: libc::c_int) -> libc::c_int {
        do_sync(fd, libc::SYS_fsync)
    }

    #[no_mangle]
    pub unsafe extern "C" fn fdatasync(fd: libc::c_int) -> libc::c_int {
        do_sync(fd, libc::SYS_fdatasync)
    }

    unsafe fn do_pwrite(
        fd: libc::c_int,
        buf: *const libc::c_void,
        count: libc::size_t,
        offset: i64,
    ) -> libc::ssize_t {
        let gated = PW_GATE_SUFFIX.lock().unwrap().as_ref().map_or(false, |sfx| {
            path_of(fd).map_or(false, |p| p.ends_with(sfx.as_str()))
        });
        if gated {
            PW_GATE_ENTERED.store(true, Ordering::SeqCst);
            while !PW_GATE_RELEASE.load(Ordering::SeqCst) {
                std::thread::sleep(std::time::Duration::from_millis(5));
            }
        }
        let r = libc::syscall(libc::SYS_pwrite64, fd, buf, count, offset) as libc::ssize_t;
        if r > 0 {
            if let Some(path) = path_of(fd) {
                with(|s| {
                    let end = offset as u64 + r as u64;
                    let e = s.written_end.entry(path.clone()).or_insert(0);
                    *e = (*e).max(end);
                    s.events.push(Ev::Write { path, off: offset as u64, len: r as u64 });
                });
            }
        }
        r
    }

    #[no_mangle]
    pub unsafe extern "C" fn pwrite64(
        fd: libc::c_int,
        buf: *const libc::c_void,
        count: libc::size_t,
        offset: i64,
    ) -> libc::ssize_t {
        do_pwrite(fd, buf, count, offset)
    }

    #[no_mangle]
    pub unsafe extern "C" fn pwrite(
        fd: libc::c_int,
        buf: *const libc::c_void,
        count: libc::size_t,
        offset: i64,
    ) -> libc::ssize_t {
        do_pwrite(fd, buf, count, offset)
    }

    pub fn written(path: &str) -> u64 {
        with(|s| s.written_end.get(path).copied().unwrap_or(0))
    }
    pub fn synced(path: &str) -> u64 {
        with(|s| s.synced_end.get(path).copied().unwrap_or(0))
    }
    pub fn unsynced(path: &str) -> u64 {
        written(path) - synced(path).min(written(path))
    }
    pub fn events_for(path: &str) -> Vec<Ev> {
        with(|s| {
            s.events
                .iter()
                .filter(|e| match e {
                    Ev::Write { path: p, .. } | Ev::SyncStart { path: p, .. } | Ev::SyncEnd { path: p, .. } => p == path,
                })
                .cloned()
                .collect()
        })
    }
}

type K = ArrayKey<8>;

fn work_dir(name: &str) -> PathBuf {
    let p = std::env::temp_dir().join(format!(
        "pearl_c12/{}_{}",
        name,
        std::time::UNIX_EPOCH.elapsed().unwrap().as_nanos()
    ));
    std::fs::create_dir_all(&p).unwrap();
    p.canonicalize().unwrap()
}

async fn storage(dir: &PathBuf, max_blob_size: u64, max_dirty: Option<u64>) -> Storage<K> {
    let mut b = Builder::new()
        .work_dir(dir)
        .blob_file_name_prefix("test")
        .max_blob_size(max_blob_size)
        .max_data_in_blob(100_000)
        .allow_duplicates();
    if let Some(d) = max_dirty {
        b = b.set_max_dirty_bytes_before_sync(d);
    }
    let mut s: Storage<K> = b.build().unwrap();
    s.init().await.unwrap();
    s
}

fn key(i: u64) -> K {
    K::from(i.to_be_bytes())
}

fn blob_path(dir: &PathBuf, id: usize) -> String {
    dir.join(format!("test.{}.blob", id)).to_string_lossy().into_owned()
}

const DIRTY_LIMIT: u64 = 2000;
use std::sync::atomic::Ordering;

async fn wait_until(timeout: Duration, mut cond: impl FnMut() -> bool) -> bool {
    let deadline = std::time::Instant::now() + timeout;
    while std::time::Instant::now() < deadline {
        if cond() {
            return true;
        }
        tokio::time::sleep(Duration::from_millis(20)).await;
    }
    cond()
}

/// P1: records acknowledged while the background sync is in flight are never re-checked against the limit.
#[tokio::test(flavor = "multi_thread", worker_threads = 4)]
async fn p1_bytes_written_during_a_background_sync_stay_unsynced_over_the_limit() {
    let dir = work_dir("p1");
    let s = storage(&dir, 1_000_000, Some(DIRTY_LIMIT)).await;
    let p0 = blob_path(&dir, 0);
    // hold the next sync of blob 0 (the header sync is already done)
    *tap::GATE_SUFFIX.lock().unwrap() = Some("test.0.blob".to_string());

    s.write(key(1), Bytes::from(vec![7u8; 3000]), BlobRecordTimestamp::now()).await.unwrap();
    assert!(wait_until(Duration::from_secs(5), || tap::GATE_ENTERED.load(Ordering::SeqCst)).await,
        "the background sync was not started");
    // the sync is in flight: a second record is written and acknowledged
    s.write(key(2), Bytes::from(vec![7u8; 3000]), BlobRecordTimestamp::now()).await.unwrap();
    tap::GATE_RELEASE.store(true, Ordering::SeqCst);
    *tap::GATE_SUFFIX.lock().unwrap() = None;

    let ok = wait_until(Duration::from_secs(3), || tap::unsynced(&p0) <= DIRTY_LIMIT).await;
    assert!(ok,
        "C12 violated by the unmodified code: {} un-synced bytes (limit {}) in {} and no sync for 3 s; trace {:#?}",
        tap::unsynced(&p0), DIRTY_LIMIT, p0, tap::events_for(&p0));
    s.close().await.unwrap();
}

/// P2: `size` is advanced before the bytes are written, so a concurrent sync records bytes
/// that were not written yet as synced.
#[tokio::test(flavor = "multi_thread", worker_threads = 4)]
async fn p2_sync_concurrent_with_a_write_counts_unwritten_bytes_as_synced() {
    let dir = work_dir("p2");
    let s = std::sync::Arc::new(storage(&dir, 1_000_000, Some(DIRTY_LIMIT)).await);
    let p0 = blob_path(&dir, 0);
    *tap::PW_GATE_SUFFIX.lock().unwrap() = Some("test.0.blob".to_string());

    let s2 = s.clone();
    let w = tokio::spawn(async move {
        s2.write(key(1), Bytes::from(vec![7u8; 1500]), BlobRecordTimestamp::now()).await.unwrap();
    });
    assert!(wait_until(Duration::from_secs(5), || tap::PW_GATE_ENTERED.load(Ordering::SeqCst)).await);
    // the record is between `size.fetch_add` and the actual pwrite; an explicit sync runs now
    s.fsyncdata().await.unwrap();
    *tap::PW_GATE_SUFFIX.lock().unwrap() = None;
    tap::PW_GATE_RELEASE.store(true, Ordering::SeqCst);
    w.await.unwrap(); // record 1 acknowledged (after the sync finished)
    assert!(tap::unsynced(&p0) > 1500 && tap::unsynced(&p0) <= DIRTY_LIMIT);

    // second record: 1573 + 1573 bytes un-synced > limit, although each record alone is below it
    s.write(key(2), Bytes::from(vec![7u8; 1500]), BlobRecordTimestamp::now()).await.unwrap();
    let ok = wait_until(Duration::from_secs(3), || tap::unsynced(&p0) <= DIRTY_LIMIT).await;
    assert!(ok,
        "C12 violated by the unmodified code: {} un-synced bytes (limit {}) in {} and no sync for 3 s; trace {:#?}",
        tap::unsynced(&p0), DIRTY_LIMIT, p0, tap::events_for(&p0));
    let s = std::sync::Arc::try_unwrap(s).ok().unwrap();
    s.close().await.unwrap();
}
