//! Pre-existing deviation from property C01 on the UNMODIFIED code (see out/PREEXISTING.md).
//!
//! Placement: copy to `tests/c01_preexisting.rs` and run
//! `cargo test --offline --test c01_preexisting`.
//!
//! `default_config_drops_newer_version` FAILS on the unmodified code (it states what C01 demands),
//! `with_allow_duplicates_newer_version_wins` PASSES (control: same history, `allow_duplicates()` set).

use anyhow::Result;
use bytes::Bytes;
use pearl::{BlobRecordTimestamp, Builder, ReadResult, Storage};

mod common;

use common::KeyTest;

async fn storage_in(path: &std::path::Path, allow_duplicates: bool) -> Storage<KeyTest> {
    let builder = Builder::new()
        .work_dir(path)
        .set_io_driver(pearl::IoDriver::new())
        .blob_file_name_prefix("test")
        .max_blob_size(1_000_000)
        .max_data_in_blob(100_000);
    let builder = if allow_duplicates { builder.allow_duplicates() } else { builder };
    let mut storage = builder.build().unwrap();
    storage.init().await.unwrap();
    storage
}

async fn history(storage: &Storage<KeyTest>) -> Result<(ReadResult<Bytes>, ReadResult<BlobRecordTimestamp>)> {
    let key: KeyTest = vec![1].into();
    // both calls return Ok(()): both versions are acknowledged
    storage.write(&key, Bytes::from_static(b"version 1"), BlobRecordTimestamp::new(1)).await?;
    storage.write(&key, Bytes::from_static(b"version 2"), BlobRecordTimestamp::new(2)).await?;
    Ok((storage.read(&key).await?, storage.contains(&key).await?))
}

#[tokio::test]
async fn default_config_drops_newer_version() -> Result<()> {
    let path = common::init("c01_preexisting_default");
    let storage = storage_in(&path, false).await;
    let (read, contains) = history(&storage).await?;
    common::clean(storage, path).await;
    // C01: the top-ranked acknowledged record is (ts 2, "version 2")
    assert_eq!(ReadResult::Found(Bytes::from_static(b"version 2")), read);
    assert_eq!(ReadResult::Found(BlobRecordTimestamp::new(2)), contains);
    Ok(())
}

#[tokio::test]
async fn with_allow_duplicates_newer_version_wins() -> Result<()> {
    let path = common::init("c01_preexisting_allow_duplicates");
    let storage = storage_in(&path, true).await;
    let (read, contains) = history(&storage).await?;
    common::clean(storage, path).await;
    assert_eq!(ReadResult::Found(Bytes::from_static(b"version 2")), read);
    assert_eq!(ReadResult::Found(BlobRecordTimestamp::new(2)), contains);
    Ok(())
}
