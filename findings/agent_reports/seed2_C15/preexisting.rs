// Pre-existing violation of C15 on the UNMODIFIED code: `disk_used` does not match the directory listing
// while a blob whose index file exists on disk keeps its index in memory.
//
// Placement: copy to tests/c15_preexisting.rs (integration test, public API only, uses tests/common.rs)
// Run:       cargo test --offline --test c15_preexisting
// Outcome on the unmodified code: both tests FAIL.

mod common;

use bytes::Bytes;
use common::KeyTest;
use pearl::{BlobRecordTimestamp, Storage};
use std::path::Path;
use std::time::Duration;
use tokio::time::sleep;

fn dir_size(path: &Path) -> u64 {
    std::fs::read_dir(path)
        .unwrap()
        .filter_map(|e| e.ok())
        .filter_map(|e| e.metadata().ok())
        .filter(|md| md.is_file())
        .map(|md| md.len())
        .sum()
}

async fn put(storage: &Storage<KeyTest>, key: u32, ts: u64) {
    storage
        .write(
            KeyTest::new(key),
            Bytes::from(vec![key as u8; 32]),
            BlobRecordTimestamp::new(ts),
        )
        .await
        .unwrap();
}

/// After a restart the index of the active blob is loaded into memory, its `.index` file stays on disk,
/// but `disk_used` no longer counts it (until the blob is closed and dumped again).
#[tokio::test]
async fn disk_used_matches_directory_after_restart() {
    let path = common::init("c15_preexisting_restart");
    let storage = common::create_test_storage(&path, 1_000_000).await.unwrap();
    put(&storage, 1, 10).await;
    assert_eq!(storage.disk_used().await, dir_size(&path), "fresh storage");
    storage.close().await.unwrap();

    let storage = common::create_test_storage(&path, 1_000_000).await.unwrap();
    let (used, listed) = (storage.disk_used().await, dir_size(&path));
    common::clean(storage, &path).await;
    assert_eq!(used, listed, "disk_used vs directory listing after restart");
}

/// The same after a manual restore of the active blob, and (until the deferred dump runs) after a deletion
/// marker is appended to a closed blob whose index was already dumped.
#[tokio::test]
async fn disk_used_matches_directory_after_restore() {
    let path = common::init("c15_preexisting_restore");
    let storage = common::create_test_storage(&path, 1_000_000).await.unwrap();
    put(&storage, 1, 10).await;
    storage.try_close_active_blob().await.unwrap();
    sleep(Duration::from_millis(500)).await;
    assert_eq!(storage.disk_used().await, dir_size(&path), "closed and dumped");

    storage.try_restore_active_blob().await.unwrap();
    let (used, listed) = (storage.disk_used().await, dir_size(&path));
    common::clean(storage, &path).await;
    assert_eq!(used, listed, "disk_used vs directory listing after restore");
}
