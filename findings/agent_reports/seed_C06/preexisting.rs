//! Scenarios in which the UNMODIFIED code (HEAD) already violates C06.
//! Every test here FAILS on unmodified code. Put the file into tests/ to run it.

use bytes::Bytes;
use pearl::{BlobRecordTimestamp, Builder, ReadResult, Storage};
use std::{fs, path::Path};

mod common;
use common::KeyTest;

const DATA_LEN: usize = 100;
const BLOB_HEADER_LEN: usize = 20;
const RECORD_HEADER_LEN: usize = 61;

fn builder(path: &Path, validate: bool, ignore: bool) -> Builder {
    let b = Builder::new()
        .work_dir(path)
        .set_io_driver(pearl::IoDriver::new())
        .blob_file_name_prefix("test")
        .max_blob_size(1_000_000)
        .max_data_in_blob(100_000)
        .set_filter_config(Default::default())
        .corrupted_dir_name("corrupted")
        .set_validate_data_during_index_regen(validate)
        .allow_duplicates();
    if ignore { b.ignore_corrupted() } else { b }
}

async fn open(path: &Path, validate: bool, ignore: bool) -> Result<Storage<KeyTest>, String> {
    let mut s: Storage<KeyTest> = builder(path, validate, ignore).build().unwrap();
    s.init().await.map_err(|e| format!("{:#}", e))?;
    Ok(s)
}

fn show(r: anyhow::Result<ReadResult<Bytes>>) -> String {
    match r {
        Ok(ReadResult::Found(b)) => format!("Found({} bytes)", b.len()),
        Ok(ReadResult::NotFound) => "NotFound".into(),
        Ok(ReadResult::Deleted(_)) => "Deleted".into(),
        Err(e) => format!("Err({:#})", e),
    }
}

fn data(k: u32) -> Vec<u8> { vec![k as u8; DATA_LEN] }

async fn put(s: &Storage<KeyTest>, k: u32) {
    s.write(KeyTest::new(k), Bytes::from(data(k)), BlobRecordTimestamp::new(k as u64)).await.unwrap();
}

fn remove_index_files(dir: &Path) {
    for e in fs::read_dir(dir).unwrap() {
        let p = e.unwrap().path();
        if p.extension().map_or(false, |e| e == "index") { fs::remove_file(p).unwrap(); }
    }
}

fn cut_last_of_3(blob: &Path, into_last_record: usize) {
    let len = fs::metadata(blob).unwrap().len() as usize;
    let record_len = (len - BLOB_HEADER_LEN) / 3;
    let cut = BLOB_HEADER_LEN + 2 * record_len + into_last_record;
    fs::OpenOptions::new().write(true).open(blob).unwrap().set_len(cut as u64).unwrap();
}

/// P1. Default config (data validation during index regeneration is OFF), blob cut inside the
/// DATA of the last record: the scan reads only headers, the header of the torn record is
/// complete and valid, the loop ends because the cursor went past EOF => the torn record gets
/// into the index. It is "served" as an error, and a record appended after recovery lands in
/// the middle of the torn record's declared extent, so the next index-less restart loses it.
#[tokio::test]
async fn p1_validate_off_cut_in_data_is_accepted() {
    let dir = common::init("c06_pre_p1");
    let s = open(&dir, false, false).await.unwrap();
    for k in 1..=3 { put(&s, k).await; }
    s.close().await.unwrap();
    remove_index_files(&dir);
    cut_last_of_3(&dir.join("test.0.blob"), RECORD_HEADER_LEN + 8 + DATA_LEN / 2);

    let s = open(&dir, false, false).await.unwrap();
    let r3 = s.read(KeyTest::new(3)).await;
    let r3_ok = matches!(r3, Ok(ReadResult::NotFound)) || matches!(&r3, Ok(ReadResult::Found(b)) if b.as_ref() == &data(3)[..]);
    put(&s, 9).await;
    s.close().await.unwrap();
    remove_index_files(&dir); // process kill: no index dumped
    let s = open(&dir, false, false).await.unwrap();
    let r9 = s.read(KeyTest::new(9)).await;
    let r9_ok = matches!(&r9, Ok(ReadResult::Found(b)) if b.as_ref() == &data(9)[..]);
    s.close().await.unwrap();
    fs::remove_dir_all(&dir).unwrap();
    assert!(r3_ok, "torn record 3 is in the index, read gives: {:?}", show(r3));
    assert!(r9_ok, "record 9 written after recovery lost: {:?}", show(r9));
}

/// P2. `ignore_corrupted` and the only blob of the storage is torn: nothing is left to become the
/// active blob and no fresh one is created (the fresh blob is created only if something was
/// QUARANTINED) => `init` fails with `Uninitialized`.
#[tokio::test]
async fn p2_ignore_corrupted_single_torn_blob_init_fails() {
    let dir = common::init("c06_pre_p2");
    let s = open(&dir, true, true).await.unwrap();
    for k in 1..=3 { put(&s, k).await; }
    s.close().await.unwrap();
    remove_index_files(&dir);
    cut_last_of_3(&dir.join("test.0.blob"), 30);
    let r = open(&dir, true, true).await.map(|_| ());
    fs::remove_dir_all(&dir).unwrap();
    assert!(r.is_ok(), "init failed: {:?}", r);
}

/// P3. Torn index file of a CLOSED (not last) blob: header of the index (with the `written` bit,
/// it is rewritten at offset 0 after the body was appended, with no sync in between) is there,
/// but the tail of the leaf array is missing. `Index::from_file` checks only header fields (the
/// hash is checked only when the index is loaded into memory, i.e. for the active blob), the
/// index is accepted and records of the closed blob are silently reported as NotFound.
#[tokio::test]
async fn p3_torn_index_of_closed_blob_hides_records() {
    let dir = common::init("c06_pre_p3");
    let s = open(&dir, true, false).await.unwrap();
    for k in 1..=3 { put(&s, k).await; }
    s.try_close_active_blob().await.unwrap();
    s.try_create_active_blob().await.unwrap();
    put(&s, 4).await;
    s.close().await.unwrap();
    let index = dir.join("test.0.index");
    assert!(index.exists());
    let len = fs::metadata(&index).unwrap().len();
    fs::OpenOptions::new().write(true).open(&index).unwrap().set_len(len - RECORD_HEADER_LEN as u64).unwrap();
    let s = open(&dir, true, false).await.unwrap();
    let mut res = vec![];
    for k in 1..=3 { res.push(format!("{:?}", s.read(KeyTest::new(k)).await.map(|r| r.map(|_| ())).map_err(|e| format!("{:#}", e)))); }
    s.close().await.unwrap();
    fs::remove_dir_all(&dir).unwrap();
    assert!(res.iter().all(|r| r.contains("Found(())") ), "closed blob is not served in full: {:?}", res);
}
