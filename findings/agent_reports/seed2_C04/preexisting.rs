//! Pre-existing (unmodified code) failure: filter group size 0.
//!
//! Integration test, public API only. Copy to `tests/c04_preexisting.rs` (uses `mod common;` like
//! tests/tests.rs) and run `cargo test --offline --test c04_preexisting`.
//! On the unmodified checkout it FAILS: `try_close_active_blob` panics in
//! `HierarchicalFilters::push` (src/filter/hierarchical.rs:302, `self.last_inner_node().unwrap()`).

use bytes::Bytes;
use pearl::BlobRecordTimestamp;
mod common;
use common::KeyTest;

#[tokio::test]
async fn group_size_zero_close() {
    let path = common::init("c04_preexisting_group0");
    let storage = common::create_custom_test_storage(&path, |b| b.set_bloom_filter_group_size(0))
        .await
        .unwrap();
    storage.write(KeyTest::new(1), Bytes::from_static(b"v"), BlobRecordTimestamp::new(1)).await.unwrap();
    storage.try_close_active_blob().await.unwrap();
    assert!(storage.read(KeyTest::new(1)).await.unwrap().is_found());
    common::clean(storage, path).await;
}
