//! Pre-existing (unmodified code) violation of C14: a cancelled lazy creation of the active blob
//! leaves an empty (0 bytes) blob file, which does not parse on the next start and is quarantined
//! as a corrupted blob.
//!
//! Placement: copy to `tests/c14_preexisting.rs` (uses `mod common;` like tests/tests.rs) and run
//! `cargo test --offline --test c14_preexisting`. The test FAILS on the unmodified code.

use bytes::Bytes;
use pearl::{BlobRecordTimestamp, ReadResult, Storage};
use std::{future::Future, path::Path, task::Poll};

mod common;

use common::KeyTest;

/// Occupies the only thread of the blocking pool until opened
struct Gate {
    release: std::sync::mpsc::Sender<()>,
    handle: tokio::task::JoinHandle<()>,
}

impl Gate {
    fn close() -> Self {
        let (release, wait) = std::sync::mpsc::channel::<()>();
        let handle = tokio::task::spawn_blocking(move || {
            let _ = wait.recv();
        });
        Self { release, handle }
    }

    async fn open_and_drain(self) {
        let _ = self.release.send(());
        self.handle.await.unwrap();
        tokio::task::spawn_blocking(|| ()).await.unwrap();
    }
}

/// Polls `fut` at most `k` times (every file operation is a guaranteed suspension point: it is
/// queued behind the gate in the single-threaded blocking pool), then drops it.
async fn poll_k_then_drop<F: Future>(fut: F, k: usize) -> Option<F::Output> {
    let mut fut = Some(Box::pin(fut));
    for i in 0..k {
        let gate = Gate::close();
        let res = futures::poll!(fut.as_mut().unwrap().as_mut());
        if i + 1 == k || res.is_ready() {
            fut = None;
        }
        gate.open_and_drain().await;
        if let Poll::Ready(v) = res {
            return Some(v);
        }
    }
    None
}

async fn write_acked(storage: &Storage<KeyTest>, key: u32) {
    storage
        .write(KeyTest::new(key), Bytes::from(vec![key as u8; 64]), BlobRecordTimestamp::now())
        .await
        .unwrap();
}

async fn scenario(op: &str, k: usize) {
    let ctx = format!("op={} k={}", op, k);
    let path = common::init(&format!("c14_pre_{}_{}", op, k));
    let storage = common::create_test_storage(&path, 100_000_000).await.unwrap();
    write_acked(&storage, 1).await;
    // manual mode: no active blob
    storage.try_close_active_blob().await.unwrap();

    // The cancelled operation creates the active blob lazily
    let completed = match op {
        "write" => poll_k_then_drop(
            storage.write(KeyTest::new(100), Bytes::from(vec![7u8; 64]), BlobRecordTimestamp::now()), k).await.map(|r| r.unwrap()).is_some(),
        "create" => poll_k_then_drop(storage.try_create_active_blob(), k).await.map(|r| r.unwrap()).is_some(),
        "delete" => poll_k_then_drop(
            storage.delete(KeyTest::new(100), BlobRecordTimestamp::now(), false), k).await.map(|r| r.unwrap()).is_some(),
        _ => unreachable!(),
    };
    println!("[{}] completed: {}", ctx, completed);

    // In-session everything is fine
    assert!(matches!(storage.read(KeyTest::new(1)).await, Ok(ReadResult::Found(_))), "[{}]", ctx);
    write_acked(&storage, 2).await;
    storage.close().await.unwrap();

    let files: Vec<_> = std::fs::read_dir(&path).unwrap()
        .map(|e| e.unwrap())
        .map(|e| (e.file_name().into_string().unwrap(), e.metadata().unwrap().len()))
        .collect();
    println!("[{}] files before restart: {:?}", ctx, files);

    // Restart: every blob file must parse
    let storage = common::create_test_storage(&path, 100_000_000).await.unwrap();
    let corrupted = storage.corrupted_blobs_count();
    let quarantined = Path::new(&path).join("corrupted").exists();
    assert!(matches!(storage.read(KeyTest::new(1)).await, Ok(ReadResult::Found(_))), "[{}]", ctx);
    assert!(matches!(storage.read(KeyTest::new(2)).await, Ok(ReadResult::Found(_))), "[{}]", ctx);
    storage.close().await.unwrap();
    std::fs::remove_dir_all(&path).unwrap();
    assert_eq!(corrupted, 0, "[{}] a blob file did not parse on the next start", ctx);
    assert!(!quarantined, "[{}] a blob was quarantined", ctx);
}

fn run(op: &'static str) {
    let rt = tokio::runtime::Builder::new_current_thread().enable_all().max_blocking_threads(1).build().unwrap();
    rt.block_on(async {
        let mut failed = vec![];
        for k in 0..=6 {
            // run every k even if an earlier one fails
            let res = tokio::task::spawn(scenario(op, k)).await;
            if res.is_err() {
                failed.push(k);
            }
        }
        assert!(failed.is_empty(), "op={}: violated for k in {:?}", op, failed);
    });
}

#[test]
fn cancelled_write_without_active_blob() {
    run("write");
}

#[test]
fn cancelled_try_create_active_blob() {
    run("create");
}

#[test]
fn cancelled_delete_without_active_blob() {
    run("delete");
}
