// Pre-existing behaviour of the UNMODIFIED code (see out/PREEXISTING.md).
//
// Placement: copy to tests/c05_preexisting.rs and run
//     cargo test --offline --test c05_preexisting
// The test FAILS on the unmodified code.
//
// The metadata map of a record is covered by no checksum: the header checksum covers the header
// only (including meta_size), the data checksum covers the value only. A bit flipped inside a
// metadata VALUE on disk therefore deserializes fine and is returned by `Entry::load` /
// `Entry::load_meta` as a successful read of a metadata map that was never written;
// `Storage::read_with` with the written meta answers NotFound instead of an error.

use bytes::Bytes;
use pearl::{BlobRecordTimestamp, Meta, ReadResult};
use std::{fs, os::unix::fs::FileExt};

mod common;

use common::KeyTest;

#[tokio::test]
async fn altered_meta_bytes_are_not_served() {
    let path = common::init("c05_preexisting_meta");
    let blob = path.join("test.0.blob");
    let key = KeyTest::new(5);
    let version: &[u8] = b"version-0123456789-abcdefghijklmnopqrstuvwxyz";
    let mut meta = Meta::new();
    meta.insert("version".to_owned(), version);
    let value = Bytes::from(vec![0xA5u8; 1000]);

    let storage = common::create_test_storage(&path, 1_000_000).await.unwrap();
    storage
        .write_with(&key, value.clone(), BlobRecordTimestamp::new(1), meta.clone())
        .await
        .unwrap();
    assert_eq!(storage.read_with(&key, &meta).await.unwrap(), ReadResult::Found(value.clone()));
    storage.close().await.unwrap();

    // flip one bit in the middle of the stored meta value
    let content = fs::read(&blob).unwrap();
    let start = content
        .windows(version.len())
        .position(|w| w == version)
        .expect("meta value is in the blob");
    let pos = start + version.len() / 2;
    let file = fs::OpenOptions::new().write(true).open(&blob).unwrap();
    file.write_all_at(&[content[pos] ^ 0x01], pos as u64).unwrap();
    file.sync_all().unwrap();
    drop(file);

    let storage = common::create_test_storage(&path, 1_000_000).await.unwrap();
    assert_eq!(storage.corrupted_blobs_count(), 0);

    let mut failures = Vec::new();

    match storage.read_with(&key, &meta).await {
        Err(_) => {}
        Ok(res) => failures.push(format!(
            "read_with(written meta) did not fail: {:?}",
            res.map(|b| b.len())
        )),
    }

    let mut entries = storage.read_all(&key).await.unwrap();
    assert_eq!(entries.len(), 1);
    let mut entry = entries.pop().unwrap();
    match entry.load_meta().await {
        Err(_) => {}
        Ok(m) => {
            let got = m.and_then(|m| m.get("version")).cloned();
            if got.as_deref() != Some(version) {
                failures.push(format!(
                    "load_meta succeeded with a meta that was never written: {:?}",
                    got.map(|v| String::from_utf8_lossy(&v).into_owned())
                ));
            }
        }
    }
    match entry.load().await {
        Err(_) => {}
        Ok(record) => {
            let got = record.meta().get("version").cloned();
            if got.as_deref() != Some(version) {
                failures.push(format!(
                    "Entry::load succeeded with a meta that was never written: {:?}",
                    got.map(|v| String::from_utf8_lossy(&v).into_owned())
                ));
            }
        }
    }

    common::clean(storage, path).await;
    assert!(failures.is_empty(), "altered meta bytes were served:\n{}", failures.join("\n"));
}
