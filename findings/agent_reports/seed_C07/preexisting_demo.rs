// C07: scenario in which the UNMODIFIED code reuses a blob id and then destroys quarantined bytes.
// Place at tests/c07_preexisting.rs, run: cargo test --offline --test c07_preexisting
//
// next_blob_id is initialised above the ids found in the WORK dir only. The id of a quarantined blob is
// remembered (from its file name) only during the restart that quarantines it. One more restart later
// the corrupted dir is not consulted, so if the quarantined blob had the highest id, that id is handed out again.
// If the new blob with the reused id is quarantined later, `rename` silently replaces the older file
// in the corrupted dir: the previously quarantined bytes are gone.

use bytes::Bytes;
use pearl::{BlobRecordTimestamp, Storage};
use std::path::Path;
use std::time::Duration;
use tokio::time::sleep;

mod common;

use common::KeyTest;

async fn open(path: &Path) -> Storage<KeyTest> {
    common::create_custom_test_storage(path, |b| b.max_blob_size(5_000).corrupted_dir_name("corrupted"))
        .await
        .expect("storage init")
}

async fn write(storage: &Storage<KeyTest>, key: u32, fill: u8) {
    storage
        .write(KeyTest::new(key), Bytes::from(vec![fill; 1000]), BlobRecordTimestamp::now())
        .await
        .expect("write");
}

async fn wait_blobs_count(storage: &Storage<KeyTest>, count: usize) {
    for _ in 0..200 {
        if storage.blobs_count().await >= count {
            return;
        }
        sleep(Duration::from_millis(10)).await;
    }
    panic!("blobs count {} was not reached", count);
}

fn rot(path: &Path, id: usize) {
    let blob = path.join(format!("test.{}.blob", id));
    common::corrupt_file(&blob, common::CorruptionType::ZeroedAt(20, 1)).expect("corrupt blob");
    let index = path.join(format!("test.{}.index", id));
    if index.exists() {
        std::fs::remove_file(index).expect("remove index");
    }
}

#[tokio::test]
async fn c07_preexisting_id_reuse_after_quarantine_and_two_restarts() {
    let path = common::init("c07_preexisting");

    // session 1: test.0.blob (full), test.1.blob (active)
    let storage = open(&path).await;
    sleep(Duration::from_millis(300)).await;
    for k in 0..6u32 {
        write(&storage, k, k as u8 + 1).await;
        sleep(Duration::from_millis(20)).await;
    }
    wait_blobs_count(&storage, 2).await;
    write(&storage, 100, 0x11).await;
    storage.close().await.expect("close 1");
    rot(&path, 1);
    let quarantined_bytes = std::fs::read(path.join("test.1.blob")).unwrap();

    // session 2: test.1.blob is quarantined; the id is still remembered in this session
    let storage = open(&path).await;
    assert_eq!(storage.corrupted_blobs_count(), 1);
    assert_eq!(storage.next_blob_id(), 2);
    storage.close().await.expect("close 2");
    assert_eq!(std::fs::read(path.join("corrupted/test.1.blob")).unwrap(), quarantined_bytes);

    // session 3: plain restart, nothing is wrong with the work dir any more
    let storage = open(&path).await;
    let next = storage.next_blob_id();
    sleep(Duration::from_millis(300)).await;
    write(&storage, 200, 0x21).await; // test.0.blob is full -> a new blob is created
    wait_blobs_count(&storage, 2).await;
    write(&storage, 201, 0x22).await;
    storage.close().await.expect("close 3");
    let reused = path.join("test.1.blob").exists();

    // the new blob rots too, session 4 quarantines it
    let newest = if reused { 1 } else { 2 };
    rot(&path, newest);
    let storage = open(&path).await;
    let after = std::fs::read(path.join("corrupted/test.1.blob")).unwrap();
    common::clean(storage, &path).await;

    let mut violations = Vec::new();
    if next <= 1 {
        violations.push(format!("id 1 was used by a (quarantined) blob, but next_blob_id after the second restart is {}", next));
    }
    if reused {
        violations.push("blob id 1 was assigned again: a new test.1.blob was created".to_string());
    }
    if after != quarantined_bytes {
        violations.push(format!(
            "corrupted/test.1.blob was replaced: {} bytes quarantined earlier are gone, {} other bytes are there now",
            quarantined_bytes.len(), after.len()
        ));
    }
    assert!(violations.is_empty(), "C07 violated by unmodified code:\n  {}", violations.join("\n  "));
}
