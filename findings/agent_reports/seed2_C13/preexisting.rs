//! C13 pre-existing violation: a predicate that panics kills the background worker for good.
//!
//! Placement: copy to `tests/c13_preexisting.rs` (uses `tests/common.rs` via `mod common;`).
//! Run with  cargo test --offline --test c13_preexisting
//!
//! FAILS on the unmodified code.

use bytes::Bytes;
use pearl::{BlobRecordTimestamp, Storage};
use std::time::{Duration, Instant};
use tokio::time::{sleep, timeout};

mod common;

use common::KeyTest;

async fn write(storage: &Storage<KeyTest>, key: u32) {
    let fut = storage.write(
        KeyTest::new(key),
        Bytes::from(vec![3u8; 1000]),
        BlobRecordTimestamp::now(),
    );
    timeout(Duration::from_secs(10), fut)
        .await
        .expect("write hangs")
        .expect("write failed");
}

async fn overflow_until_switch(storage: &Storage<KeyTest>, first_key: u32, blobs_before: usize) -> bool {
    let started = Instant::now();
    let mut key = first_key;
    while started.elapsed() < Duration::from_secs(4) {
        write(storage, key).await;
        key += 1;
        sleep(Duration::from_millis(50)).await;
        if storage.blobs_count().await > blobs_before {
            return true;
        }
    }
    false
}

/// Control: requests that do not apply in the current state do not stop the worker
#[tokio::test(flavor = "multi_thread", worker_threads = 4)]
async fn control_not_applicable_background_requests_are_harmless() {
    let path = common::init("c13_pre_control");
    let _ = std::fs::remove_dir_all(&path);
    let storage = common::create_test_storage(&path, 5_000).await.unwrap();
    storage.create_active_blob_in_background().await; // already exists
    storage.restore_active_blob_in_background().await; // already exists
    storage.close_active_blob_in_background().await; // applies
    storage.close_active_blob_in_background().await; // no active blob
    storage.restore_active_blob_in_background().await; // applies
    storage.close_active_blob_in_background().await; // applies
    storage.force_update_active_blob(|stat| stat.is_none()).await; // creates blob 1
    sleep(Duration::from_millis(500)).await;
    let before = storage.blobs_count().await;
    let switched = overflow_until_switch(&storage, 0, before).await;
    let closed = timeout(Duration::from_secs(10), storage.close()).await;
    assert!(closed.is_ok(), "close did not return within 10 s");
    let _ = std::fs::remove_dir_all(&path);
    assert!(switched, "active blob was never switched");
}

#[tokio::test(flavor = "multi_thread", worker_threads = 4)]
async fn rotation_continues_after_force_update_with_a_predicate_that_panics() {
    let path = common::init("c13_pre_panicking_predicate");
    let _ = std::fs::remove_dir_all(&path);
    let storage = common::create_test_storage(&path, 5_000).await.unwrap();

    // No active blob at the moment of the request: the predicate receives `None`
    storage.try_close_active_blob().await.unwrap();
    // "switch the blob if it has more than 3 records" written without thinking about `None`
    storage
        .force_update_active_blob(|stat| stat.unwrap().records_count > 3)
        .await;
    sleep(Duration::from_millis(500)).await;

    let before = storage.blobs_count().await + 1; // the first write creates the active blob
    let switched = overflow_until_switch(&storage, 0, before).await;
    let in_active = storage.records_count_in_active_blob().await;
    let blobs = storage.blobs_count().await;

    let closed = timeout(Duration::from_secs(10), storage.close()).await;
    assert!(closed.is_ok(), "close did not return within 10 s");
    let _ = std::fs::remove_dir_all(&path);

    assert!(
        switched,
        "active blob was never switched: blobs_count = {}, records in active blob = {:?} (1000 bytes each, limit 5000)",
        blobs, in_active
    );
}
