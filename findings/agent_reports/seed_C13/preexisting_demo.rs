//! C13: pre-existing defect candidate. Deferred dump request is lost (never performed until another event)
//! when its deadline comes while another dump task is still running.

use bytes::Bytes;
use pearl::{BlobRecordTimestamp, Storage};
use std::{
    path::{Path, PathBuf},
    time::{Duration, Instant, SystemTime},
};
use tokio::time::{sleep, timeout};

mod common;

use common::KeyTest;

const MIN_DEFER: Duration = Duration::from_millis(20);
const MAX_DEFER: Duration = Duration::from_millis(40);
const BIG: u32 = 60_000;

async fn write_one(storage: &Storage<KeyTest>, key: u32) {
    storage
        .write(
            KeyTest::new(key),
            Bytes::from(vec![key as u8; 8]),
            BlobRecordTimestamp::now(),
        )
        .await
        .expect("write failed");
}

async fn wait_until<F, Fut>(limit: Duration, mut cond: F) -> bool
where
    F: FnMut() -> Fut,
    Fut: std::future::Future<Output = bool>,
{
    let start = Instant::now();
    loop {
        if cond().await {
            return true;
        }
        if start.elapsed() > limit {
            return false;
        }
        sleep(Duration::from_millis(20)).await;
    }
}

fn modified(path: &PathBuf) -> SystemTime {
    std::fs::metadata(path).expect("index metadata").modified().expect("modified time")
}

async fn close_blob_and_wait_index(storage: &Storage<KeyTest>, path: &Path, id: usize) -> PathBuf {
    storage.try_close_active_blob().await.unwrap();
    let index = path.join(format!("test.{}.index", id));
    let start = Instant::now();
    assert!(wait_until(Duration::from_secs(60), || async { index.exists() }).await);
    println!("index {} dumped in (approx) {:?}", id, start.elapsed());
    sleep(Duration::from_millis(1000)).await;
    index
}

#[tokio::test(flavor = "multi_thread", worker_threads = 4)]
async fn deferred_dump_registered_while_dump_is_running_completes() {
    let path = common::init("c13_pre_deferred_lost");
    let storage = common::create_custom_test_storage(&path, |b| {
        b.max_blob_size(1_000_000_000)
            .max_data_in_blob(1_000_000_000)
            .set_deferred_index_dump_times(MIN_DEFER, MAX_DEFER)
    })
    .await
    .unwrap();

    // blob 0: small
    write_one(&storage, 0).await;
    let index_0 = close_blob_and_wait_index(&storage, &path, 0).await;
    // blobs 1 and 2: big
    let start = Instant::now();
    for key in 1_000_000..(1_000_000 + BIG) {
        write_one(&storage, key).await;
    }
    println!("written in {:?}", start.elapsed());
    let index_1 = close_blob_and_wait_index(&storage, &path, 1).await;
    for key in 2_000_000..(2_000_000 + BIG) {
        write_one(&storage, key).await;
    }
    let index_2 = close_blob_and_wait_index(&storage, &path, 2).await;

    let m0 = modified(&index_0);
    let m1 = modified(&index_1);
    let m2 = modified(&index_2);

    // Indexes of blobs 1 and 2 are loaded into memory and should be dumped again
    let t0 = Instant::now();
    assert_eq!(storage.delete(KeyTest::new(1_000_000), BlobRecordTimestamp::now(), true).await.unwrap(), 1);
    assert_eq!(storage.delete(KeyTest::new(2_000_000), BlobRecordTimestamp::now(), true).await.unwrap(), 1);
    println!("two deletes done in {:?}", t0.elapsed());
    // Wait for deferred dump task start
    sleep(MAX_DEFER + Duration::from_millis(30)).await;
    // This delete waits for the end of the time quantum of the running dump task (it has passed blob 0 already)
    let t1 = Instant::now();
    assert_eq!(storage.delete(KeyTest::new(0), BlobRecordTimestamp::now(), true).await.unwrap(), 1);
    println!("third delete done in {:?}", t1.elapsed());

    let ok1 = wait_until(Duration::from_secs(20), || async { modified(&index_1) != m1 }).await;
    println!("index 1 redumped: {} at {:?}", ok1, t0.elapsed());
    let ok2 = wait_until(Duration::from_secs(20), || async { modified(&index_2) != m2 }).await;
    println!("index 2 redumped: {} at {:?}", ok2, t0.elapsed());
    let ok0 = wait_until(Duration::from_secs(10), || async { modified(&index_0) != m0 }).await;
    println!("index 0 redumped: {} at {:?}", ok0, t0.elapsed());
    assert!(ok1 && ok2);
    assert!(ok0, "deferred dump of blob 0 index was never performed");

    timeout(Duration::from_secs(30), storage.close()).await.expect("close did not return").unwrap();
    std::fs::remove_dir_all(path).unwrap();
}

/// Observation: a deferred dump, that is registered but not started yet, is dropped by `close`
#[tokio::test]
async fn deferred_dump_registered_before_close_is_performed() {
    let path = common::init("c13_pre_deferred_dropped_by_close");
    let storage = common::create_custom_test_storage(&path, |b| {
        b.set_deferred_index_dump_times(Duration::from_millis(300), Duration::from_millis(600))
    })
    .await
    .unwrap();
    write_one(&storage, 0).await;
    write_one(&storage, 1).await;
    let index_0 = close_blob_and_wait_index(&storage, &path, 0).await;
    let m0 = modified(&index_0);
    assert_eq!(storage.delete(KeyTest::new(0), BlobRecordTimestamp::now(), true).await.unwrap(), 1);
    timeout(Duration::from_secs(30), storage.close()).await.expect("close did not return").unwrap();
    sleep(Duration::from_millis(1000)).await;
    let redumped = modified(&index_0) != m0;
    println!("index 0 redumped before/at close: {}", redumped);

    // Reopen: is the deletion visible?
    let storage = common::create_custom_test_storage(&path, |b| b).await.unwrap();
    let res = storage.contains(KeyTest::new(0)).await.unwrap();
    println!("after reopen contains(0) = {:?}", res);
    assert!(res.is_deleted(), "deletion was lost after reopen");
    storage.close().await.unwrap();
    assert!(redumped, "deferred dump was dropped by close");
    std::fs::remove_dir_all(path).unwrap();
}
