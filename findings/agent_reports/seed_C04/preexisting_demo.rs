// Minimal reproduction of behaviour of the UNMODIFIED code that already violates C04.
// Copy to tests/c04_preexisting.rs and run `cargo test --offline --test c04_preexisting`.
// Both tests FAIL on unmodified HEAD.

use bytes::Bytes;
use pearl::{BlobRecordTimestamp, ReadResult};
use std::time::Duration;
use tokio::time::sleep;

mod common;
use common::KeyTest;

fn data(i: u32) -> Bytes {
    format!("value-{}", i).repeat(8).into_bytes().into()
}

async fn wait_file(p: &std::path::Path) {
    for _ in 0..500 {
        if p.exists() {
            return;
        }
        sleep(Duration::from_millis(20)).await;
    }
    panic!("file {:?} did not appear", p);
}

/// close active blob -> background index dump completes -> restore active blob -> write.
/// The restored active blob keeps its index in OnDisk state, so `Storage::write` fails with
/// `Index("Index is closed, push is unavalaible")` (after the record bytes were already
/// appended to the blob file).
#[tokio::test]
async fn preexisting_write_fails_after_restore_of_dumped_blob() {
    let path = common::init("c04_preexisting_restore_write");
    let storage = common::default_test_storage_in(&path).await.unwrap();
    storage
        .write(KeyTest::new(1), data(1), BlobRecordTimestamp::new(10))
        .await
        .unwrap();
    storage.try_close_active_blob().await.unwrap();
    wait_file(&path.join("test.0.index")).await;
    sleep(Duration::from_millis(200)).await;
    storage.try_restore_active_blob().await.unwrap();
    assert!(storage.has_active_blob().await);
    assert_eq!(
        storage.read(KeyTest::new(1)).await.unwrap(),
        ReadResult::Found(data(1))
    );
    let res = storage
        .write(KeyTest::new(2), data(2), BlobRecordTimestamp::new(10))
        .await;
    let read_back = storage.read(KeyTest::new(2)).await.unwrap();
    common::clean(storage, path).await;
    assert!(res.is_ok(), "write after restore failed: {:?}", res);
    assert_eq!(read_back, ReadResult::Found(data(2)));
}

/// close + restore is a pure representation change, but `blobs_count` goes from 1 to 2
/// (the popped slot of the closed blob list is still counted by `HierarchicalFilters::len`).
#[tokio::test]
async fn preexisting_blobs_count_changes_after_close_restore() {
    let path = common::init("c04_preexisting_blobs_count");
    let storage = common::default_test_storage_in(&path).await.unwrap();
    storage
        .write(KeyTest::new(1), data(1), BlobRecordTimestamp::new(10))
        .await
        .unwrap();
    let before = storage.blobs_count().await;
    storage.try_close_active_blob().await.unwrap();
    let closed = storage.blobs_count().await;
    storage.try_restore_active_blob().await.unwrap();
    let after = storage.blobs_count().await;
    common::clean(storage, path).await;
    assert_eq!((before, closed), (1, 1));
    assert_eq!(after, 1, "blobs_count after close+restore");
}
