//! Pre-existing violation of property C11 in the UNMODIFIED code.
//!
//! Place this file as `tests/c11_preexisting.rs` (it uses `mod common;` like tests/tests.rs) and run
//!     cargo test --offline --test c11_preexisting
//!
//! Clause violated: "An operation that returned an error is never served later as if it had succeeded."
//!
//! History: write(k1) ok; write(k2, 8000 bytes) where the pwrite of the *data part* fails with ENOSPC (a record
//! bigger than 4 KiB is written with two pwrite calls: header+meta, then data; the first one succeeds);
//! write(k3) ok; the process stops without `Storage::close()` (so no index file is written for the blob);
//! restart.
//!
//! `File::write_append_writable_data` (src/io/unix/sync.rs) advances the size counter by the full record length
//! before writing, so k3 lands exactly behind the hole k2 should have filled. On restart the index is regenerated
//! from the blob (`RawRecords::load`, validate_data_during_index_regen = false by default): the header of k2 is
//! complete and has a valid checksum, its data is skipped by length, k3 follows at the expected offset. The scan
//! succeeds and k2 - a write that reported ENOSPC to the caller - is in the index:
//!   contains(k2) = Found(ts 2), read(k2) = Err(RecordDataChecksum)   (expected: NotFound for both)
//! (if k2 overwrote an older version of the key, the older version is shadowed by the broken record.)
//!
//! The fault is injected by symbol interposition: the test binary defines `pwrite64`, which std's
//! `FileExt::write_all_at` resolves to. `libc` is a dependency of the crate.

mod common;

use bytes::Bytes;
use common::KeyTest;
use pearl::BlobRecordTimestamp;
use std::sync::atomic::{AtomicBool, AtomicI64, AtomicUsize, Ordering};
use std::sync::Mutex;
use std::time::Duration;

static ARMED: AtomicBool = AtomicBool::new(false);
static COUNT: AtomicI64 = AtomicI64::new(0);
static MIN_LEN: AtomicUsize = AtomicUsize::new(0);
static HITS: AtomicUsize = AtomicUsize::new(0);
static SUFFIX: Mutex<Vec<u8>> = Mutex::new(Vec::new());
/// The two tests share the fault-injection state: run them one at a time
static SERIAL: Mutex<()> = Mutex::new(());

/// Fail (ENOSPC) the next `count` pwrite calls of at least `min_len` bytes on files whose path ends with `suffix`
fn arm_pwrite_fault(suffix: &str, min_len: usize, count: i64) {
    *SUFFIX.lock().unwrap() = suffix.as_bytes().to_vec();
    MIN_LEN.store(min_len, Ordering::SeqCst);
    COUNT.store(count, Ordering::SeqCst);
    HITS.store(0, Ordering::SeqCst);
    ARMED.store(true, Ordering::SeqCst);
}

fn disarm() {
    ARMED.store(false, Ordering::SeqCst);
}

unsafe fn matches(fd: libc::c_int, len: usize) -> bool {
    if !ARMED.load(Ordering::SeqCst) || len < MIN_LEN.load(Ordering::SeqCst) {
        return false;
    }
    let link = format!("/proc/self/fd/{}\0", fd);
    let mut buf = [0u8; 4096];
    let n = libc::readlink(
        link.as_ptr() as *const libc::c_char,
        buf.as_mut_ptr() as *mut libc::c_char,
        buf.len(),
    );
    if n <= 0 || !buf[..n as usize].ends_with(&SUFFIX.lock().unwrap()) {
        return false;
    }
    if COUNT.fetch_sub(1, Ordering::SeqCst) <= 0 {
        return false;
    }
    HITS.fetch_add(1, Ordering::SeqCst);
    true
}

#[no_mangle]
pub unsafe extern "C" fn pwrite64(
    fd: libc::c_int,
    buf: *const libc::c_void,
    count: libc::size_t,
    offset: libc::off64_t,
) -> libc::ssize_t {
    if matches(fd, count) {
        *libc::__errno_location() = libc::ENOSPC;
        return -1;
    }
    libc::syscall(libc::SYS_pwrite64, fd, buf, count, offset) as libc::ssize_t
}

fn big(b: u8) -> Bytes {
    Bytes::from(vec![b; 8000])
}

async fn history(path: &std::path::Path) -> pearl::Storage<KeyTest> {
    let storage = common::create_test_storage(path, 1_000_000).await.unwrap();
    storage.write(KeyTest::new(1), big(1), BlobRecordTimestamp::new(1)).await.unwrap();
    // the header+meta part of the record is ~70 bytes, the data part is 8000 bytes: only the latter fails
    arm_pwrite_fault(".blob", 8000, 1);
    let res = storage.write(KeyTest::new(2), big(2), BlobRecordTimestamp::new(2)).await;
    disarm();
    assert_eq!(HITS.load(Ordering::SeqCst), 1);
    assert!(res.is_err(), "the faulted write must report an error");
    // fault cleared
    storage.write(KeyTest::new(3), big(3), BlobRecordTimestamp::new(3)).await.unwrap();
    // in the session the failed write is not served
    assert!(!storage.contains(KeyTest::new(2)).await.unwrap().is_found());
    storage
}

#[tokio::test(flavor = "multi_thread", worker_threads = 2)]
async fn failed_write_is_not_served_after_unclean_restart() {
    let _serial = SERIAL.lock().unwrap_or_else(|e| e.into_inner());
    let path = common::init("c11_preexisting_unclean");
    let _ = std::fs::remove_dir_all(&path);
    let storage = history(&path).await;
    // unclean stop: no close(), hence no index file
    drop(storage);
    tokio::time::sleep(Duration::from_millis(300)).await;

    let storage = common::create_test_storage(&path, 1_000_000).await.unwrap();
    assert_eq!(storage.corrupted_blobs_count(), 0);
    assert!(storage.read(KeyTest::new(1)).await.unwrap().is_found());
    assert!(storage.read(KeyTest::new(3)).await.unwrap().is_found());
    let contains = storage.contains(KeyTest::new(2)).await;
    let read = storage.read(KeyTest::new(2)).await.map(|r| r.map(|b| b.len()));
    println!("after restart: contains(k2) = {:?}, read(k2) = {:?}", contains, read);
    assert!(
        !contains.unwrap().is_found(),
        "a write that returned ENOSPC is reported as present after restart"
    );
    assert!(matches!(read, Ok(r) if !r.is_found()), "read of the failed write must be NotFound");
    common::clean(storage, &path).await;
}

/// Control: with a clean close() the index file (which does not contain k2) is used after restart
#[tokio::test(flavor = "multi_thread", worker_threads = 2)]
async fn failed_write_is_not_served_after_clean_restart() {
    let _serial = SERIAL.lock().unwrap_or_else(|e| e.into_inner());
    let path = common::init("c11_preexisting_clean");
    let _ = std::fs::remove_dir_all(&path);
    let storage = history(&path).await;
    storage.close().await.unwrap();

    let storage = common::create_test_storage(&path, 1_000_000).await.unwrap();
    assert_eq!(storage.corrupted_blobs_count(), 0);
    assert!(storage.read(KeyTest::new(1)).await.unwrap().is_found());
    assert!(storage.read(KeyTest::new(3)).await.unwrap().is_found());
    assert!(!storage.contains(KeyTest::new(2)).await.unwrap().is_found());
    common::clean(storage, &path).await;
}
