//! C07, behaviour of the UNMODIFIED code: with a blob file name prefix that contains a dot and
//! `ignore_corrupted()`, a restart gives the id of an existing blob file to a "new" blob and
//! `Blob::open_new` is run on the existing file (a second blob header and all new records are
//! appended into the old blob file, whose own records are not served any more).
//!
//! Placement: copy to `tests/c07_preexisting.rs` (integration test, public API only) and run
//!
//!     cargo test --offline --test c07_preexisting
//!
//! The test asserts the property (id of an existing file is not assigned again) and therefore FAILS
//! on the unmodified code.

mod common;

use common::KeyTest;
use pearl::{BlobRecordTimestamp, Builder, Storage};
use std::fs;
use std::path::Path;

async fn open_storage(path: &Path) -> Storage<KeyTest> {
    let builder = Builder::new()
        .work_dir(path)
        .set_io_driver(pearl::IoDriver::new())
        .blob_file_name_prefix("my.data") // <- a dot inside the prefix
        .max_blob_size(1_000_000)
        .max_data_in_blob(100_000)
        .set_filter_config(Default::default())
        .ignore_corrupted()
        .allow_duplicates();
    let mut storage: Storage<KeyTest> = builder.build().unwrap();
    storage.init().await.expect("storage init");
    storage
}

#[tokio::test]
async fn id_of_existing_blob_file_is_not_assigned_again() {
    let path = common::init("c07_preexisting_dotted_prefix");
    let _ = fs::remove_dir_all(&path);

    let storage = open_storage(&path).await;
    for i in 0..3u32 {
        storage
            .write(KeyTest::new(i), vec![7; 100].into(), BlobRecordTimestamp::new(10 + i as u64))
            .await
            .unwrap();
    }
    storage.close().await.unwrap();
    let blob_path = path.join("my.data.0.blob");
    let s0 = fs::read(&blob_path).expect("blob 0 of session 1");

    // restart
    let storage = open_storage(&path).await;
    let s1 = fs::read(&blob_path).unwrap();
    let names: Vec<_> = fs::read_dir(&path)
        .unwrap()
        .map(|e| e.unwrap().file_name().into_string().unwrap())
        .filter(|n| n.ends_with(".blob"))
        .collect();
    println!(
        "after restart: blob files {:?}, blob 0: {} -> {} bytes, next_blob_id {}, blobs_count {}, records_count {}",
        names,
        s0.len(),
        s1.len(),
        storage.next_blob_id(),
        storage.blobs_count().await,
        storage.records_count().await
    );
    // bytes are kept (append only) ...
    assert_eq!(&s1[..s0.len()], &s0[..]);
    // ... but the storage has started a NEW blob under id 0, inside the file of the old blob 0:
    let new_blob_started_in_old_file = s1.len() > s0.len() && storage.records_count().await == 0;
    storage.close().await.unwrap();
    fs::remove_dir_all(&path).unwrap();
    assert!(
        !new_blob_started_in_old_file,
        "id 0 (file my.data.0.blob existed) was assigned to a new blob: the file grew from {} to {} bytes at init \
         (a second blob header) while none of its records is indexed",
        s0.len(),
        s1.len()
    );
}
