//! NOT a demo of a seeded change: a by-product. This test FAILS ON THE UNMODIFIED CODE (checked in /tmp/seed3/C11):
//!     cp out/extra/baseline_defect_reopened_blob_o_append.rs tests/c11_probe.rs
//!     cargo test --offline --test c11_probe
//!     -> [after failed put and next put on a reopened blob] acknowledged key 5 is not readable: Err(Failed to read data ...)
//!
//! Suspected cause (from reading src/io/unix/sync.rs): `IoDriver::open` (used for every blob found at start-up)
//! opens with `.append(true)`, i.e. O_APPEND, and on Linux `pwrite` on an O_APPEND descriptor ignores the offset
//! and appends at EOF. As long as the size counter equals the file length that is the same place. After ONE failed
//! write (ENOSPC, nothing written) the counter is ahead of the file: the next, successful put is placed by the
//! kernel at the real EOF, while its header/index entry say `counter` -> the acknowledged record is unreadable.
//! Blobs created in the running session (`IoDriver::create`, no O_APPEND) are not affected, which is why the
//! m1..m3 demos inject their faults into blobs created in the same session.

#![allow(dead_code)]
mod common;

use bytes::Bytes;
use common::KeyTest;
use pearl::{BlobRecordTimestamp, ReadResult, Storage};
use std::sync::atomic::{AtomicBool, AtomicI64, AtomicUsize, Ordering};
use std::sync::Mutex;
use std::time::Duration;

// ---------------------------------------------------------------------------------------------
// fault injection: fail the n-th pwrite on a file whose path ends with SUFFIX (ENOSPC, nothing written)
// ---------------------------------------------------------------------------------------------
static ARMED: AtomicBool = AtomicBool::new(false);
static SKIP: AtomicI64 = AtomicI64::new(0);
static COUNT: AtomicI64 = AtomicI64::new(0);
static HITS: AtomicUsize = AtomicUsize::new(0);
static SUFFIX: Mutex<Vec<u8>> = Mutex::new(Vec::new());

fn arm_pwrite_fault(suffix: &str, skip: i64, count: i64) {
    *SUFFIX.lock().unwrap() = suffix.as_bytes().to_vec();
    SKIP.store(skip, Ordering::SeqCst);
    COUNT.store(count, Ordering::SeqCst);
    HITS.store(0, Ordering::SeqCst);
    ARMED.store(true, Ordering::SeqCst);
}

fn disarm() {
    ARMED.store(false, Ordering::SeqCst);
}

unsafe fn fd_matches(fd: libc::c_int) -> bool {
    if !ARMED.load(Ordering::SeqCst) {
        return false;
    }
    let link = format!("/proc/self/fd/{}\0", fd);
    let mut buf = [0u8; 4096];
    let n = libc::readlink(
        link.as_ptr() as *const libc::c_char,
        buf.as_mut_ptr() as *mut libc::c_char,
        buf.len(),
    );
    if n <= 0 {
        return false;
    }
    if !buf[..n as usize].ends_with(&SUFFIX.lock().unwrap()) {
        return false;
    }
    if SKIP.fetch_sub(1, Ordering::SeqCst) > 0 {
        return false;
    }
    if COUNT.fetch_sub(1, Ordering::SeqCst) <= 0 {
        return false;
    }
    HITS.fetch_add(1, Ordering::SeqCst);
    true
}

unsafe fn pwrite_impl(fd: libc::c_int, buf: *const libc::c_void, count: libc::size_t, offset: i64) -> libc::ssize_t {
    if fd_matches(fd) {
        *libc::__errno_location() = libc::ENOSPC;
        return -1;
    }
    libc::syscall(libc::SYS_pwrite64, fd, buf, count, offset) as libc::ssize_t
}

#[no_mangle]
pub unsafe extern "C" fn pwrite64(fd: libc::c_int, buf: *const libc::c_void, count: libc::size_t, offset: i64) -> libc::ssize_t {
    pwrite_impl(fd, buf, count, offset)
}

#[no_mangle]
pub unsafe extern "C" fn pwrite(fd: libc::c_int, buf: *const libc::c_void, count: libc::size_t, offset: i64) -> libc::ssize_t {
    pwrite_impl(fd, buf, count, offset)
}

// ---------------------------------------------------------------------------------------------

fn data_of(i: u32) -> Vec<u8> {
    (0..600u32).map(|j| (i * 31 + j) as u8).collect()
}

async fn put(storage: &Storage<KeyTest>, i: u32) -> anyhow::Result<()> {
    storage
        .write(KeyTest::new(i), Bytes::from(data_of(i)), BlobRecordTimestamp::new(i as u64))
        .await
}

async fn assert_all_readable(storage: &Storage<KeyTest>, keys: &[u32], stage: &str) {
    for &i in keys {
        match storage.read(KeyTest::new(i)).await {
            Ok(ReadResult::Found(b)) => {
                assert_eq!(&b[..], &data_of(i)[..], "[{}] wrong bytes for acknowledged key {}", stage, i)
            }
            other => panic!(
                "[{}] acknowledged key {} is not readable: {:?}",
                stage,
                i,
                other.map(|r| r.map(|b| b.len()))
            ),
        }
        assert!(
            storage.contains(KeyTest::new(i)).await.unwrap().is_found(),
            "[{}] contains() does not find acknowledged key {}",
            stage,
            i
        );
    }
}

async fn assert_not_served(storage: &Storage<KeyTest>, i: u32, stage: &str) {
    match storage.read(KeyTest::new(i)).await {
        Ok(ReadResult::NotFound) => {}
        other => panic!(
            "[{}] put of key {} returned an error, but the key is served: {:?}",
            stage,
            i,
            other.map(|r| r.map(|b| b.len()))
        ),
    }
}

#[tokio::test(flavor = "multi_thread", worker_threads = 2)]
async fn probe_reopened_blob() {
    let path = common::init("c11_probe");
    let _ = std::fs::remove_dir_all(&path);
    let storage = common::create_test_storage(&path, 1_000_000).await.unwrap();
    let mut acked: Vec<u32> = Vec::new();
    for i in 1..=3u32 { put(&storage, i).await.unwrap(); acked.push(i); }
    storage.close().await.unwrap();
    let storage = common::create_test_storage(&path, 1_000_000).await.unwrap();
    assert_all_readable(&storage, &acked, "after reopen").await;
    arm_pwrite_fault("test.0.blob", 0, 1);
    let res = put(&storage, 4).await;
    disarm();
    assert!(res.is_err());
    assert_eq!(HITS.load(Ordering::SeqCst), 1);
    put(&storage, 5).await.unwrap(); acked.push(5);
    eprintln!("PROBE blob len = {}", std::fs::metadata(path.join("test.0.blob")).unwrap().len());
    assert_all_readable(&storage, &acked, "after failed put and next put on a reopened blob").await;
    assert_not_served(&storage, 4, "x").await;
    common::clean(storage, &path).await;
}
