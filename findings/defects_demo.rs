// Native demonstrations (public API only) of genuine defects found on the pinned tree 8fcb7aa.
// Drop into /repo/tests/ (uses tests/common.rs):  cargo test --offline --test defects_demo
// Each test FAILS on the pinned tree and PASSES after the corresponding "fix:" commit.
#[macro_use]
extern crate log;
mod common;
use common::KeyTest;
use pearl::BlobRecordTimestamp;
use std::time::Duration;
use tokio::time::sleep;

async fn w(storage: &pearl::Storage<KeyTest>, k: u32) {
    storage
        .write(KeyTest::new(k), vec![k as u8; 64].into(), BlobRecordTimestamp::new(k as u64))
        .await
        .unwrap();
}

/// C13: a background create request while an active blob exists must not stop background maintenance.
#[tokio::test]
async fn c13_inapplicable_background_request_keeps_rotation_alive() {
    let path = common::init("c13_inapplicable_request");
    let storage = common::create_custom_test_storage(&path, |b| b.max_blob_size(1_000_000).max_data_in_blob(4))
        .await
        .unwrap();
    w(&storage, 1).await;
    // does not apply: an active blob exists
    storage.create_active_blob_in_background().await;
    sleep(Duration::from_millis(200)).await;
    for k in 2..40 {
        w(&storage, k).await;
        sleep(Duration::from_millis(5)).await;
    }
    sleep(Duration::from_millis(500)).await;
    let blobs = storage.blobs_count().await;
    debug!("blobs: {}", blobs);
    assert!(blobs > 1, "rotation stopped: {} blob(s) after 39 writes with max_data_in_blob = 4", blobs);
    common::clean(storage, path).await;
}

/// C13: same for restore (no closed blob / active present) and close (no active blob).
#[tokio::test]
async fn c13_inapplicable_restore_and_close() {
    let path = common::init("c13_inapplicable_restore_close");
    let storage = common::create_custom_test_storage(&path, |b| b.max_blob_size(1_000_000).max_data_in_blob(4))
        .await
        .unwrap();
    w(&storage, 1).await;
    storage.restore_active_blob_in_background().await; // active blob exists -> does not apply
    sleep(Duration::from_millis(200)).await;
    for k in 2..40 {
        w(&storage, k).await;
        sleep(Duration::from_millis(5)).await;
    }
    sleep(Duration::from_millis(500)).await;
    assert!(storage.blobs_count().await > 1, "rotation stopped after an inapplicable restore request");
    common::clean(storage, path).await;
}

/// C15: blobs_count after close + restore of the active blob: one blob exists.
#[tokio::test]
async fn c15_blobs_count_after_close_restore() {
    let path = common::init("c15_close_restore");
    let storage = common::create_test_storage(&path, 1_000_000).await.unwrap();
    w(&storage, 1).await;
    assert_eq!(storage.blobs_count().await, 1);
    storage.try_close_active_blob().await.unwrap();
    assert_eq!(storage.blobs_count().await, 1);
    storage.try_restore_active_blob().await.unwrap();
    let files = std::fs::read_dir(&path).unwrap().filter(|e| e.as_ref().unwrap().path().extension().map_or(false, |x| x == "blob")).count();
    assert_eq!(files, 1);
    assert_eq!(storage.blobs_count().await, 1, "blobs_count counts the slot of the restored blob");
    common::clean(storage, path).await;
}

/// C11: a failed index dump (index file cannot be created) must not lose the in-memory index of that blob.
#[tokio::test]
async fn c11_failed_index_dump_keeps_records_readable() {
    let path = common::init("c11_failed_dump");
    let storage = common::create_test_storage(&path, 1_000_000).await.unwrap();
    for k in 1..6 {
        w(&storage, k).await;
    }
    // make the index file of blob 0 impossible to create: a directory sits at its path
    std::fs::create_dir_all(path.join("test.0.index")).unwrap();
    storage.try_close_active_blob().await.unwrap();
    // the background dump runs (and fails) now
    sleep(Duration::from_millis(1500)).await;
    for k in 1..6 {
        let r = storage.read(KeyTest::new(k)).await.unwrap();
        assert!(r.is_found(), "key {} is no longer readable after a failed index dump: {:?}", k, r.map(|b| b.len()));
    }
    assert_eq!(storage.records_count().await, 5);
    std::fs::remove_dir_all(path.join("test.0.index")).unwrap();
    common::clean(storage, path).await;
}

/// C04: restoring the active blob after its index was dumped must leave a storage that accepts writes.
#[tokio::test]
async fn c04_restore_after_dump_accepts_writes() {
    let path = common::init("c04_restore_after_dump");
    let storage = common::create_test_storage(&path, 1_000_000).await.unwrap();
    for k in 1..6 {
        w(&storage, k).await;
    }
    storage.try_close_active_blob().await.unwrap();
    // wait for the background index dump of the closed blob
    for _ in 0..50 {
        if path.join("test.0.index").exists() {
            break;
        }
        sleep(Duration::from_millis(100)).await;
    }
    sleep(Duration::from_millis(300)).await;
    assert!(path.join("test.0.index").exists());
    storage.try_restore_active_blob().await.unwrap();
    let r = storage.write(KeyTest::new(100), vec![7u8; 32].into(), BlobRecordTimestamp::new(100)).await;
    assert!(r.is_ok(), "write after restore failed: {:?}", r);
    assert!(storage.read(KeyTest::new(100)).await.unwrap().is_found());
    assert!(storage.read(KeyTest::new(3)).await.unwrap().is_found());
    common::clean(storage, path).await;
}

/// C11/C13: a failed creation of the next blob file must not end rotation for the rest of the session.
#[tokio::test]
async fn c11_rotation_continues_after_failed_blob_create() {
    let path = common::init("c11_failed_rotation");
    let storage = common::create_custom_test_storage(&path, |b| b.max_blob_size(1_000_000).max_data_in_blob(4))
        .await
        .unwrap();
    // the next blob file cannot be created: a directory sits at its path
    std::fs::create_dir_all(path.join("test.1.blob")).unwrap();
    sleep(Duration::from_millis(300)).await; // older than the rotation debounce interval
    for k in 1..8 {
        w(&storage, k).await;
        sleep(Duration::from_millis(20)).await;
    }
    sleep(Duration::from_millis(300)).await;
    // fault cleared
    std::fs::remove_dir_all(path.join("test.1.blob")).unwrap();
    for k in 8..40 {
        w(&storage, k).await;
        sleep(Duration::from_millis(5)).await;
    }
    sleep(Duration::from_millis(500)).await;
    let blobs = storage.blobs_count().await;
    assert!(blobs > 1, "rotation never resumed after the fault cleared: {} blob(s)", blobs);
    for k in 1..40 {
        assert!(storage.read(KeyTest::new(k)).await.unwrap().is_found());
    }
    common::clean(storage, path).await;
}

/// C15: records_count_detailed labels the active blob with its own id (ids have gaps after a quarantine).
#[tokio::test]
async fn c15_records_count_detailed_active_blob_id() {
    let path = common::init("c15_detailed_ids");
    {
        let storage = common::create_custom_test_storage(&path, |b| b.max_blob_size(1_000_000).max_data_in_blob(4))
            .await
            .unwrap();
        sleep(Duration::from_millis(300)).await;
        let mut k = 1;
        while storage.blobs_count().await < 3 && k < 200 {
            w(&storage, k).await;
            sleep(Duration::from_millis(30)).await;
            k += 1;
        }
        assert_eq!(storage.blobs_count().await, 3);
        storage.close().await.unwrap();
    }
    // damage the magic bytes of the middle blob: it is quarantined at the next start
    {
        use std::io::{Seek, SeekFrom, Write};
        let mut f = std::fs::OpenOptions::new().write(true).open(path.join("test.1.blob")).unwrap();
        f.seek(SeekFrom::Start(0)).unwrap();
        f.write_all(&[0u8; 8]).unwrap();
    }
    let storage = common::create_custom_test_storage(&path, |b| b.max_blob_size(1_000_000).max_data_in_blob(4))
        .await
        .unwrap();
    assert_eq!(storage.corrupted_blobs_count(), 1);
    let detailed = storage.records_count_detailed().await;
    let ids: Vec<usize> = detailed.iter().map(|(id, _)| *id).collect();
    assert_eq!(ids, vec![0, 2], "blob ids reported by records_count_detailed: {:?}", detailed);
    common::clean(storage, path).await;
}
