// Needs the LD_PRELOAD shim findings/preload/fsync_fail.c:
//   cc -shared -fPIC -o /var/tmp/pearl-verif/fsync_fail.so findings/preload/fsync_fail.c -ldl
//   PEARL_FAIL_FSYNC=/var/tmp/pearl-verif/fail_fsync LD_PRELOAD=/var/tmp/pearl-verif/fsync_fail.so cargo test --offline --test fsync_demo
mod common;
use common::KeyTest;
use pearl::BlobRecordTimestamp;

/// C11: a failed sync while closing the active blob must not lose the blob for the rest of the session.
#[tokio::test]
async fn c11_failed_sync_on_close_keeps_records_readable() {
    let flag = std::env::var("PEARL_FAIL_FSYNC").expect("run under the fsync shim");
    let _ = std::fs::remove_file(&flag);
    let path = common::init("c11_failed_sync_close");
    let storage = common::create_test_storage(&path, 1_000_000).await.unwrap();
    for k in 1..6u32 {
        storage.write(KeyTest::new(k), vec![k as u8; 64].into(), BlobRecordTimestamp::new(k as u64)).await.unwrap();
    }
    std::fs::write(&flag, b"x").unwrap(); // fsync fails from now on
    let r = storage.try_close_active_blob().await;
    std::fs::remove_file(&flag).unwrap(); // fault cleared
    assert!(r.is_err(), "the shim did not make the sync fail");
    for k in 1..6u32 {
        let res = storage.read(KeyTest::new(k)).await.unwrap();
        assert!(res.is_found(), "key {} lost after a failed sync in close_active_blob", k);
    }
    common::clean(storage, path).await;
}

/// C12: an explicit Storage::fsyncdata() must really sync the active blob, whatever the background threshold is.
/// With the shim making fsync fail, a call that performs the sync returns Err; a call that skips it returns Ok.
#[tokio::test]
async fn c12_explicit_fsyncdata_syncs_below_threshold() {
    let flag = std::env::var("PEARL_FAIL_FSYNC").expect("run under the fsync shim");
    let _ = std::fs::remove_file(&flag);
    let path = common::init("c12_explicit_fsync");
    let storage = common::create_test_storage(&path, 1_000_000).await.unwrap();
    storage.write(KeyTest::new(1), vec![1u8; 64].into(), BlobRecordTimestamp::new(1)).await.unwrap();
    std::fs::write(&flag, b"x").unwrap();
    let r = storage.fsyncdata().await;
    std::fs::remove_file(&flag).unwrap();
    assert!(r.is_err(), "explicit fsyncdata() returned Ok without syncing 100+ un-synced bytes");
    common::clean(storage, path).await;
}
