// LD_PRELOAD shim: fsync()/fdatasync() fail with EIO while the flag file named by $PEARL_FAIL_FSYNC exists.
#define _GNU_SOURCE
#include <dlfcn.h>
#include <errno.h>
#include <stdlib.h>
#include <unistd.h>
static int should_fail(void) { const char *p = getenv("PEARL_FAIL_FSYNC"); return p && access(p, F_OK) == 0; }
int fsync(int fd) { if (should_fail()) { errno = EIO; return -1; } int (*real)(int) = dlsym(RTLD_NEXT, "fsync"); return real(fd); }
int fdatasync(int fd) { if (should_fail()) { errno = EIO; return -1; } int (*real)(int) = dlsym(RTLD_NEXT, "fdatasync"); return real(fd); }
