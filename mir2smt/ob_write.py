"""Obligations on Storage::write_with_optional_meta — C02 (duplicate-write guard), C11 (acknowledged => stored)."""
import re, copy
import z3
from .symex import State, Sym, Obj, VecV, Ref, FnItem, FutureV, UNIT, Unsupported, fresh_name
from . import pearl as P
from . import summaries as S
from .pearl import BV64
from .ob_blob import _check_paths, _ev_result_ok, idx


def write_guard_and_ack(crate):
    """C02/C11: Storage::write_with_optional_meta: with duplicates disallowed a write whose key (and meta) is reported
    Found by contains_with is acknowledged (Ok) without creating or writing a record, and an error of that lookup fails
    the write without storing; otherwise Ok is returned only after Blob::write on the active blob returned Ok for the
    record created from exactly the caller's key, timestamp, value and meta; a write error is returned."""
    res = P.ObResult("write_guard_and_ack")
    fn = crate.method("Storage", "write_with_optional_meta")
    res.functions = ["Storage::write_with_optional_meta (async body) + closures", "ReadResult::is_found", "Config::allow_duplicates"]
    res.bounds = "single call, active blob present or absent, both duplicate policies, every outcome of the callees"
    ex = P.mk_executor(crate, cap=2, loop_bound=4, inline=[r"^ReadResult::is_found$", r"^Inner::config$"],
                       havoc=[r"^<.* as Clone>::clone$", r"^<.* as Debug>::fmt$"])
    st = State()
    storage = Obj("storage::core::Storage<K>")
    inner = Obj("storage::core::Inner<K>")
    safe = Obj("storage::core::Safe<K>")
    ab = Obj("std::option::Option<std::boxed::Box<async_lock::RwLock<blob::core::Blob<K>>>>")
    act = z3.BitVec("active_present", 64)
    st.pc.append(z3.Or(act == BV64(0), act == BV64(1)))
    ab.discr = Sym(act, "isize")
    lock = Obj("async_lock::RwLock<blob::core::Blob<K>>")
    ab.fields[("Some", 0)] = Ref(st.new_cell(lock), (), True, "Box<async_lock::RwLock<blob::core::Blob<K>>>")
    safe.fields[(None, crate.field_index("Safe", "active_blob"))] = ab
    slock = Obj("tokio::sync::RwLock<storage::core::Safe<K>>")
    slock.fields[(None, 7000)] = safe
    inner.fields[(None, crate.field_index("Inner", "safe"))] = slock
    ic = st.new_cell(inner)
    arc = Obj("std::sync::Arc<storage::core::Inner<K>>")
    arc.fields[(None, 7001)] = Ref(ic, (), True, "&storage::core::Inner<K>")
    storage.fields[(None, crate.field_index("Storage", "inner"))] = arc
    sc = st.new_cell(storage)
    allow = z3.Bool("allow_duplicates")

    def call_hook(ex_, st_, cname, args, dty):
        if cname == "Config::allow_duplicates":
            return [(Sym(allow, "bool"), None)]
        return None
    ex.call_hook = call_hook
    key = Obj("impl AsRef<K>"); key.fields[("g", "id")] = Sym(BV64(7), "u64")
    value = Obj("bytes::Bytes"); value.fields[("g", "id")] = Sym(BV64(8), "u64")
    tsv = z3.BitVec("write_timestamp", 64)
    ts = Obj("storage::core::BlobRecordTimestamp"); ts.fields[(None, 0)] = Sym(tsv, "u64")
    meta = Obj("std::option::Option<record::record::Meta>"); meta.fields[("g", "id")] = Sym(BV64(9), "u64")
    mp = z3.BitVec("meta_present", 64)
    st.pc.append(z3.Or(mp == BV64(0), mp == BV64(1)))
    meta.discr = Sym(mp, "isize")
    outs = P.drive_async(ex, st, fn, [Ref(sc, (), False, "&storage::core::Storage<K>"), key, value, ts, meta])
    res.paths = len(outs)
    RR = crate.enums["ReadResult"]

    def per_path(o, isok, payload):
        evs = P.events_of(o)
        names = [e[1] for e in evs]
        i_cont = idx(names, "contains_with")
        i_create = idx(names, "Record::create")
        i_write = idx(names, "Blob::write")
        dup = z3.BoolVal(False)
        cont_err = z3.BoolVal(False)
        if i_cont is not None:
            marg = evs[i_cont][2][2]
            karg = evs[i_cont][2][1]
            kobj = S.deref_val(ex, o, karg) if isinstance(karg, Ref) else karg
            if not (isinstance(kobj, Obj) and ("g", "id") in kobj.fields and z3.simplify(kobj.fields[("g", "id")].t).as_long() == 7):
                res.status = "violated"; res.detail = "the duplicate lookup is not made for the caller's key"; return False
            if not P.prove(ex, res, o, ex.get_discr(o, marg).t == mp,
                           "the duplicate lookup is made with the caller's meta (Some iff the write has meta)"):
                return False
            if isinstance(marg, Obj) and isinstance(marg.fields.get(("Some", 0)), Ref):
                tgt = marg.fields[("Some", 0)]
                # the reference points into the Option<Meta> (…, downcast Some, field 0): strip that tail to get the Option
                proj = list(tgt.proj)
                if len(proj) >= 2 and proj[-1][0] == "field" and proj[-2][0] == "downcast":
                    proj = proj[:-2]
                base = ex.read_path(o, tgt.cell, tuple(proj))
                gid = base.fields.get(("g", "id")) if isinstance(base, Obj) else None
                if gid is None or z3.simplify(gid.t).as_long() != 9:
                    res.status = "violated"; res.detail = "the duplicate lookup's meta is not the caller's meta"; return False
            c = evs[i_cont][3]
            c_ok = ex.get_discr(o, c).t == BV64(0)
            rr = ex._get_field(o, c, "Ok", 0, "ReadResult<BlobRecordTimestamp>")
            dup = z3.And(c_ok, ex.get_discr(o, rr).t == BV64(RR["Found"]))
            cont_err = z3.Not(c_ok)
        else:
            if not P.prove(ex, res, o, allow, "the duplicate lookup is skipped only when duplicates are allowed"):
                return False
        guard_hit = z3.And(z3.Not(allow), dup)
        if i_create is None and i_write is None:
            # nothing created, nothing written
            if not P.prove(ex, res, o, z3.Or(guard_hit, z3.Not(isok)), "Ok without storing only for a duplicate under the no-duplicates policy"):
                return False
            if not P.prove(ex, res, o, z3.Implies(guard_hit, isok), "a duplicate is acknowledged"):
                return False
            P.cover(ex, res, o, guard_hit, "duplicate acknowledged without storing")
            P.cover(ex, res, o, z3.And(z3.Not(allow), cont_err, z3.Not(isok)), "duplicate lookup failed")
            return True
        if not P.prove(ex, res, o, z3.Not(guard_hit), "nothing is created or written for a duplicate under the no-duplicates policy"):
            return False
        if not P.prove(ex, res, o, z3.Implies(z3.Not(allow), z3.Not(cont_err)), "a failed duplicate lookup stores nothing"):
            return False
        if i_create is not None:
            a = evs[i_create][2]
            def gid(v):
                v = S.deref_val(ex, o, v) if isinstance(v, Ref) else v
                return v.fields.get(("g", "id")) if isinstance(v, Obj) else None
            ids = [gid(a[0]), gid(a[2]), gid(a[3])]
            okids = all(x is not None for x in ids) and [z3.simplify(x.t).as_long() for x in ids] == [7, 8, 9]
            if not okids:
                res.status = "violated"; res.detail = "Record::create is not called with the caller's key, value and meta"; return False
        if i_write is None:
            if not P.prove(ex, res, o, z3.Not(isok), "Ok (non-duplicate) => Blob::write was awaited"):
                return False
            P.cover(ex, res, o, act == BV64(0), "no active blob: error")
            return True
        w = evs[i_write][3]
        w_ok = ex.get_discr(o, w).t == BV64(0)
        if i_create is None or not i_create < i_write:
            res.status = "violated"; res.detail = "Blob::write without a created record"; return False
        rec_arg = evs[i_write][2][2]
        rec_made = evs[i_create][3]
        made = ex._get_field(o, rec_made, "Ok", 0, "record::record::Record")
        if not (isinstance(rec_arg, Obj) and rec_arg.oid == made.oid):
            res.status = "violated"; res.detail = "the record written is not the record created from the caller's arguments"; return False
        if not P.prove(ex, res, o, z3.Implies(isok, w_ok), "Ok => the active blob's write returned Ok"):
            return False
        if not P.prove(ex, res, o, z3.Implies(z3.Not(w_ok), z3.Not(isok)), "a failed write is reported"):
            return False
        P.cover(ex, res, o, z3.And(isok, allow), "stored, duplicates allowed")
        P.cover(ex, res, o, z3.And(isok, z3.Not(allow)), "stored, key not present")
        P.cover(ex, res, o, z3.Not(w_ok), "write failed")
        return True

    _check_paths(ex, res, outs, per_path)
    return P.finish(ex, res, ["duplicate acknowledged without storing", "duplicate lookup failed", "stored, duplicates allowed", "stored, key not present", "write failed", "no active blob: error"])
