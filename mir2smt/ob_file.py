"""Obligations on src/io/unix/sync.rs (File): append-only discipline, reservation inside the blocking closure (C07, C14, C11)."""
import re
import z3
from .symex import State, Sym, Obj, VecV, Ref, FnItem, FutureV, UNIT, Unsupported, fresh_name
from . import pearl as P
from . import summaries as S
from . import mirparse as MP
from .pearl import BV64
from .ob_blob import file_obj, _check_paths, _ev_result_ok, idx
from .ob_record import BYTES_SUMMARIES, mk_buf, _buf


def h_std_write_all_at(ex, st, frame, t, nf, args, dty):
    """<std::fs::File as FileExt>::write_all_at(file, buf, offset) / write_at: one event; outcome arbitrary.
    write_at (not _all_) may be short: it returns Ok(n) with 1 <= n <= len."""
    b = _buf(ex, st, args[1])
    ln = b.fields[("g", "len")].t
    okv = z3.Bool(fresh_name("wr_ok"))
    name = nf.rsplit("::", 1)[1]
    if name == "write_all_at":
        r = S.mk_enum(dty, "Ok", 0, [UNIT])
        r.discr = Sym(z3.If(okv, BV64(0), BV64(1)), "isize")
        st.events.append(("write", name, [args[2].t, ln, frame.body.name], r))
        return [(r, None)]
    n = z3.BitVec(fresh_name("written"), 64)
    st.pc.append(z3.And(z3.UGE(n, BV64(1)), z3.ULE(n, ln)))
    r = S.mk_enum(dty, "Ok", 0, [Sym(n, "usize")])
    r.discr = Sym(z3.If(okv, BV64(0), BV64(1)), "isize")
    st.events.append(("write", name, [args[2].t, ln, frame.body.name], r))
    return [(r, None)]


def h_std_sync(ex, st, frame, t, nf, args, dty):
    okv = z3.Bool(fresh_name("sync_ok"))
    r = S.mk_enum(dty, "Ok", 0, [UNIT])
    r.discr = Sym(z3.If(okv, BV64(0), BV64(1)), "isize")
    st.events.append(("sync", nf.rsplit("::", 1)[1], [frame.body.name], r))
    return [(r, None)]


FILE_SUMMARIES = BYTES_SUMMARIES + [
    (r"^<std::fs::File as (std::os::unix::fs::|std::os::unix::prelude::)?FileExt>::(write_all_at|write_at)$", h_std_write_all_at),
    (r"^std::fs::File::(sync_all|sync_data)$", h_std_sync),
]

INLINE_FILE = [r"^File::(size|synced_size|dirty_bytes|write_data|write_append_all|write_append_writable_data|write_all_at|fsyncdata)$"]


def _mk_ex(crate):
    ex = P.mk_executor(crate, cap=2, loop_bound=4, inline=INLINE_FILE, extra_summaries=FILE_SUMMARIES,
                       havoc=[r"^<impl WritableDataCreator as .*WritableDataCreator<R>>::len$"])
    ex.closure_runners = [re.compile(r"^File::(inplace_sync_call|background_sync_call)$")]
    return ex


def _size_of(crate, o, fc):
    f = o.mem[fc]
    inner = P.arc_payload(o, f.fields[(None, crate.field_index("File", "inner"))])
    return inner.fields[(None, crate.field_index("FileInner", "size"))].fields[(None, 7002)].t, \
        inner.fields[(None, crate.field_index("FileInner", "synced_size"))].fields[(None, 7002)].t


def append_all_only_appends(crate):
    """C07/C14/C11: File::write_append_all(buf): exactly one all-or-error write of the whole buffer at the old end of the
    file; the size counter advances by the buffer length, reserved inside the same closure that writes (so a dropped future
    never leaves a reserved-but-unwritten range once no closure runs); the write's result is returned; nothing below the
    old end is written."""
    res = P.ObResult("append_all_only_appends")
    fn = crate.method("File", "write_append_all")
    res.functions = ["File::write_append_all (async body) + both closures"]
    res.bounds = "one call, arbitrary size/synced counters (< 2^62) and buffer length (< 2^40), in-place or blocking-pool path, write may fail"
    ex = _mk_ex(crate)
    st = State()
    f, size0, synced0 = file_obj(crate, st, "f")
    fc = st.new_cell(f)
    blen = z3.BitVec("buf_len", 64)
    st.pc.append(z3.ULT(blen, BV64(1 << 40)))
    buf = mk_buf(blen)
    outs = P.drive_async(ex, st, fn, [Ref(fc, (), False, "&io::unix::sync::File"), buf])
    res.paths = len(outs)

    def per_path(o, isok, payload):
        writes = [e for e in o.events if e[0] == "write"]
        atom = [e for e in o.events if e[0] == "atomic"]
        size1, synced1 = _size_of(crate, o, fc)
        if len(writes) != 1:
            res.status = "violated"; res.detail = "%d write calls for one append" % len(writes); return False
        w = writes[0]
        if w[1] != "write_all_at":
            res.status = "violated"; res.detail = "append uses %s (may be short) instead of an all-or-error write" % w[1]; return False
        off, ln, wframe = w[2]
        if not P.prove(ex, res, o, z3.And(off == size0, ln == blen), "the write covers [old size, old size + len)"):
            return False
        if not P.prove(ex, res, o, z3.And(size1 == size0 + blen, synced1 == synced0), "size counter advanced by len; synced size untouched"):
            return False
        res_adds = [a for a in atom if a[1] == "fetch_add"]
        if len(res_adds) != 1 or res_adds[0][2][0] != wframe or "{closure#0}::{closure#" not in wframe:
            res.status = "violated"; res.detail = "offset reservation is not inside the closure that writes (%s vs %s)" % ([a[2][0][-40:] for a in res_adds], wframe[-40:]); return False
        if not P.prove(ex, res, o, isok == _ev_result_ok(ex, o, w), "result = result of the write"):
            return False
        P.cover(ex, res, o, isok, "appended")
        P.cover(ex, res, o, z3.Not(isok), "write failed")
        runs = [e for e in o.events if e[0] == "run_closure"]
        if runs and "background" in runs[0][1]:
            P.cover(ex, res, o, z3.BoolVal(True), "blocking-pool path")
        else:
            P.cover(ex, res, o, z3.BoolVal(True), "in-place path")
        return True

    _check_paths(ex, res, outs, per_path)
    return P.finish(ex, res, ["appended", "write failed", "blocking-pool path", "in-place path"])


def append_writable_only_appends(crate):
    """C07/C14/C11: File::write_append_writable_data(creator): the record is created for the offset reserved (fetch_add of
    creator.len()) inside the closure that writes it; Single: one all-or-error write at that offset; Double: two contiguous
    all-or-error writes, the second only after the first succeeded; any write error is returned."""
    res = P.ObResult("append_writable_only_appends")
    fn = crate.method("File", "write_append_writable_data")
    res.functions = ["File::write_append_writable_data (async body) + both closures", "File::write_data + closure"]
    res.bounds = "one call, arbitrary counters, Single or Double payload of arbitrary lengths, both paths, writes may fail"
    ex = _mk_ex(crate)
    st = State()
    f, size0, synced0 = file_obj(crate, st, "f")
    fc = st.new_cell(f)
    creator = Obj("impl WritableDataCreator<R>")
    WD = crate.enums["WritableData"]
    l1, l2 = z3.BitVec("len1", 64), z3.BitVec("len2", 64)
    st.pc.append(z3.And(z3.ULT(l1, BV64(1 << 40)), z3.ULT(l2, BV64(1 << 40))))
    wdk = z3.BitVec("writable_kind", 64)
    st.pc.append(z3.Or(wdk == BV64(WD["Single"]), wdk == BV64(WD["Double"])))

    def call_hook(ex_, st_, cname, args, dty):
        return None
    created = {}

    def creator_create(ex_, st_, frame, t, nf, args, dty):
        wd = Obj("io::WritableData")
        wd.discr = Sym(wdk, "isize")
        wd.fields[("Single", 0)] = mk_buf(l1)
        wd.fields[("Double", 0)] = mk_buf(l1)
        wd.fields[("Double", 1)] = mk_buf(l2)
        tup = Obj(dty)
        tup.fields[(None, 0)] = wd
        tup.fields[(None, 1)] = Obj("R")
        st_.events.append(("create", "creator.create", [args[1].t, frame.body.name], None))
        return [(tup, None)]
    ex.summaries.insert(0, (re.compile(r"^<impl WritableDataCreator as .*WritableDataCreator<R>>::create$"), creator_create))

    def creator_len(ex_, st_, frame, t, nf, args, dty):
        n = z3.BitVec(fresh_name("creator_len"), 64)
        st_.pc.append(z3.ULT(n, BV64(1 << 41)))      # realistic record sizes: no wrap-around in offset arithmetic
        return [(Sym(n, "u64"), None)]
    ex.summaries.insert(0, (re.compile(r"^<impl WritableDataCreator as .*WritableDataCreator<R>>::len$"), creator_len))
    outs = P.drive_async(ex, st, fn, [Ref(fc, (), False, "&io::unix::sync::File"), creator])
    res.paths = len(outs)

    def per_path(o, isok, payload):
        writes = [e for e in o.events if e[0] == "write"]
        atom = [e for e in o.events if e[0] == "atomic" and e[1] == "fetch_add"]
        creates = [e for e in o.events if e[0] == "create"]
        size1, synced1 = _size_of(crate, o, fc)
        if len(atom) != 1 or len(creates) != 1:
            res.status = "violated"; res.detail = "reservation / creation count: %d / %d" % (len(atom), len(creates)); return False
        total = atom[0][3].t
        if not P.prove(ex, res, o, z3.And(size1 == size0 + total, synced1 == synced0), "size counter advanced by creator.len()"):
            return False
        if not P.prove(ex, res, o, creates[0][2][0] == size0, "record created for the reserved offset (old end of file)"):
            return False
        if atom[0][2][0] != creates[0][2][1] or "{closure#0}::{closure#" not in atom[0][2][0]:
            res.status = "violated"; res.detail = "reservation is not inside the writing closure"; return False
        if not writes:
            res.status = "violated"; res.detail = "no write issued"; return False
        if any(w[1] != "write_all_at" for w in writes):
            res.status = "violated"; res.detail = "a possibly short write_at is used"; return False
        w0 = writes[0]
        if not P.prove(ex, res, o, z3.And(w0[2][0] == size0, w0[2][1] == l1), "first write at the reserved offset, whole first buffer"):
            return False
        ok0 = _ev_result_ok(ex, o, w0)
        if len(writes) == 1:
            if not P.prove(ex, res, o, z3.Or(wdk == BV64(WD["Single"]), z3.Not(ok0)), "single write only for Single payloads or after a failure"):
                return False
            if not P.prove(ex, res, o, isok == ok0, "result = result of the write"):
                return False
            P.cover(ex, res, o, z3.And(isok, wdk == BV64(WD["Single"])), "single buffer written")
            P.cover(ex, res, o, z3.And(z3.Not(ok0), wdk == BV64(WD["Double"])), "first of two writes failed")
        elif len(writes) == 2:
            w1 = writes[1]
            if not P.prove(ex, res, o, z3.And(wdk == BV64(WD["Double"]), ok0, w1[2][0] == size0 + l1, w1[2][1] == l2),
                           "second write contiguous, only after the first succeeded"):
                return False
            if not P.prove(ex, res, o, isok == _ev_result_ok(ex, o, w1), "result = result of the second write"):
                return False
            P.cover(ex, res, o, isok, "two buffers written")
            P.cover(ex, res, o, z3.Not(isok), "second write failed")
        else:
            res.status = "violated"; res.detail = "%d writes" % len(writes); return False
        return True

    _check_paths(ex, res, outs, per_path)
    return P.finish(ex, res, ["single buffer written", "two buffers written", "first of two writes failed", "second write failed"])


def open_flags_positional(crate):
    """C11/C07: the OpenOptions the io driver hands to File::from_file for blob files.  Every record is written with a
    positional write at the offset reserved from the size counter (append_all_only_appends), and pwrite(2) on an O_APPEND
    descriptor ignores that offset.  So neither IoDriver::open nor IoDriver::create may ask for append (or truncate); both
    ask for read and write; only create creates."""
    res = P.ObResult("open_flags_positional")
    res.functions = ["IoDriver::open setup closure", "IoDriver::create setup closure"]
    res.bounds = "loop-free; tokio::fs::OpenOptions builder calls recorded as events (flag name, constant)"
    ex = P.mk_executor(crate, cap=1, loop_bound=2, inline=[])
    seen = {}
    for which in ("open", "create"):
        body = crate.find(r"^io::unix::sync::<impl at [^>]*>::%s::\{closure#0\}::\{closure#0\}$" % which)
        MP.parse_body(body)
        st = State()

        def h_flag(ex_, st_, frame, t, nf, args, dty):
            v = args[1]
            st_.events.append(("openopt", nf.rsplit("::", 1)[1], v.t if isinstance(v, Sym) else None))
            return [(args[0], None)]
        ex.summaries.insert(0, (re.compile(r"^tokio::fs::OpenOptions::\w+$"), h_flag))
        env = st.new_cell(Obj(body.args[0][1].lstrip("&")))
        oo = st.new_cell(Obj("tokio::fs::OpenOptions"))
        ex.push_frame(st, body, [Ref(env, (), False, body.args[0][1]), Ref(oo, (), True, "&mut tokio::fs::OpenOptions")], None, None)
        outs = [o for o in ex.run(st) if o.status == "returned"]
        ex.summaries.pop(0)
        res.paths += len(outs)
        if len(outs) != 1:
            res.status = "inconclusive"; res.detail = "%s setup closure: %d paths" % (which, len(outs)); break
        o = outs[0]
        flags = {}
        for e in o.events:
            if e[0] != "openopt":
                continue
            if e[2] is None or not (z3.is_true(z3.simplify(e[2])) or z3.is_false(z3.simplify(e[2]))):
                res.status = "inconclusive"; res.detail = "non-constant flag %s" % e[1]; break
            flags[e[1]] = z3.is_true(z3.simplify(e[2]))
        if res.status != "holds":
            break
        seen[which] = flags
        want = {"append": False, "truncate": False, "read": True, "write": True, "create_new": False,
                "create": which == "create"}
        for k, v in want.items():
            if flags.get(k, False) != v:
                res.status = "violated"
                res.detail = "IoDriver::%s opens blob files with %s(%s): %s" % (
                    which, k, str(flags.get(k, False)).lower(),
                    "positional writes are ignored on an append-mode descriptor" if k == "append" else "expected %s" % v)
                res.counterexample = {"function": "IoDriver::%s" % which, "flags": flags}
                break
        if res.status != "holds":
            break
        extra = set(flags) - set(want)
        if extra:
            res.status = "inconclusive"; res.detail = "unmodelled OpenOptions flag(s) %s" % sorted(extra); break
        P.cover(ex, res, o, z3.BoolVal(True), "%s flags read" % which)
    return P.finish(ex, res, ["open flags read", "create flags read"] if res.status == "holds" else [])


def h_std_read_exact_at(ex, st, frame, t, nf, args, dty):
    """<std::fs::File as FileExt>::read_exact_at(file, &mut buf, offset): one event; arbitrary outcome; the error is a
    tagged object so that its way to the caller can be followed."""
    b = S.deref_val(ex, st, args[1])
    ln = b.len.t if isinstance(b, VecV) else _buf(ex, st, args[1]).fields[("g", "len")].t
    okv = z3.Bool(fresh_name("rd_ok"))
    r = S.mk_enum(dty, "Ok", 0, [UNIT])
    r.discr = Sym(z3.If(okv, BV64(0), BV64(1)), "isize")
    e = Obj("std::io::Error"); e.fields[("g", "os_error")] = Sym(BV64(len(st.events) + 1), "u64")
    r.fields[("Err", 0)] = e
    st.events.append(("read", "read_exact_at", [args[2].t, ln, frame.body.name], r))
    return [(r, None)]


def read_exact_passes_through(crate):
    """C06/C03/C16: File::read_exact_at / read_exact_at_allocate ask the OS exactly once for exactly [offset, offset+len)
    and return its verdict unchanged: Ok with the buffer iff the read succeeded, otherwise the OS error itself.  (Callers
    classify a short file by the kind of that error - UnexpectedEof becomes "corrupted / torn" - so the File layer must not
    answer in its place, e.g. refuse a read past its own size counter with a different error.)"""
    res = P.ObResult("read_exact_passes_through")
    res.functions = ["File::read_exact_at (async body) + both closures", "File::read_exact_at_allocate (async body)"]
    res.bounds = "one call each, arbitrary offset / length (< 2^40) / size counters, in-place or blocking-pool path, read may fail"
    for which in ("read_exact_at", "read_exact_at_allocate"):
        ex = P.mk_executor(crate, cap=2, loop_bound=4, inline=[r"^File::(size|read_exact_at)$"],
                           extra_summaries=FILE_SUMMARIES + [(r"^<std::fs::File as (std::os::unix::fs::|std::os::unix::prelude::)?FileExt>::read_exact_at$", h_std_read_exact_at)])
        ex.closure_runners = [re.compile(r"^File::(inplace_sync_call|background_sync_call)$")]
        st = State()
        f, size0, synced0 = file_obj(crate, st, "f")
        fc = st.new_cell(f)
        blen, off = z3.BitVec("len", 64), z3.BitVec("offset", 64)
        st.pc.append(z3.ULT(blen, BV64(1 << 40)))
        fn = crate.method("File", which)
        if which == "read_exact_at":
            args = [Ref(fc, (), False, "&io::unix::sync::File"), mk_buf(blen), Sym(off, "u64")]
        else:
            args = [Ref(fc, (), False, "&io::unix::sync::File"), Sym(blen, "usize"), Sym(off, "u64")]
        outs = P.drive_async(ex, st, fn, args)
        res.paths += len(outs)

        def per_path(o, isok, payload):
            reads = [e for e in o.events if e[0] == "read"]
            if len(reads) != 1:
                if ex.feasible(o, z3.BoolVal(True)):
                    res.status = "violated"
                    res.detail = "%s: %d reads issued for one request (the File layer answered itself: %s)" % (
                        which, len(reads), "Ok" if not ex.feasible(o, z3.Not(isok)) else "Err")
                    m = ex.model(o, z3.BoolVal(True)) if hasattr(ex, "model") else None
                    return False
                return True
            r = reads[0]
            o_, l_, _fr = r[2]
            if not P.prove(ex, res, o, z3.And(o_ == off, l_ == blen), "%s: reads [offset, offset+len)" % which):
                return False
            if not P.prove(ex, res, o, isok == _ev_result_ok(ex, o, r), "%s: Ok iff the read succeeded" % which):
                return False
            errp = payload.fields.get(("Err", 0)) if isinstance(payload, Obj) else None
            if ex.feasible(o, z3.Not(isok)):
                if not (isinstance(errp, Obj) and ("g", "os_error") in errp.fields):
                    res.status = "violated"; res.detail = "%s: the error returned is not the OS error of the read" % which; return False
                P.cover(ex, res, o, z3.Not(isok), "%s: read failed" % which)
            P.cover(ex, res, o, z3.And(isok, z3.UGT(off, size0)), "%s: read beyond the size counter passed to the OS" % which)
            return True
        if not _check_paths(ex, res, outs, per_path):
            break
    need = ["%s: %s" % (w, c) for w in ("read_exact_at", "read_exact_at_allocate") for c in ("read failed", "read beyond the size counter passed to the OS")]
    return P.finish(ex, res, need)
