"""Obligations on the per-blob read path (Blob::get_latest_entry / get_entry_with_meta / filter_entries) — C01, C02, C10."""
import re
import z3
from .symex import State, Sym, Obj, VecV, Ref, Unsupported, fresh_name
from . import pearl as P
from . import summaries as S
from .pearl import BV64
from .ob_blob import _check_paths, idx


def blob_latest_dispatch(crate):
    """C01/C10: Blob::get_latest_entry: NotFound is answered without looking at the index only when filters were asked
    for AND the blob's filter said NotContains; otherwise the index is consulted — by get_latest (no meta) whose answer
    is returned (Found carries an entry built from exactly the header the index returned), or by get_entry_with_meta (meta
    given) whose answer is returned; index errors are returned."""
    res = P.ObResult("blob_latest_dispatch")
    fn = crate.method("Blob", "get_latest_entry")
    res.functions = ["Blob::get_latest_entry (async body) + closures"]
    res.bounds = "one call, meta given or not, filters on or off, every filter / index answer"
    ex = P.mk_executor(crate, cap=2, loop_bound=4, inline=[r"^ReadResult::map$", r"^<FilterResult as PartialEq>::eq$", r"^Entry::new$"], havoc=[r"^<.* as Clone>::clone$"])
    st = State()
    blob = Obj("blob::core::Blob<K>")
    bc = st.new_cell(blob)
    key = Ref(st.new_cell(Obj("K")), (), False, "&K")
    meta = Obj("std::option::Option<&record::record::Meta>")
    mp = z3.BitVec("meta_given", 64)
    st.pc.append(z3.Or(mp == BV64(0), mp == BV64(1)))
    meta.discr = Sym(mp, "isize")
    meta.fields[("Some", 0)] = Ref(st.new_cell(Obj("record::record::Meta")), (), False, "&record::record::Meta")
    cf = z3.Bool("check_filters")
    FR = crate.enums["FilterResult"]
    RR = crate.enums["ReadResult"]

    def hook(ex_, st_, name, fargs, out_ty, dty):
        if name.endswith("IndexTrait>::get_latest") or name.endswith("::get_latest"):
            r = ex_.fresh(out_ty, st_, "idx")
            rr = ex_._get_field(st_, r, "Ok", 0, "ReadResult<Header>")
            h = ex_._get_field(st_, rr, "Found", 0, "record::record::Header")
            P.hdrl(crate, ex_, st_, h, "seq")
            st_.events.append(("await", name, fargs, r))
            return [(S.poll_ready(dty, r), None)]
        return None
    ex.await_hook = hook
    outs = P.drive_async(ex, st, fn, [Ref(bc, (), False, "&blob::core::Blob<K>"), key, meta, Sym(cf, "bool")])
    res.paths = len(outs)

    def per_path(o, isok, payload):
        evs = [e for e in P.events_of(o) if e[0] == "await"]
        flt = [e for e in evs if e[1].endswith("check_filter")]
        gl = [e for e in evs if e[1].endswith("get_latest")]
        gm = [e for e in evs if e[1].endswith("get_entry_with_meta")]
        notc = z3.BoolVal(False)
        if flt:
            notc = ex.get_discr(o, flt[0][3]).t == BV64(FR["NotContains"])
            if not P.prove(ex, res, o, cf, "the filter is consulted only when asked for"):
                return False
        filtered = z3.And(cf, notc)
        if not gl and not gm:
            if not P.prove(ex, res, o, filtered, "the index is skipped only when the filter says NotContains"):
                return False
            rr = payload.fields.get(("Ok", 0))
            if rr is None or not P.prove(ex, res, o, z3.And(isok, ex.get_discr(o, rr).t == BV64(RR["NotFound"])), "filtered out: NotFound"):
                return False
            P.cover(ex, res, o, z3.BoolVal(True), "filtered out")
            return True
        if not P.prove(ex, res, o, z3.Not(filtered), "a key the filter excludes is not looked up"):
            return False
        if gm:
            if not P.prove(ex, res, o, z3.And(mp == BV64(1), z3.BoolVal(not gl)), "meta given: the meta-aware lookup is used"):
                return False
            r = gm[0][3]
            if not P.prove(ex, res, o, isok == (ex.get_discr(o, r).t == BV64(0)), "its result (or error) is returned"):
                return False
            rr = payload.fields.get(("Ok", 0))
            inner = ex._get_field(o, r, "Ok", 0, "ReadResult<Entry>")
            if rr is not None and not P.prove(ex, res, o, z3.Implies(isok, ex.get_discr(o, rr).t == ex.get_discr(o, inner).t), "same classification"):
                return False
            P.cover(ex, res, o, isok, "meta lookup answered")
            return True
        if not P.prove(ex, res, o, mp == BV64(0), "no meta: the index's latest header is used"):
            return False
        r = gl[0][3]
        r_ok = ex.get_discr(o, r).t == BV64(0)
        if not P.prove(ex, res, o, isok == r_ok, "index error is returned"):
            return False
        rr = payload.fields.get(("Ok", 0))
        if rr is not None:
            src = ex._get_field(o, r, "Ok", 0, "ReadResult<Header>")
            if not P.prove(ex, res, o, z3.Implies(isok, ex.get_discr(o, rr).t == ex.get_discr(o, src).t), "Found / Deleted / NotFound as the index said"):
                return False
            ent = rr.fields.get(("Found", 0))
            if isinstance(ent, Obj):
                eh = ent.fields.get((None, crate.field_index("Entry", "header")))
                sh = ex._get_field(o, src, "Found", 0, "record::record::Header")
                if isinstance(eh, Obj):
                    if not P.prove(ex, res, o, z3.Implies(z3.And(isok, ex.get_discr(o, rr).t == BV64(RR["Found"])), P.hdrl(crate, ex, o, eh, "seq") == P.hdrl(crate, ex, o, sh, "seq")),
                                   "the entry is built from the header the index returned"):
                        return False
                    P.cover(ex, res, o, z3.And(isok, ex.get_discr(o, rr).t == BV64(RR["Found"])), "found")
            dsrc = ex._get_field(o, src, "Deleted", 0, "BlobRecordTimestamp")
            ddst = rr.fields.get(("Deleted", 0))
            if isinstance(ddst, Obj) and isinstance(dsrc, Obj):
                a = ex._get_field(o, dsrc, None, 0, "u64").t
                b = ex._get_field(o, ddst, None, 0, "u64").t
                if not P.prove(ex, res, o, z3.Implies(z3.And(isok, ex.get_discr(o, rr).t == BV64(RR["Deleted"])), a == b), "Deleted keeps the marker's timestamp"):
                    return False
        return True
    _check_paths(ex, res, outs, per_path)
    return P.finish(ex, res, ["filtered out", "meta lookup answered", "found"])


def blob_meta_lookup(crate, L=3):
    """C02: Blob::get_entry_with_meta + filter_entries: the key's headers (newest first, cut after the first marker) are
    scanned in order WITHOUT the trailing marker; the first entry whose loaded metadata equals the requested one is
    returned as Found; if none matches the answer is Deleted(marker's timestamp) when the list ended in a marker, else
    NotFound; a metadata load error is returned."""
    res = P.ObResult("blob_meta_lookup[L<=%d]" % L)
    fn = crate.method("Blob", "get_entry_with_meta")
    res.functions = ["Blob::get_entry_with_meta (async body) + closures", "Blob::filter_entries (async body)", "Blob::headers_to_entries"]
    res.bounds = "<= %d headers returned by the index for the key, arbitrary flags, every outcome of loading / comparing metadata" % L
    from . import iters as IT
    n = z3.BitVec("headers", 64)
    hs = [P.mk_header(crate, "h%d" % i) for i in range(L)]
    match = [z3.Bool("meta_equal_%d" % i) for i in range(L)]

    def h_meta_eq(ex_, st_, frame, t, nf, args, dty):
        i = len([e for e in st_.events if e[0] == "metacmp"])
        st_.events.append(("metacmp", nf, i, None))
        if i >= L:
            raise Unsupported("more metadata comparisons than entries")
        return [(Sym(match[i] if nf.endswith("::eq") else z3.Not(match[i]), "bool"), None)]
    ex = P.mk_executor(crate, cap=L + 1, loop_bound=L + 2, inline=[r"^Blob::(filter_entries|headers_to_entries)$", r"^Blob::headers_to_entries::\{closure#0\}$", r"^Entry::new$",
                                                                   r"^Header::(is_deleted|timestamp)$", r"^BlobRecordTimestamp::new$"],
                       extra_summaries=[(r"^<(std::option::)?Option(<.*>)? as PartialEq(<.*>)?>::(eq|ne)$", h_meta_eq)],
                       havoc=[r"^<.* as Clone>::clone$"])
    st = State()
    st.pc.append(z3.ULE(n, BV64(L)))

    def hook(ex_, st_, name, fargs, out_ty, dty):
        if name.endswith("get_all_with_deletion_marker"):
            r = ex_.fresh(out_ty, st_, "hdrs")
            r.fields[("Ok", 0)] = VecV(P.HEADER_TY, L, Sym(n, "usize"), list(hs))
            st_.events.append(("await", name, fargs, r))
            return [(S.poll_ready(dty, r), None)]
        return None
    ex.await_hook = hook
    blob = Obj("blob::core::Blob<K>")
    bc = st.new_cell(blob)
    key = Ref(st.new_cell(Obj("K")), (), False, "&K")
    meta = Ref(st.new_cell(Obj("record::record::Meta")), (), False, "&record::record::Meta")
    outs = P.drive_async(ex, st, fn, [Ref(bc, (), False, "&blob::core::Blob<K>"), key, meta])
    res.paths = len(outs)
    RR = crate.enums["ReadResult"]
    dels = [P.hdr(crate, h, "flags") & 1 == 1 for h in hs]
    last_del = z3.BoolVal(False)
    last_ts = BV64(0)
    for i in range(L):
        last_del = z3.If(n == BV64(i + 1), dels[i], last_del)
        last_ts = z3.If(n == BV64(i + 1), P.hdr(crate, hs[i], "timestamp"), last_ts)
    cand = z3.If(last_del, n - 1, n)      # number of candidates (without the trailing marker)

    def per_path(o, isok, payload):
        loads = [e for e in P.events_of(o) if e[0] == "await" and e[1].endswith("Entry::load_meta")]
        cmps = [e for e in o.events if e[0] == "metacmp"]
        src = [e for e in P.events_of(o) if e[0] == "await" and e[1].endswith("get_all_with_deletion_marker")]
        if src and not P.prove(ex, res, o, z3.Implies(ex.get_discr(o, src[0][3]).t != BV64(0), z3.Not(isok)), "index error is returned"):
            return False
        if not P.prove(ex, res, o, z3.ULE(BV64(len(loads)), cand), "only entries before the trailing marker are examined"):
            return False
        for i, e in enumerate(loads[:-1]):
            if not P.prove(ex, res, o, z3.And(ex.get_discr(o, e[3]).t == BV64(0), z3.Not(match[i])), "the scan goes on only past entries whose metadata loaded and differs"):
                return False
        P.cover(ex, res, o, z3.And(z3.Not(isok), z3.BoolVal(len(loads) >= 1)), "load error")
        rr = payload.fields.get(("Ok", 0))
        if rr is None:
            return True
        d = ex.get_discr(o, rr).t
        k = len(cmps)
        found_here = match[k - 1] if k >= 1 and k == len(loads) else z3.BoolVal(False)
        if not P.prove(ex, res, o, z3.Implies(isok, (d == BV64(RR["Found"])) == found_here), "Found iff the last examined entry's metadata equals the requested one"):
            return False
        if not P.prove(ex, res, o, z3.Implies(z3.And(isok, d != BV64(RR["Found"])), BV64(len(loads)) == cand), "not Found only after every candidate was examined"):
            return False
        if not P.prove(ex, res, o, z3.Implies(z3.And(isok, d != BV64(RR["Found"])), (d == BV64(RR["Deleted"])) == last_del), "no match: Deleted iff the list ended in a marker, else NotFound"):
            return False
        ent = rr.fields.get(("Found", 0))
        if isinstance(ent, Obj) and k >= 1:
            eh = ent.fields.get((None, crate.field_index("Entry", "header")))
            if isinstance(eh, Obj):
                if not P.prove(ex, res, o, z3.Implies(z3.And(isok, d == BV64(RR["Found"])), P.hdrl(crate, ex, o, eh, "seq") == P.hdr(crate, hs[k - 1], "seq")),
                               "the entry returned is the one that matched (list order = newest first)"):
                    return False
        dt = rr.fields.get(("Deleted", 0))
        if isinstance(dt, Obj):
            tsf = ex._get_field(o, dt, None, 0, "u64").t
            if not P.prove(ex, res, o, z3.Implies(z3.And(isok, d == BV64(RR["Deleted"])), tsf == last_ts), "Deleted carries the marker's timestamp"):
                return False
        P.cover(ex, res, o, z3.And(isok, d == BV64(RR["Found"]), z3.BoolVal(k >= 2)), "second candidate matched")
        P.cover(ex, res, o, z3.And(isok, d == BV64(RR["Deleted"]), n == BV64(L)), "no match, ends in a marker")
        P.cover(ex, res, o, z3.And(isok, d == BV64(RR["NotFound"]), n == BV64(L)), "no match, no marker")
        return True
    _check_paths(ex, res, outs, per_path)
    return P.finish(ex, res, ["second candidate matched", "no match, ends in a marker", "no match, no marker", "load error"])


def storage_read_glue(crate):
    """C01: Storage::read_with_optional_meta and contains_with around get_latest_entry (latest_entry_fold): the answer has the
    kind of the winning entry - Found is answered with the bytes loaded from THAT entry (Entry::load, whose audit C05
    decides), Deleted with the marker's timestamp, NotFound as is; contains answers the same kind with the entry's own
    timestamp; an error of the lookup or of the load is returned, never turned into NotFound."""
    res = P.ObResult("storage_read_glue")
    res.functions = ["Storage::read_with_optional_meta (async body)", "Storage::contains_with (async body)", "ReadResult::map"]
    res.bounds = "one call each; every outcome of get_latest_entry / Entry::load"
    RR = crate.enums["ReadResult"]
    tq = ts_ = 0
    for which in ("read_with_optional_meta", "contains_with"):
        ex = P.mk_executor(crate, cap=2, loop_bound=3, inline=[r"^ReadResult::map$"], havoc=[r"^Record::into_data$", r"^Entry::timestamp$", r"^(bytes::)?Bytes::len$"])
        st = State()
        sc = st.new_cell(Obj("storage::core::Storage<K>"))
        kind = z3.BitVec("latest_kind", 64)
        st.pc.append(z3.ULE(kind, BV64(2)))
        del_ts = z3.BitVec("marker_ts", 64)

        def hook(ex_, st_, name, fargs, out_ty, dty):
            if name.endswith("get_latest_entry"):
                r = Obj(out_ty)
                r.discr = Sym(z3.If(z3.Bool("lookup_ok"), BV64(0), BV64(1)), "isize")
                rr = Obj(S.generic_args(out_ty)[0])
                rr.discr = Sym(kind, "isize")
                e = Obj("blob::entry::Entry"); e.fields[("ghost", "id")] = Sym(BV64(31), "u64")
                rr.fields[("Found", 0)] = e
                t = Obj("storage::core::BlobRecordTimestamp"); t.fields[(None, 0)] = Sym(del_ts, "u64")
                rr.fields[("Deleted", 0)] = t
                r.fields[("Ok", 0)] = rr
                st_.events.append(("await", name, fargs, r))
                return [(S.poll_ready(dty, r), None)]
            if name.endswith("Entry::load"):
                r = ex_.fresh(out_ty, st_, "loaded")
                st_.events.append(("await", name, fargs, r))
                return [(S.poll_ready(dty, r), None)]
            return None
        ex.await_hook = hook

        def call_hook(ex_, st_, cname, args, dty):
            if cname == "Record::into_data":
                b = Obj(dty); b.fields[("ghost", "data_of")] = args[0]
                st_.events.append(("call", cname, args, b))
                return [(b, None)]
            if cname == "Entry::timestamp":
                e = S.deref_val(ex_, st_, args[0])
                t = Obj(dty); t.fields[(None, 0)] = Sym(z3.BitVec("entry_ts", 64), "u64")
                st_.events.append(("call", cname, [e], t))
                return [(t, None)]
            return None
        ex.call_hook = call_hook
        fn = crate.method("Storage", which)
        key = Ref(st.new_cell(Obj("K")), (), False, "&K")
        outs = P.drive_async(ex, st, fn, [Ref(sc, (), False, "&storage::core::Storage<K>"), key, Obj("std::option::Option<&record::record::Meta>")])
        res.paths += len(outs)

        def per_path(o, isok, payload):
            evs = P.events_of(o)
            look = [e for e in evs if e[0] == "await" and e[1].endswith("get_latest_entry")]
            if len(look) != 1:
                res.status = "violated"; res.detail = "%s: %d lookups" % (which, len(look)); return False
            l_ok = z3.Bool("lookup_ok")
            if not P.prove(ex, res, o, z3.Implies(z3.Not(l_ok), z3.Not(isok)), "%s: a failed lookup fails the call" % which):
                return False
            loads = [e for e in evs if e[0] == "await" and e[1].endswith("Entry::load")]
            out = payload.fields.get(("Ok", 0)) if isinstance(payload, Obj) else None
            if out is None:
                return True
            okind = ex.get_discr(o, out).t
            if not P.prove(ex, res, o, z3.Implies(isok, okind == kind), "%s: the answer has the kind of the winning entry" % which):
                return False
            if which == "read_with_optional_meta":
                if loads:
                    ent = S.deref_val(ex, o, loads[0][2][0]) if isinstance(loads[0][2][0], Ref) else loads[0][2][0]
                    if not (isinstance(ent, Obj) and ("ghost", "id") in ent.fields):
                        res.status = "violated"; res.detail = "bytes are loaded from another entry than the winner"; return False
                    ld_ok = ex.get_discr(o, loads[0][3]).t == BV64(0)
                    if not P.prove(ex, res, o, z3.Implies(z3.Not(ld_ok), z3.Not(isok)), "read: a failed load fails the call"):
                        return False
                if not P.prove(ex, res, o, z3.Implies(z3.And(isok, kind == BV64(RR["Found"])), z3.BoolVal(len(loads) == 1)), "read: Found => the entry's bytes were loaded"):
                    return False
                if ex.feasible(o, z3.And(isok, kind == BV64(RR["Found"]))):
                    b = out.fields.get(("Found", 0))
                    src = b.fields.get(("ghost", "data_of")) if isinstance(b, Obj) else None
                    rec = loads[0][3].fields.get(("Ok", 0)) if loads else None
                    if src is None or rec is None or getattr(src, "oid", 1) != getattr(rec, "oid", 2):
                        res.status = "violated"; res.detail = "read: the bytes returned are not the data of the record that was loaded"; return False
                    P.cover(ex, res, o, z3.And(isok, kind == BV64(RR["Found"])), "read: found")
            else:
                if ex.feasible(o, z3.And(isok, kind == BV64(RR["Found"]))):
                    t = out.fields.get(("Found", 0))
                    tv = t.fields.get((None, 0)) if isinstance(t, Obj) else None
                    if tv is None or not P.prove(ex, res, o, z3.Implies(z3.And(isok, kind == BV64(RR["Found"])), tv.t == z3.BitVec("entry_ts", 64)), "contains: Found carries the entry's timestamp"):
                        if res.status == "holds":
                            res.status = "violated"; res.detail = "contains: Found without the entry's timestamp"
                        return False
                    P.cover(ex, res, o, z3.And(isok, kind == BV64(RR["Found"])), "contains: found")
            if ex.feasible(o, z3.And(isok, kind == BV64(RR["Deleted"]))):
                t = out.fields.get(("Deleted", 0))
                tv = t.fields.get((None, 0)) if isinstance(t, Obj) else None
                if tv is None or not P.prove(ex, res, o, z3.Implies(z3.And(isok, kind == BV64(RR["Deleted"])), tv.t == del_ts), "%s: Deleted carries the marker's timestamp" % which):
                    if res.status == "holds":
                        res.status = "violated"; res.detail = "%s: Deleted without the marker's timestamp" % which
                    return False
                P.cover(ex, res, o, z3.And(isok, kind == BV64(RR["Deleted"])), "%s: deleted" % which.split("_")[0])
            P.cover(ex, res, o, z3.And(isok, kind == BV64(RR["NotFound"])), "%s: not found" % which.split("_")[0])
            return True
        if not _check_paths(ex, res, outs, per_path):
            break
        tq += ex.queries; ts_ += ex.solver_s
    r = P.finish(ex, res, ["read: found", "read: deleted", "read: not found", "contains: found", "contains: deleted", "contains: not found"])
    r.queries, r.solver_s = max(tq, r.queries), max(ts_, r.solver_s)
    return r
