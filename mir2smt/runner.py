#!/usr/bin/env python3-vt
"""Runs Engine-M obligations (in the tooling venv: needs the z3 python API). usage: runner.py spec.json"""
import sys, os, json, time, importlib, traceback
sys.path.insert(0, os.path.dirname(os.path.dirname(os.path.abspath(__file__))))
from mir2smt import pearl as P
from mir2smt.symex import Unsupported
from mir2smt.mirparse import MirParseError


def model_to_json(m):
    if m is None:
        return None
    out = {}
    for d in m.decls():
        try:
            v = m[d]
            out[d.name()] = v.as_long() if hasattr(v, "as_long") else str(v)
        except Exception:
            out[d.name()] = str(m[d])
    return out


def main():
    spec = json.load(open(sys.argv[1]))
    crate = P.Crate(open(spec["mir"]).read(), spec["src_root"])
    os.makedirs(spec["smt_dir"], exist_ok=True)
    results = []
    for ob in spec["obligations"]:
        t0 = time.time()
        rec = {"name": ob["name"], "module": ob["module"], "func": ob["func"], "kwargs": ob.get("kwargs", {})}
        try:
            mod = importlib.import_module("mir2smt." + ob["module"])
            r = getattr(mod, ob["func"])(crate, **ob.get("kwargs", {}))
            rec.update({"status": r.status, "detail": r.detail, "queries": r.queries, "solver_s": round(r.solver_s, 3),
                        "paths": r.paths, "covers": r.covers, "functions": r.functions, "bounds": r.bounds,
                        "summaries": r.summaries, "havoc": r.havoc, "inlined": r.inlined,
                        "model": model_to_json(r.model), "label": r.name,
                        "finding_key": getattr(r, "finding_key", None),
                        "replay": getattr(r, "replay", None)})
            files, exp = [], []
            keep = r.smt2[-40:] if r.status == "holds" else r.smt2[-3:]
            for i, (label, txt, expected) in enumerate(keep):
                f = os.path.join(spec["smt_dir"], "%s_%03d.smt2" % (ob["name"], i))
                with open(f, "w") as fh:
                    fh.write(txt)
                files.append(f)
                exp.append(expected if r.status == "holds" or i < len(keep) - 1 else "sat")
            rec["smt_files"], rec["smt_expected"] = files, exp
            rec["deciding_queries"] = len(r.smt2)
        except (Unsupported, MirParseError) as e:
            rec.update({"status": "inconclusive", "detail": "unsupported: %s" % str(e)[:300]})
        except Exception as e:
            rec.update({"status": "inconclusive", "detail": "engine error: %s" % traceback.format_exc()[-600:]})
        rec["wall_s"] = round(time.time() - t0, 2)
        results.append(rec)
        with open(spec["out"] + ".tmp", "w") as fh:
            json.dump(results, fh, indent=1)
        os.replace(spec["out"] + ".tmp", spec["out"])


if __name__ == "__main__":
    main()
