#!/usr/bin/env python3-vt
"""Runs Engine-M obligations (in the tooling venv: needs the z3 python API). usage: runner.py spec.json"""
import sys, os, json, time, importlib, traceback
sys.path.insert(0, os.path.dirname(os.path.dirname(os.path.abspath(__file__))))
from mir2smt import pearl as P
from mir2smt.symex import Unsupported
from mir2smt.mirparse import MirParseError


def model_to_json(m):
    if m is None:
        return None
    out = {}
    for d in m.decls():
        try:
            v = m[d]
            out[d.name()] = v.as_long() if hasattr(v, "as_long") else str(v)
        except Exception:
            out[d.name()] = str(m[d])
    return out


def main():
    spec = json.load(open(sys.argv[1]))
    crate = P.Crate(open(spec["mir"]).read(), spec["src_root"])
    os.makedirs(spec["smt_dir"], exist_ok=True)
    results = []
    for ob in spec["obligations"]:
        t0 = time.time()
        rec = {"name": ob["name"], "module": ob["module"], "func": ob["func"], "kwargs": ob.get("kwargs", {})}
        try:
            mod = importlib.import_module("mir2smt." + ob["module"])
            P.CURRENT_OB = "%s.%s" % (ob["module"], ob["func"])
            del P.ALL_EXECUTORS[:]
            r = getattr(mod, ob["func"])(crate, **ob.get("kwargs", {}))
            rec["opaque_crate_callees"] = sorted(set().union(*[e.opaque_seen for e in P.ALL_EXECUTORS])) if P.ALL_EXECUTORS else []
            rec["frame_assumptions_checked"] = any(e.opaque_expected is not None for e in P.ALL_EXECUTORS)
            rec.update({"status": r.status, "detail": r.detail, "queries": r.queries, "solver_s": round(r.solver_s, 3),
                        "paths": r.paths, "covers": r.covers, "functions": r.functions, "bounds": r.bounds,
                        "summaries": r.summaries, "havoc": r.havoc, "inlined": r.inlined,
                        "model": model_to_json(r.model), "label": r.name,
                        "finding_key": getattr(r, "finding_key", None),
                        "replay": getattr(r, "replay", None)})
            files, exp = [], []
            if r.status == "holds":
                keep = r.smt2[-40:]
            else:
                # the refuted claim's query (expected sat) and the two decided before it
                sat_ix = [i for i, q in enumerate(r.smt2) if q[2] == "sat"]
                last = sat_ix[-1] if sat_ix else len(r.smt2) - 1
                keep = r.smt2[max(0, last - 2):last + 1]
            for i, (label, txt, expected) in enumerate(keep):
                f = os.path.join(spec["smt_dir"], "%s_%03d.smt2" % (ob["name"], i))
                with open(f, "w") as fh:
                    fh.write(txt)
                files.append(f)
                exp.append(expected)
            rec["smt_files"], rec["smt_expected"] = files, exp
            rec["deciding_queries"] = len(r.smt2)
        except (Unsupported, MirParseError) as e:
            rec.update({"status": "inconclusive", "detail": "unsupported: %s" % str(e)[:300]})
        except Exception as e:
            rec.update({"status": "inconclusive", "detail": "engine error: %s" % traceback.format_exc()[-600:]})
        rec["wall_s"] = round(time.time() - t0, 2)
        results.append(rec)
        with open(spec["out"] + ".tmp", "w") as fh:
            json.dump(results, fh, indent=1)
        os.replace(spec["out"] + ".tmp", spec["out"])


if __name__ == "__main__":
    main()
