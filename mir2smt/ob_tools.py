"""Obligations on src/tools/: recovery writer offsets, reader end-of-file test, migration (C16)."""
import re
import z3
from .symex import State, Sym, Obj, VecV, Ref, FnItem, UNIT, Unsupported, fresh_name
from . import pearl as P
from . import summaries as S
from .pearl import BV64
from .ob_blob import idx, _ev_result_ok
from .ob_record import BYTES_SUMMARIES, mk_buf, _buf

INLINE_TOOLS = [r"^Header::(blob_offset|data_size|meta_size|timestamp|is_deleted)$", r"^BlobReader::is_eof$",
                r"^Record::(migrate|mirgate_v0_to_v1)$", r"^BlobWriter::written$"]


def _sync_run(ex, st, body, args):
    ex.push_frame(st, body, args, None, None)
    return ex.run(st)


def recover_addressable(crate):
    """C16: BlobWriter::write_record: the header that is serialized into the output carries blob_offset = the position
    it is written at (so the storage, which reads at header.blob_offset, can address the record), with the header checksum
    recomputed after the offset changed; `written` advances by header + meta + data length."""
    res = P.ObResult("recover_addressable")
    res.finding_key = "recovery-copies-stale-blob_offset"
    fn = crate.method("BlobWriter", "write_record")
    res.functions = ["BlobWriter::write_record", "RecordHeader::blob_offset"]
    res.bounds = "one record, arbitrary source offset and writer position (< 2^40), every outcome of the serializers / writes"
    ex = P.mk_executor(crate, cap=2, loop_bound=4, inline=INLINE_TOOLS, extra_summaries=BYTES_SUMMARIES,
                       havoc=[r"^<std::fs::File as std::io::(Write|Seek|Read)>::"])
    st = State()
    w = Obj("tools::blob_writer::BlobWriter")
    written0 = z3.BitVec("writer_written", 64)
    st.pc.append(z3.ULT(written0, BV64(1 << 40)))
    w.fields[(None, crate.field_index("BlobWriter", "written"))] = Sym(written0, "u64")
    cache = Obj("std::option::Option<std::vec::Vec<record::record::Record>>")
    cache.discr = Sym(BV64(0), "isize")
    w.fields[(None, crate.field_index("BlobWriter", "cache"))] = cache
    wc = st.new_cell(w)
    rec = Obj("record::record::Record")
    h = P.mk_header(crate, "src")
    st.pc.append(z3.ULT(P.hdr(crate, h, "blob_offset"), BV64(1 << 40)))
    rec.fields[(None, crate.field_index("Record", "header"))] = h
    dlen = z3.BitVec("data_len", 64)
    st.pc.append(z3.ULT(dlen, BV64(1 << 40)))
    rec.fields[(None, crate.field_index("Record", "data"))] = mk_buf(dlen)

    def hook(ex_, st_, cname, args, dty):
        if cname == "Header::with_blob_offset":
            nh = Obj(P.HEADER_TY)
            src = args[0]
            nh.fields = dict(src.fields)
            hf = P.record_header_fields(crate)
            nh.fields[(None, hf["blob_offset"])] = args[1]
            nh.fields[(None, hf["header_checksum"])] = Sym(z3.BitVec(fresh_name("recomputed_crc"), 32), "u32")
            nh.fields[("ghost", 1)] = Sym(z3.BoolVal(True), "bool")    # checksum recomputed for the new offset
            r = S.ok(nh, dty)
            st_.events.append(("call", cname, args, r))
            return [(r, None)]
        if cname.endswith("serialized_size") or "serialized_size" in cname:
            return None
        return None
    ex.call_hook = hook
    sizes = {}

    def h_ser_size(ex_, st_, frame, t, nf, args, dty):
        v = ex_.fresh(dty, st_, "sersize")
        sz = v.fields[("Ok", 0)]
        st_.pc.append(z3.ULT(sz.t, BV64(1 << 20)))
        st_.events.append(("call", "bincode::serialized_size", args, v))
        return [(v, None)]

    def h_ser_into(ex_, st_, frame, t, nf, args, dty):
        v = ex_.fresh(dty, st_, "serinto")
        tgt = S.deref_val(ex_, st_, args[1])
        st_.events.append(("call", "bincode::serialize_into", [tgt], v))
        return [(v, None)]

    def h_ser(ex_, st_, frame, t, nf, args, dty):
        v = ex_.fresh(dty, st_, "ser")
        return [(v, None)]
    ex.summaries.insert(0, (re.compile(r"^bincode::serialized_size$"), h_ser_size))
    ex.summaries.insert(0, (re.compile(r"^bincode::serialize_into$"), h_ser_into))
    outs = _sync_run(ex, st, fn, [Ref(wc, (), True, "&mut BlobWriter"), rec])
    res.paths = len(outs)
    hf = P.record_header_fields(crate)
    for o in outs:
        if o.status in ("infeasible", "unwind"):
            continue
        if o.status != "returned":
            if not P.prove(ex, res, o, z3.BoolVal(False), "no panic (%s: %s)" % (o.status, o.note)):
                break
            continue
        isok = ex.get_discr(o, o.result).t == BV64(0)
        sers = [e for e in o.events if e[0] == "call" and e[1] == "bincode::serialize_into"]
        if not sers:
            if not P.prove(ex, res, o, z3.Not(isok), "Ok => the header was written"):
                break
            continue
        wh = sers[0][2][0]
        if not isinstance(wh, Obj):
            res.status = "inconclusive"; res.detail = "serialized object unknown"; break
        off = P.hdrl(crate, ex, o, wh, "blob_offset")
        if not P.prove(ex, res, o, off == written0, "written header.blob_offset = position it is written at"):
            res.replay = {"kind": "native", "test": "findings/c16_recovery_demo.rs"}
            break
        moved = P.hdr(crate, h, "blob_offset") != written0
        recomputed = wh.fields.get(("ghost", 1))
        if not P.prove(ex, res, o, z3.Implies(moved, recomputed.t if recomputed is not None else z3.BoolVal(False)),
                       "header checksum recomputed when the offset changed"):
            break
        w2 = o.mem[wc]
        written1 = w2.fields[(None, crate.field_index("BlobWriter", "written"))].t
        P.cover(ex, res, o, z3.And(isok, moved), "record lands at another position than in the source")
        P.cover(ex, res, o, z3.And(isok, z3.Not(moved)), "record keeps its position")
        if not P.prove(ex, res, o, z3.Implies(isok, z3.UGE(written1, written0 + dlen)), "written advances at least by the data length"):
            break
    return P.finish(ex, res, ["record lands at another position than in the source", "record keeps its position"])


def reader_eof_exact(crate):
    """C16: BlobReader::is_eof is exactly `position >= len`: a truncated tail of any length is still read (and rejected),
    never silently taken for the end of the blob."""
    res = P.ObResult("reader_eof_exact")
    fn = crate.method("BlobReader", "is_eof")
    res.functions = ["BlobReader::is_eof"]
    res.bounds = "all positions and lengths"
    ex = P.mk_executor(crate, cap=2, loop_bound=4, inline=INLINE_TOOLS)
    st = State()
    r = Obj("tools::blob_reader::BlobReader")
    pos, ln = z3.BitVec("position", 64), z3.BitVec("len", 64)
    r.fields[(None, crate.field_index("BlobReader", "position"))] = Sym(pos, "u64")
    r.fields[(None, crate.field_index("BlobReader", "len"))] = Sym(ln, "u64")
    rc = st.new_cell(r)
    outs = _sync_run(ex, st, fn, [Ref(rc, (), False, "&BlobReader")])
    res.paths = len(outs)
    for o in outs:
        if o.status != "returned":
            if o.status != "infeasible" and not P.prove(ex, res, o, z3.BoolVal(False), "no panic"):
                break
            continue
        if not P.prove(ex, res, o, o.result.t == z3.UGE(pos, ln), "is_eof <=> position >= len"):
            break
        P.cover(ex, res, o, z3.And(z3.ULT(pos, ln), ln - pos == BV64(1)), "one byte left is not EOF")
        P.cover(ex, res, o, pos == ln, "exact end")
    return P.finish(ex, res, ["one byte left is not EOF", "exact end"])


def migration_all_records(crate):
    """C16: Record::migrate(0 -> 1) reverses the key bytes of EVERY record (deletion markers included: a marker left under
    the old key would resurrect the deleted value); same or newer source versions are left untouched; other pairs fail."""
    res = P.ObResult("migration_all_records")
    fn = crate.method("Record", "migrate")
    res.functions = ["Record::migrate", "Record::mirgate_v0_to_v1"]
    res.bounds = "one record with arbitrary flags, all (source, target) version pairs"
    ex = P.mk_executor(crate, cap=2, loop_bound=4, inline=INLINE_TOOLS)
    st = State()
    rec = Obj("record::record::Record")
    h = P.mk_header(crate, "rec")
    rec.fields[(None, crate.field_index("Record", "header"))] = h
    src, tgt = z3.BitVec("source_version", 32), z3.BitVec("target_version", 32)
    outs = _sync_run(ex, st, fn, [rec, Sym(src, "u32"), Sym(tgt, "u32")])
    res.paths = len(outs)
    for o in outs:
        if o.status != "returned":
            if o.status != "infeasible" and not P.prove(ex, res, o, z3.BoolVal(False), "no panic"):
                break
            continue
        isok = ex.get_discr(o, o.result).t == BV64(0)
        revs = [e for e in o.events if e[0] == "call" and "with_reversed_key_bytes" in e[1]]
        need = z3.And(src == 0, tgt == 1)
        if not P.prove(ex, res, o, z3.Implies(z3.And(isok, need), z3.BoolVal(len(revs) == 1)), "0 -> 1: the key is reversed, whatever the flags"):
            break
        if not P.prove(ex, res, o, z3.Implies(z3.UGE(src, tgt), z3.And(isok, z3.BoolVal(len(revs) == 0))), "same or newer source: untouched"):
            break
        if not P.prove(ex, res, o, z3.Implies(z3.And(z3.ULT(src, tgt), z3.Not(need)), z3.Not(isok)), "unsupported pair rejected"):
            break
        if revs:
            hh = revs[0][2][0]
            if isinstance(hh, Obj):
                if not P.prove(ex, res, o, P.hdrl(crate, ex, o, hh, "seq") == P.hdr(crate, h, "seq"), "the record's own header is migrated"):
                    break
            P.cover(ex, res, o, z3.And(isok, P.hdr(crate, h, "flags") & 1 == 1), "deletion marker migrated")
            P.cover(ex, res, o, z3.And(isok, P.hdr(crate, h, "flags") & 1 == 0), "plain record migrated")
        P.cover(ex, res, o, z3.And(z3.UGE(src, tgt), isok), "no migration needed")
    return P.finish(ex, res, ["deletion marker migrated", "plain record migrated", "no migration needed"])
