"""Obligations on src/tools/: recovery writer offsets, reader end-of-file test, migration (C16)."""
import re
import z3
from .symex import State, Sym, Obj, VecV, Ref, FnItem, UNIT, Unsupported, fresh_name
from . import pearl as P
from . import summaries as S
from .pearl import BV64
from .ob_blob import idx, _ev_result_ok
from .ob_record import BYTES_SUMMARIES, mk_buf, _buf

INLINE_TOOLS = [r"^Header::(blob_offset|data_size|meta_size|timestamp|is_deleted)$", r"^BlobReader::is_eof$",
                r"^Record::(migrate|mirgate_v0_to_v1)$", r"^BlobWriter::written$"]


def _sync_run(ex, st, body, args):
    ex.push_frame(st, body, args, None, None)
    return ex.run(st)


def recover_addressable(crate):
    """C16: BlobWriter::write_record: the header that is serialized into the output carries blob_offset = the position
    it is written at (so the storage, which reads at header.blob_offset, can address the record), with the header checksum
    recomputed after the offset changed; `written` advances by header + meta + data length."""
    res = P.ObResult("recover_addressable")
    res.finding_key = "recovery-copies-stale-blob_offset"
    fn = crate.method("BlobWriter", "write_record")
    res.functions = ["BlobWriter::write_record", "RecordHeader::blob_offset"]
    res.bounds = "one record, arbitrary source offset and writer position (< 2^40), every outcome of the serializers / writes"
    ex = P.mk_executor(crate, cap=2, loop_bound=4, inline=INLINE_TOOLS, extra_summaries=BYTES_SUMMARIES,
                       havoc=[r"^<std::fs::File as std::io::(Write|Seek|Read)>::"])
    st = State()
    w = Obj("tools::blob_writer::BlobWriter")
    written0 = z3.BitVec("writer_written", 64)
    st.pc.append(z3.ULT(written0, BV64(1 << 40)))
    w.fields[(None, crate.field_index("BlobWriter", "written"))] = Sym(written0, "u64")
    cache = Obj("std::option::Option<std::vec::Vec<record::record::Record>>")
    cache.discr = Sym(BV64(0), "isize")
    w.fields[(None, crate.field_index("BlobWriter", "cache"))] = cache
    wc = st.new_cell(w)
    rec = Obj("record::record::Record")
    h = P.mk_header(crate, "src")
    st.pc.append(z3.ULT(P.hdr(crate, h, "blob_offset"), BV64(1 << 40)))
    rec.fields[(None, crate.field_index("Record", "header"))] = h
    dlen = z3.BitVec("data_len", 64)
    st.pc.append(z3.ULT(dlen, BV64(1 << 40)))
    rec.fields[(None, crate.field_index("Record", "data"))] = mk_buf(dlen)

    def hook(ex_, st_, cname, args, dty):
        if cname == "Header::with_blob_offset":
            nh = Obj(P.HEADER_TY)
            src = args[0]
            nh.fields = dict(src.fields)
            hf = P.record_header_fields(crate)
            nh.fields[(None, hf["blob_offset"])] = args[1]
            nh.fields[(None, hf["header_checksum"])] = Sym(z3.BitVec(fresh_name("recomputed_crc"), 32), "u32")
            nh.fields[("ghost", 1)] = Sym(z3.BoolVal(True), "bool")    # checksum recomputed for the new offset
            r = S.ok(nh, dty)
            st_.events.append(("call", cname, args, r))
            return [(r, None)]
        if cname.endswith("serialized_size") or "serialized_size" in cname:
            return None
        return None
    ex.call_hook = hook
    sizes = {}

    def h_ser_size(ex_, st_, frame, t, nf, args, dty):
        v = ex_.fresh(dty, st_, "sersize")
        sz = v.fields[("Ok", 0)]
        st_.pc.append(z3.ULT(sz.t, BV64(1 << 20)))
        st_.events.append(("call", "bincode::serialized_size", args, v))
        return [(v, None)]

    def h_ser_into(ex_, st_, frame, t, nf, args, dty):
        v = ex_.fresh(dty, st_, "serinto")
        tgt = S.deref_val(ex_, st_, args[1])
        st_.events.append(("call", "bincode::serialize_into", [tgt], v))
        return [(v, None)]

    def h_ser(ex_, st_, frame, t, nf, args, dty):
        v = ex_.fresh(dty, st_, "ser")
        return [(v, None)]
    ex.summaries.insert(0, (re.compile(r"^bincode::serialized_size$"), h_ser_size))
    ex.summaries.insert(0, (re.compile(r"^bincode::serialize_into$"), h_ser_into))
    outs = _sync_run(ex, st, fn, [Ref(wc, (), True, "&mut BlobWriter"), rec])
    res.paths = len(outs)
    hf = P.record_header_fields(crate)
    for o in outs:
        if o.status in ("infeasible", "unwind"):
            continue
        if o.status != "returned":
            if not P.prove(ex, res, o, z3.BoolVal(False), "no panic (%s: %s)" % (o.status, o.note)):
                break
            continue
        isok = ex.get_discr(o, o.result).t == BV64(0)
        sers = [e for e in o.events if e[0] == "call" and e[1] == "bincode::serialize_into"]
        if not sers:
            if not P.prove(ex, res, o, z3.Not(isok), "Ok => the header was written"):
                break
            continue
        wh = sers[0][2][0]
        if not isinstance(wh, Obj):
            res.status = "inconclusive"; res.detail = "serialized object unknown"; break
        off = P.hdrl(crate, ex, o, wh, "blob_offset")
        if not P.prove(ex, res, o, off == written0, "written header.blob_offset = position it is written at"):
            res.replay = {"kind": "native", "test": "findings/c16_recovery_demo.rs"}
            break
        moved = P.hdr(crate, h, "blob_offset") != written0
        recomputed = wh.fields.get(("ghost", 1))
        if not P.prove(ex, res, o, z3.Implies(moved, recomputed.t if recomputed is not None else z3.BoolVal(False)),
                       "header checksum recomputed when the offset changed"):
            break
        w2 = o.mem[wc]
        written1 = w2.fields[(None, crate.field_index("BlobWriter", "written"))].t
        P.cover(ex, res, o, z3.And(isok, moved), "record lands at another position than in the source")
        P.cover(ex, res, o, z3.And(isok, z3.Not(moved)), "record keeps its position")
        if not P.prove(ex, res, o, z3.Implies(isok, z3.UGE(written1, written0 + dlen)), "written advances at least by the data length"):
            break
    return P.finish(ex, res, ["record lands at another position than in the source", "record keeps its position"])


def reader_eof_exact(crate):
    """C16: BlobReader::is_eof is exactly `position >= len`: a truncated tail of any length is still read (and rejected),
    never silently taken for the end of the blob."""
    res = P.ObResult("reader_eof_exact")
    fn = crate.method("BlobReader", "is_eof")
    res.functions = ["BlobReader::is_eof"]
    res.bounds = "all positions and lengths"
    ex = P.mk_executor(crate, cap=2, loop_bound=4, inline=INLINE_TOOLS)
    st = State()
    r = Obj("tools::blob_reader::BlobReader")
    pos, ln = z3.BitVec("position", 64), z3.BitVec("len", 64)
    r.fields[(None, crate.field_index("BlobReader", "position"))] = Sym(pos, "u64")
    r.fields[(None, crate.field_index("BlobReader", "len"))] = Sym(ln, "u64")
    rc = st.new_cell(r)
    outs = _sync_run(ex, st, fn, [Ref(rc, (), False, "&BlobReader")])
    res.paths = len(outs)
    for o in outs:
        if o.status != "returned":
            if o.status != "infeasible" and not P.prove(ex, res, o, z3.BoolVal(False), "no panic"):
                break
            continue
        if not P.prove(ex, res, o, o.result.t == z3.UGE(pos, ln), "is_eof <=> position >= len"):
            break
        P.cover(ex, res, o, z3.And(z3.ULT(pos, ln), ln - pos == BV64(1)), "one byte left is not EOF")
        P.cover(ex, res, o, pos == ln, "exact end")
    return P.finish(ex, res, ["one byte left is not EOF", "exact end"])


def migration_all_records(crate):
    """C16: Record::migrate(0 -> 1) reverses the key bytes of EVERY record (deletion markers included: a marker left under
    the old key would resurrect the deleted value); same or newer source versions are left untouched; other pairs fail."""
    res = P.ObResult("migration_all_records")
    fn = crate.method("Record", "migrate")
    res.functions = ["Record::migrate", "Record::mirgate_v0_to_v1"]
    res.bounds = "one record with arbitrary flags, all (source, target) version pairs"
    ex = P.mk_executor(crate, cap=2, loop_bound=4, inline=INLINE_TOOLS)
    st = State()
    rec = Obj("record::record::Record")
    h = P.mk_header(crate, "rec")
    rec.fields[(None, crate.field_index("Record", "header"))] = h
    src, tgt = z3.BitVec("source_version", 32), z3.BitVec("target_version", 32)
    outs = _sync_run(ex, st, fn, [rec, Sym(src, "u32"), Sym(tgt, "u32")])
    res.paths = len(outs)
    for o in outs:
        if o.status != "returned":
            if o.status != "infeasible" and not P.prove(ex, res, o, z3.BoolVal(False), "no panic"):
                break
            continue
        isok = ex.get_discr(o, o.result).t == BV64(0)
        revs = [e for e in o.events if e[0] == "call" and "with_reversed_key_bytes" in e[1]]
        need = z3.And(src == 0, tgt == 1)
        if not P.prove(ex, res, o, z3.Implies(z3.And(isok, need), z3.BoolVal(len(revs) == 1)), "0 -> 1: the key is reversed, whatever the flags"):
            break
        if not P.prove(ex, res, o, z3.Implies(z3.UGE(src, tgt), z3.And(isok, z3.BoolVal(len(revs) == 0))), "same or newer source: untouched"):
            break
        if not P.prove(ex, res, o, z3.Implies(z3.And(z3.ULT(src, tgt), z3.Not(need)), z3.Not(isok)), "unsupported pair rejected"):
            break
        if revs:
            hh = revs[0][2][0]
            if isinstance(hh, Obj):
                if not P.prove(ex, res, o, P.hdrl(crate, ex, o, hh, "seq") == P.hdr(crate, h, "seq"), "the record's own header is migrated"):
                    break
            P.cover(ex, res, o, z3.And(isok, P.hdr(crate, h, "flags") & 1 == 1), "deletion marker migrated")
            P.cover(ex, res, o, z3.And(isok, P.hdr(crate, h, "flags") & 1 == 0), "plain record migrated")
        P.cover(ex, res, o, z3.And(z3.UGE(src, tgt), isok), "no migration needed")
    return P.finish(ex, res, ["deletion marker migrated", "plain record migrated", "no migration needed"])


def validate_blob_all_or_error(crate, N=3):
    """C16: tools::validate_blob accepts a blob only if its header read succeeded and EVERY record up to the end of the file
    was read and validated successfully, in order; the first failure is returned (a truncated or damaged blob is rejected)."""
    res = P.ObResult("validate_blob_all_or_error[N<=%d]" % N)
    fn = crate.find(r"(^|::)validate_blob$")
    res.functions = ["tools::validation::validate_blob", "BlobReader::is_eof"]
    res.bounds = "<= %d records before the end of the file (loop unwound %d times, deeper paths dropped), every outcome of the reads" % (N, N + 1)
    ex = P.mk_executor(crate, cap=2, loop_bound=N + 1, inline=INLINE_TOOLS + [r"^BlobReader::is_eof$"])
    ex.unwind_assume = True
    st = State()
    reader = {}

    def call_hook(ex_, st_, cname, args, dty):
        if cname == "BlobReader::from_path":
            r = ex_.fresh(dty, st_, "reader")
            rd = ex_._get_field(st_, r, "Ok", 0, "tools::blob_reader::BlobReader")
            pos = ex_._get_field(st_, rd, None, crate.field_index("BlobReader", "position"), "u64")
            ln = ex_._get_field(st_, rd, None, crate.field_index("BlobReader", "len"), "u64")
            st_.pc.append(z3.And(z3.ULT(pos.t, BV64(1 << 40)), z3.ULT(ln.t, BV64(1 << 40))))
            st_.events.append(("call", cname, args, r))
            return [(r, None)]
        if cname in ("BlobReader::read_header", "BlobReader::read_record"):
            # Ok advances the position by a positive amount, Err leaves the reader wherever it is (not used afterwards)
            r = ex_.fresh(dty, st_, "rd")
            me = args[0]
            rd = S.deref_val(ex_, st_, me)
            pi = crate.field_index("BlobReader", "position")
            adv = z3.BitVec(fresh_name("advance"), 64)
            st_.pc.append(z3.And(z3.UGT(adv, BV64(0)), z3.ULT(adv, BV64(1 << 40))))
            okk = ex_.get_discr(st_, r).t == BV64(0)
            old = ex_._get_field(st_, rd, None, pi, "u64").t
            ex_.write_path(st_, me.cell, tuple(me.proj) + (("field", pi, "u64"),), Sym(z3.If(okk, old + adv, old), "u64"))
            st_.events.append(("call", cname, args, r))
            return [(r, None)]
        return None
    ex.call_hook = call_hook
    path = Ref(st.new_cell(Obj("std::path::Path")), (), False, "&std::path::Path")
    outs = _sync_run(ex, st, fn, [path])
    res.paths = len(outs)
    for o in outs:
        if o.status in ("infeasible", "unwind"):
            continue
        if o.status != "returned":
            if not P.prove(ex, res, o, z3.BoolVal(False), "no panic (%s)" % o.note):
                break
            continue
        isok = ex.get_discr(o, o.result).t == BV64(0)
        evs = [e for e in o.events if e[0] == "call" and e[1].startswith("BlobReader::")]
        oks = [ex.get_discr(o, e[3]).t == BV64(0) for e in evs]
        names = [e[1] for e in evs]
        if not P.prove(ex, res, o, z3.Implies(isok, z3.And(*oks) if oks else z3.BoolVal(False)), "Ok => every read succeeded"):
            break
        bad_arg = False
        for e in evs:
            if e[1] == "BlobReader::read_record":
                sk = e[2][1].t
                if not P.prove(ex, res, o, z3.Not(sk) if z3.is_bool(sk) else sk == 0, "validation never skips a damaged record (read_record(skip_wrong = false))"):
                    bad_arg = True
                    break
        if bad_arg:
            break
        if not P.prove(ex, res, o, z3.Implies(isok, z3.BoolVal(len(names) >= 2 and names[0] == "BlobReader::from_path" and names[1] == "BlobReader::read_header")),
                       "Ok => the file was opened and the blob header validated first"):
            break
        bad = False
        for i in range(len(evs) - 1):
            if not P.prove(ex, res, o, oks[i], "nothing is read after a failed read"):
                bad = True
                break
        if bad:
            break
        if evs:
            if not P.prove(ex, res, o, z3.Implies(z3.Not(oks[-1]), z3.Not(isok)), "the first failure is returned"):
                break
        # Ok => the reader reached the end of the file
        rds = [e for e in evs if e[1] == "BlobReader::from_path"]
        if rds and len(evs) >= 2:
            rd = ex._get_field(o, rds[0][3], "Ok", 0, "tools::blob_reader::BlobReader")
        nrec = len([n for n in names if n == "BlobReader::read_record"])
        P.cover(ex, res, o, z3.And(isok, z3.BoolVal(nrec >= 2)), "two or more records accepted")
        P.cover(ex, res, o, z3.And(z3.Not(isok), z3.BoolVal(nrec >= 2)), "rejected after a valid record")
        P.cover(ex, res, o, z3.And(isok, z3.BoolVal(nrec == 0)), "empty blob accepted")
    return P.finish(ex, res, ["two or more records accepted", "rejected after a valid record", "empty blob accepted"])


def reader_record_step(crate):
    """C16: BlobReader::read_single_record: Ok only if the record header validated (magic + header CRC) and the whole
    record validated (data CRC) — the recovery and validation tools never pass on an unchecked record; the reader's
    position advances by exactly header size + meta_size + data_size on success, so the next record is read from the
    right place; a header that fails validation is remembered for the skip logic."""
    res = P.ObResult("reader_record_step")
    fn = crate.method("BlobReader", "read_single_record")
    res.functions = ["BlobReader::read_single_record + closures", "BlobReader::read_bytes", "RecordHeader::{meta_size,data_size}"]
    res.bounds = "one record, arbitrary position (< 2^40), header sizes (< 2^40), every outcome of the reads / decoders / validations"
    ex = P.mk_executor(crate, cap=2, loop_bound=4, inline=INLINE_TOOLS + [r"^BlobReader::read_bytes$"],
                       havoc=[r"^(std|alloc)::vec::from_elem$", r"^<.* as (std::io::)?Read>::read_exact$", r"^<.* as Clone>::clone$"])
    st = State()
    rd = Obj("tools::blob_reader::BlobReader")
    pos = z3.BitVec("position", 64)
    st.pc.append(z3.ULT(pos, BV64(1 << 40)))
    pi = crate.field_index("BlobReader", "position")
    rd.fields[(None, pi)] = Sym(pos, "u64")
    rc = st.new_cell(rd)
    hsize = z3.BitVec("serialized_header_size", 64)
    st.pc.append(z3.And(z3.UGT(hsize, BV64(0)), z3.ULT(hsize, BV64(1 << 20))))
    hdrs = {}

    def h_deser_from(ex_, st_, frame, t, nf, args, dty):
        r = ex_.fresh(dty, st_, "decoded")
        h = ex_._get_field(st_, r, "Ok", 0, "record::record::Header")
        if "Header" in dty:
            for fld in ("meta_size", "data_size"):
                st_.pc.append(z3.ULT(P.hdrl(crate, ex_, st_, h, fld), BV64(1 << 40)))
            hdrs["h"] = h
        st_.events.append(("decode", nf, None, r))
        return [(r, None)]

    def h_ser_size(ex_, st_, frame, t, nf, args, dty):
        okv = z3.Bool(fresh_name("size_ok"))
        r = Obj(dty)
        r.discr = Sym(z3.If(okv, BV64(0), BV64(1)), "isize")
        r.fields[("Ok", 0)] = Sym(hsize, "u64")
        return [(r, None)]
    ex.summaries.insert(0, (re.compile(r"^bincode::deserialize_from$"), h_deser_from))
    ex.summaries.insert(0, (re.compile(r"^bincode::serialized_size$"), h_ser_size))
    outs = _sync_run(ex, st, fn, [Ref(rc, (), True, "&mut BlobReader")])
    res.paths = len(outs)
    for o in outs:
        if o.status in ("infeasible", "unwind"):
            continue
        if o.status != "returned":
            if not P.prove(ex, res, o, z3.BoolVal(False), "no panic (%s)" % o.note):
                break
            continue
        isok = ex.get_discr(o, o.result).t == BV64(0)
        evs = [e for e in o.events if e[0] == "call"]
        names = [e[1] for e in evs]
        i_hv = idx(names, "Header::validate")
        i_rv = idx(names, "Record::validate")
        pos2 = o.mem[rc].fields[(None, pi)].t
        if not P.prove(ex, res, o, z3.Implies(isok, z3.BoolVal(i_hv is not None and i_rv is not None)), "Ok => header and record validations ran"):
            break
        if i_hv is not None:
            hv_ok = ex.get_discr(o, evs[i_hv][3]).t == BV64(0)
            if not P.prove(ex, res, o, z3.Implies(isok, hv_ok), "Ok => the record header validated"):
                break
            lw = o.mem[rc].fields.get((None, crate.field_index("BlobReader", "latest_wrong_header")))
            if lw is not None:
                if not P.prove(ex, res, o, z3.Implies(z3.Not(hv_ok), z3.And(z3.Not(isok), ex.get_discr(o, lw).t == BV64(1))),
                               "invalid header: error, the header is remembered for skipping"):
                    break
                if not P.prove(ex, res, o, z3.Implies(z3.Not(hv_ok), pos2 == pos + hsize),
                               "invalid header: the reader stands right behind that header (the skip logic adds meta and data size to this position)"):
                    break
                P.cover(ex, res, o, z3.Not(hv_ok), "invalid header remembered")
        if i_rv is not None:
            rv_ok = ex.get_discr(o, evs[i_rv][3]).t == BV64(0)
            if not P.prove(ex, res, o, isok == rv_ok, "with a valid header: Ok iff the whole record validated (data checksum)"):
                break
            h = hdrs.get("h")
            if h is not None:
                msz, dsz = P.hdrl(crate, ex, o, h, "meta_size"), P.hdrl(crate, ex, o, h, "data_size")
                if not P.prove(ex, res, o, pos2 == pos + hsize + msz + dsz, "position advanced by header + meta + data (also when the data checksum fails)"):
                    break
                rec = evs[i_rv][2][0]
                rh = rec.fields.get((None, crate.field_index("Record", "header"))) if isinstance(rec, Obj) else None
                if not (isinstance(rh, Obj) and rh.oid == h.oid):
                    res.status = "violated"; res.detail = "the record validated is not built from the decoded header"; break
            P.cover(ex, res, o, isok, "record accepted")
            P.cover(ex, res, o, z3.Not(rv_ok), "data checksum mismatch rejected")
    return P.finish(ex, res, ["record accepted", "data checksum mismatch rejected", "invalid header remembered"])


def reader_skip_once(crate):
    """C16: BlobReader::read_record: without skipping, the single read's result is returned; with skipping, a first
    success is returned as is, after a first failure at most ONE more record is read (after at most one data skip) and
    its result — success or failure — is returned: an isolated damaged record is skipped, a second damage is reported."""
    res = P.ObResult("reader_skip_once")
    fn = crate.method("BlobReader", "read_record")
    res.functions = ["BlobReader::read_record"]
    res.bounds = "single call, both modes, every outcome / error class of the reads"
    ex = P.mk_executor(crate, cap=2, loop_bound=4, inline=INLINE_TOOLS)
    st = State()
    rc = st.new_cell(Obj("tools::blob_reader::BlobReader"))
    skip = z3.Bool("skip_wrong")
    outs = _sync_run(ex, st, fn, [Ref(rc, (), True, "&mut BlobReader"), Sym(skip, "bool")])
    res.paths = len(outs)
    for o in outs:
        if o.status in ("infeasible", "unwind"):
            continue
        if o.status != "returned":
            if not P.prove(ex, res, o, z3.BoolVal(False), "no panic (%s)" % o.note):
                break
            continue
        isok = ex.get_discr(o, o.result).t == BV64(0)
        evs = [e for e in o.events if e[0] == "call"]
        reads = [e for e in evs if e[1] == "BlobReader::read_single_record"]
        skips = [e for e in evs if e[1] == "BlobReader::skip_wrong_record_data"]
        if not (1 <= len(reads) <= 2 and len(skips) <= 1):
            res.status = "violated"; res.detail = "%d reads, %d skips in one read_record" % (len(reads), len(skips)); break
        r0_ok = ex.get_discr(o, reads[0][3]).t == BV64(0)
        if len(reads) == 1:
            if skips:
                if not P.prove(ex, res, o, z3.And(skip, z3.Not(r0_ok), z3.Not(isok), ex.get_discr(o, skips[0][3]).t != BV64(0)),
                               "no second read after a skip only because the skip itself failed"):
                    break
            else:
                if not P.prove(ex, res, o, z3.Implies(r0_ok, isok), "a successful read is returned"):
                    break
                if not P.prove(ex, res, o, z3.Implies(z3.Not(skip), isok == r0_ok), "without skipping: the read's result is returned"):
                    break
                P.cover(ex, res, o, z3.And(skip, z3.Not(r0_ok), z3.Not(isok)), "error of another class is not skipped")
        else:
            r1_ok = ex.get_discr(o, reads[1][3]).t == BV64(0)
            if not P.prove(ex, res, o, z3.And(skip, z3.Not(r0_ok), isok == r1_ok), "second read only when skipping after a failure; its result is returned"):
                break
            if skips:
                if not P.prove(ex, res, o, ex.get_discr(o, skips[0][3]).t == BV64(0), "the second read follows a successful skip"):
                    break
                order = [e[1] for e in evs if e[1].startswith("BlobReader::")]
                if order != ["BlobReader::read_single_record", "BlobReader::skip_wrong_record_data", "BlobReader::read_single_record"]:
                    res.status = "violated"; res.detail = "order %s" % order; break
            P.cover(ex, res, o, z3.And(isok, z3.BoolVal(bool(skips))), "damaged header skipped, next record returned")
            P.cover(ex, res, o, z3.And(isok, z3.BoolVal(not skips)), "damaged data skipped, next record returned")
            P.cover(ex, res, o, z3.Not(isok), "second damage reported")
    return P.finish(ex, res, ["damaged header skipped, next record returned", "damaged data skipped, next record returned", "second damage reported", "error of another class is not skipped"])


def recovery_copies_prefix(crate, N=3):
    """C16: tools::process_blob_with (recovery_blob / migration driver): the output gets the (preprocessed) blob header,
    then exactly the records the reader returned Ok (after preprocessing), in order, up to the first read error or the
    end of the input; nothing is written after a read error; a write error fails the tool; with validation requested the
    written records are re-validated before success is reported."""
    res = P.ObResult("recovery_copies_prefix[N<=%d]" % N)
    fn = crate.find(r"(^|::)process_blob_with$")
    res.functions = ["tools::utils::process_blob_with + closure", "BlobReader::is_eof"]
    res.bounds = "<= %d records before the end of the input (loop unwound %d times, deeper paths dropped), every outcome of reader / writer / preprocessing" % (N, N + 1)
    same_path = z3.Bool("input_is_output")

    def h_path_cmp(ex_, st_, frame, t, nf, args, dty):
        return [(Sym(same_path if nf.endswith("::eq") else z3.Not(same_path), "bool"), None)]
    ex = P.mk_executor(crate, cap=2, loop_bound=N + 1, inline=INLINE_TOOLS + [r"^BlobReader::is_eof$"],
                       extra_summaries=[(r"^<(std::path::)?Path as PartialEq>::(eq|ne)$", h_path_cmp)],
                       havoc=[r"^<[PQ] as AsRef<.*>>::as_ref$"])
    ex.unwind_assume = True
    st = State()
    every = z3.BitVec("validate_every", 64)
    skip = z3.Bool("skip_wrong_record")

    def call_hook(ex_, st_, cname, args, dty):
        if cname == "BlobReader::from_path":
            r = ex_.fresh(dty, st_, "reader")
            rd = ex_._get_field(st_, r, "Ok", 0, "tools::blob_reader::BlobReader")
            pos = ex_._get_field(st_, rd, None, crate.field_index("BlobReader", "position"), "u64")
            ln = ex_._get_field(st_, rd, None, crate.field_index("BlobReader", "len"), "u64")
            st_.pc.append(z3.And(z3.ULT(pos.t, BV64(1 << 40)), z3.ULT(ln.t, BV64(1 << 40))))
            st_.events.append(("call", cname, args, r))
            return [(r, None)]
        if cname in ("BlobReader::read_header", "BlobReader::read_record"):
            r = ex_.fresh(dty, st_, "rd")
            me = args[0]
            rd = S.deref_val(ex_, st_, me)
            pi = crate.field_index("BlobReader", "position")
            adv = z3.BitVec(fresh_name("advance"), 64)
            st_.pc.append(z3.And(z3.UGT(adv, BV64(0)), z3.ULT(adv, BV64(1 << 40))))
            old = ex_._get_field(st_, rd, None, pi, "u64").t
            ex_.write_path(st_, me.cell, tuple(me.proj) + (("field", pi, "u64"),), Sym(old + adv, "u64"))
            if cname.endswith("read_record"):
                rec = ex_._get_field(st_, r, "Ok", 0, "record::record::Record")
                rec.fields[("ghost", "n")] = Sym(BV64(len([e for e in st_.events if e[0] == "call" and e[1].endswith("read_record")])), "u64")
            st_.events.append(("call", cname, args, r))
            return [(r, None)]
        return None
    ex.call_hook = call_hook

    def h_preprocess(ex_, st_, frame, t, nf, args, dty):
        tup = args[1]
        item = tup.fields[(None, 0)] if isinstance(tup, Obj) and (None, 0) in tup.fields else tup
        okv = z3.Bool(fresh_name("pre_ok"))
        r = Obj(dty)
        r.discr = Sym(z3.If(okv, BV64(0), BV64(1)), "isize")
        r.fields[("Ok", 0)] = item
        st_.events.append(("call", "preprocess", [item], r))
        return [(r, None)]
    ex.summaries.insert(0, (re.compile(r"^<[FH] as Fn<.*>>::call$"), h_preprocess))
    inp = Ref(st.new_cell(Obj("P")), (), False, "&P")
    outp = Ref(st.new_cell(Obj("Q")), (), False, "&Q")
    outs = _sync_run(ex, st, fn, [inp, outp, Sym(every, "usize"), Obj("F"), Obj("H"), Sym(skip, "bool")])
    res.paths = len(outs)
    for o in outs:
        if o.status in ("infeasible", "unwind"):
            continue
        if o.status != "returned":
            if not P.prove(ex, res, o, z3.BoolVal(False), "no panic (%s)" % o.note):
                break
            continue
        isok = ex.get_discr(o, o.result).t == BV64(0)
        evs = [e for e in o.events if e[0] == "call"]
        opened = [e for e in evs if e[1] in ("BlobReader::from_path", "BlobWriter::from_path")]
        if not P.prove(ex, res, o, z3.Implies(same_path, z3.And(z3.Not(isok), z3.BoolVal(not opened))), "recovering a file into itself is refused before anything is opened (the writer truncates)"):
            break
        if not P.prove(ex, res, o, z3.Implies(z3.Not(same_path), z3.BoolVal(bool(opened))), "different paths: the input is opened"):
            break
        reads = [e for e in evs if e[1] == "BlobReader::read_record"]
        pres = [e for e in evs if e[1] == "preprocess" and isinstance(e[2][0], Obj) and ("ghost", "n") in e[2][0].fields]
        writes = [e for e in evs if e[1] == "BlobWriter::write_record"]
        wh = [e for e in evs if e[1] == "BlobWriter::write_header"]
        vals = [e for e in evs if e[1] == "BlobWriter::validate_written_records"]
        okd = lambda e: ex.get_discr(o, e[3]).t == BV64(0)
        # the k-th write is the k-th record read, and that read and its preprocessing were Ok
        bad = False
        if len(writes) > len(reads):
            res.status = "violated"; res.detail = "%d writes for %d reads" % (len(writes), len(reads)); break
        for k, w in enumerate(writes):
            rec = w[2][1]
            tag = rec.fields.get(("ghost", "n")) if isinstance(rec, Obj) else None
            if tag is None or z3.simplify(tag.t).as_long() != k:
                res.status = "violated"; res.detail = "write %d is not the %d-th record read" % (k, k); bad = True; break
            if not P.prove(ex, res, o, okd(reads[k]), "a record is written only if its read succeeded"):
                bad = True; break
        if bad:
            break
        # every record read Ok and preprocessed Ok was written (unless an earlier write failed)
        for k, r in enumerate(reads):
            if k < len(writes):
                continue
            pre_ok = okd(pres[k]) if k < len(pres) else z3.BoolVal(True)
            earlier_fail = z3.Or([z3.Not(okd(w)) for w in writes]) if writes else z3.BoolVal(False)
            if not P.prove(ex, res, o, z3.Or(z3.Not(okd(r)), z3.Not(pre_ok), earlier_fail), "a record that was read (and preprocessed) successfully is written"):
                bad = True; break
        if bad:
            break
        # nothing is read after a failed read; a failed write fails the tool
        for k in range(len(reads) - 1):
            if not P.prove(ex, res, o, okd(reads[k]), "no read after a failed read"):
                bad = True; break
        if bad:
            break
        if writes and not P.prove(ex, res, o, z3.Implies(isok, z3.And([okd(w) for w in writes])), "Ok => every write succeeded"):
            break
        if not P.prove(ex, res, o, z3.Implies(isok, z3.BoolVal(len(wh) == 1)), "Ok => the blob header was written once"):
            break
        if wh and writes:
            if evs.index(wh[0]) > evs.index(writes[0]):
                res.status = "violated"; res.detail = "record written before the blob header"; break
        if not P.prove(ex, res, o, z3.Implies(z3.And(isok, every != BV64(0)), z3.BoolVal(bool(vals) and evs.index(vals[-1]) > (evs.index(writes[-1]) if writes else -1))),
                       "validation requested: the written records are re-validated after the last write"):
            break
        if vals and not P.prove(ex, res, o, z3.Implies(isok, z3.And([okd(v) for v in vals])), "Ok => re-validation succeeded"):
            break
        P.cover(ex, res, o, z3.And(isok, z3.BoolVal(len(writes) >= 2 and len(reads) == len(writes))), "two or more records copied to the end of the input")
        if reads:
            P.cover(ex, res, o, z3.And(isok, z3.Not(okd(reads[-1])), z3.BoolVal(len(writes) >= 1)), "intact prefix copied, stopped at the damage")
        P.cover(ex, res, o, z3.And(z3.Not(isok), z3.BoolVal(len(writes) >= 1)), "write or validation failure reported")
    return P.finish(ex, res, ["two or more records copied to the end of the input", "intact prefix copied, stopped at the damage", "write or validation failure reported"])


def writer_revalidates(crate, N=2):
    """C16: BlobWriter::validate_written_records: with the cache on and non-empty, the records written since the last
    validation are read back from the output file, starting at written - written_cached, one per cached record, and Ok is
    returned only if every one was read back successfully and compared EQUAL to the cached record; the write position is
    restored afterwards.  With no cache / an empty cache nothing is read and Ok is returned."""
    res = P.ObResult("writer_revalidates[N<=%d]" % N)
    fn = crate.method("BlobWriter", "validate_written_records")
    res.functions = ["BlobWriter::validate_written_records"]
    res.bounds = "cache of <= %d records, arbitrary counters, every outcome of seek / read-back / comparison" % N
    eqs = []

    def h_rec_ne(ex_, st_, frame, t, nf, args, dty):
        i = len([e for e in st_.events if e[0] == "reccmp"])
        same = z3.Bool("record_equal_%d" % i)
        tags = []
        for v in (args[0], args[1]):
            for _ in range(4):
                if isinstance(v, Ref):
                    v = ex_.read_path(st_, v.cell, v.proj)
            if isinstance(v, Obj) and ("ghost", "n") in v.fields:
                tags.append(z3.simplify(v.fields[("ghost", "n")].t).as_long())
        st_.events.append(("reccmp", nf, same, tags))
        return [(Sym(z3.Not(same) if nf.endswith("::ne") else same, "bool"), None)]

    def h_seek(ex_, st_, frame, t, nf, args, dty):
        r = ex_.fresh(dty, st_, "seek")
        pos = args[1]
        st_.events.append(("seek", nf, pos, r))
        return [(r, None)]
    ex = P.mk_executor(crate, cap=N + 1, loop_bound=N + 2, inline=INLINE_TOOLS,
                       extra_summaries=[(r"^<(&)?(record::record::)?Record as PartialEq(<.*>)?>::(eq|ne)$", h_rec_ne), (r"^<(std::fs::)?File as (std::io::)?Seek>::seek$", h_seek)],
                       havoc=[r"^(std::fs::)?File::try_clone$"])
    st = State()
    w = Obj("tools::blob_writer::BlobWriter")
    written, cached = z3.BitVec("written", 64), z3.BitVec("written_cached", 64)
    st.pc.append(z3.ULE(cached, written))
    w.fields[(None, crate.field_index("BlobWriter", "written"))] = Sym(written, "u64")
    w.fields[(None, crate.field_index("BlobWriter", "written_cached"))] = Sym(cached, "u64")
    cache = Obj("std::option::Option<Vec<record::record::Record>>")
    has = z3.Bool("cache_enabled")
    cache.discr = Sym(z3.If(has, BV64(1), BV64(0)), "isize")
    n = z3.BitVec("cached_records", 64)
    st.pc.append(z3.ULE(n, BV64(N)))
    recs = []
    for i in range(N):
        r = Obj("record::record::Record"); r.fields[("ghost", "n")] = Sym(BV64(i), "u64")
        recs.append(r)
    cache.fields[("Some", 0)] = VecV("record::record::Record", N, Sym(n, "usize"), recs)
    w.fields[(None, crate.field_index("BlobWriter", "cache"))] = cache
    wc = st.new_cell(w)
    outs = _sync_run(ex, st, fn, [Ref(wc, (), True, "&mut BlobWriter")])
    res.paths = len(outs)
    for o in outs:
        if o.status in ("infeasible", "unwind"):
            continue
        if o.status != "returned":
            if not P.prove(ex, res, o, z3.BoolVal(False), "no panic (%s)" % o.note):
                break
            continue
        isok = ex.get_discr(o, o.result).t == BV64(0)
        reads = [e for e in o.events if e[0] == "call" and e[1] == "BlobReader::read_single_record"]
        cmps = [e for e in o.events if e[0] == "reccmp"]
        seeks = [e for e in o.events if e[0] == "seek"]
        active = z3.And(has, n != BV64(0))
        if not P.prove(ex, res, o, z3.Implies(z3.Not(active), z3.And(isok, z3.BoolVal(not reads))), "no cache or empty cache: Ok, nothing read"):
            break
        if not P.prove(ex, res, o, z3.Implies(z3.And(active, isok), n == BV64(len(reads))), "Ok => one read-back per cached record"):
            break
        if not P.prove(ex, res, o, z3.Implies(isok, z3.BoolVal(len(cmps) == len(reads))), "Ok => every record read back was compared"):
            break
        bad = False
        for i, c in enumerate(cmps):
            r_ok = ex.get_discr(o, reads[i][3]).t == BV64(0)
            if not P.prove(ex, res, o, z3.Implies(isok, z3.And(r_ok, c[2])), "Ok => record %d was read back and equals the cached one" % i):
                bad = True; break
            tags = c[3]
            if tags != [i]:
                res.status = "violated"; res.detail = "comparison %d does not involve cached record %d (tags %s)" % (i, i, tags); bad = True; break
        if bad:
            break
        if seeks:
            p0 = seeks[0][2]
            p0t = p0.fields[(None, 0)].t if isinstance(p0, Obj) and (None, 0) in p0.fields else None
            if p0t is not None and not P.prove(ex, res, o, p0t == written - cached, "read-back starts at written - written_cached"):
                break
            if len(seeks) >= 2:
                p1 = seeks[-1][2]
                p1t = p1.fields[(None, 0)].t if isinstance(p1, Obj) and (None, 0) in p1.fields else None
                if p1t is not None and not P.prove(ex, res, o, z3.Implies(isok, p1t == written), "the write position is restored"):
                    break
            if not P.prove(ex, res, o, z3.Implies(z3.And(active, isok), z3.BoolVal(len(seeks) >= 2)), "Ok => positioned for reading and back for writing"):
                break
        P.cover(ex, res, o, z3.And(isok, n == BV64(N)), "all cached records re-validated")
        if cmps:
            P.cover(ex, res, o, z3.And(z3.Not(isok), z3.Not(cmps[-1][2])), "mismatch reported")
        P.cover(ex, res, o, z3.And(isok, z3.Not(has)), "validation off")
    return P.finish(ex, res, ["all cached records re-validated", "mismatch reported", "validation off"])


def reader_skip_position(crate):
    """C16: BlobReader::skip_wrong_record_data: the reader moves to position + data_size + meta_size of the remembered
    damaged header (position being right behind that header), the file is positioned there, the skip is refused when no
    damaged header is remembered, on overflow, or when the target is at or beyond the end of the file."""
    res = P.ObResult("reader_skip_position")
    fn = crate.method("BlobReader", "skip_wrong_record_data")
    res.functions = ["BlobReader::skip_wrong_record_data + closures", "RecordHeader::{data_size,meta_size}"]
    res.bounds = "one call, arbitrary position / length / header sizes, remembered header present or absent, seek may fail"

    def h_seek(ex_, st_, frame, t, nf, args, dty):
        r = ex_.fresh(dty, st_, "seek")
        st_.events.append(("seek", nf, args[1], r))
        return [(r, None)]
    ex = P.mk_executor(crate, cap=2, loop_bound=4, inline=INLINE_TOOLS, extra_summaries=[(r"^<(std::fs::)?File as (std::io::)?Seek>::seek$", h_seek)])
    st = State()
    rd = Obj("tools::blob_reader::BlobReader")
    pos, ln = z3.BitVec("position", 64), z3.BitVec("len", 64)
    pi = crate.field_index("BlobReader", "position")
    rd.fields[(None, pi)] = Sym(pos, "u64")
    rd.fields[(None, crate.field_index("BlobReader", "len"))] = Sym(ln, "u64")
    lw = Obj("std::option::Option<record::record::Header>")
    has = z3.BitVec("damaged_header_remembered", 64)
    st.pc.append(z3.Or(has == BV64(0), has == BV64(1)))
    lw.discr = Sym(has, "isize")
    h = P.mk_header(crate, "bad")
    hf = P.record_header_fields(crate)
    msz = z3.BitVec("bad_msz", 64)
    h.fields[(None, hf["meta_size"])] = Sym(msz, "u64")
    lw.fields[("Some", 0)] = h
    rd.fields[(None, crate.field_index("BlobReader", "latest_wrong_header"))] = lw
    rc = st.new_cell(rd)
    outs = _sync_run(ex, st, fn, [Ref(rc, (), True, "&mut BlobReader")])
    res.paths = len(outs)
    dsz = P.hdr(crate, h, "data_size")
    W = 66
    tgt_w = z3.ZeroExt(2, pos) + z3.ZeroExt(2, dsz) + z3.ZeroExt(2, msz)
    fits = z3.ULT(tgt_w, z3.ZeroExt(2, ln))
    for o in outs:
        if o.status in ("infeasible", "unwind"):
            continue
        if o.status != "returned":
            if not P.prove(ex, res, o, z3.BoolVal(False), "no panic (%s)" % o.note):
                break
            continue
        isok = ex.get_discr(o, o.result).t == BV64(0)
        pos2 = o.mem[rc].fields[(None, pi)].t
        seeks = [e for e in o.events if e[0] == "seek"]
        if not P.prove(ex, res, o, z3.Implies(isok, z3.And(has == BV64(1), fits)), "Ok only with a remembered header and a target strictly inside the file (no wrap-around)"):
            break
        if not P.prove(ex, res, o, z3.Implies(isok, pos2 == pos + dsz + msz), "new position = position + data_size + meta_size of the damaged header"):
            break
        if not P.prove(ex, res, o, z3.Implies(z3.Not(isok), pos2 == pos), "a refused skip leaves the position alone"):
            break
        if seeks:
            sp = seeks[0][2]
            spt = sp.fields[(None, 0)].t if isinstance(sp, Obj) and (None, 0) in sp.fields else None
            if spt is not None and not P.prove(ex, res, o, spt == pos + dsz + msz, "the file is positioned at the same target"):
                break
            if not P.prove(ex, res, o, isok == (ex.get_discr(o, seeks[0][3]).t == BV64(0)), "the seek's outcome is returned"):
                break
        else:
            if not P.prove(ex, res, o, z3.Not(isok), "Ok => the file was repositioned"):
                break
        P.cover(ex, res, o, isok, "skipped")
        P.cover(ex, res, o, z3.And(z3.Not(isok), has == BV64(1), z3.Not(fits)), "target beyond the end refused")
        P.cover(ex, res, o, has == BV64(0), "nothing remembered")
    return P.finish(ex, res, ["skipped", "target beyond the end refused", "nothing remembered"])
