"""Obligations on src/filter/hierarchical.rs: the closed-blob container with merged group filters.
The container's shape is concrete (built by running the real push/pop/remove from new()); what stays symbolic is
every filter's content (a bit-set over NK abstract keys), every child's key set, the outcome of every filter merge
(checked_add_assign may refuse) and the key that is queried."""
import re, copy
import z3
from .symex import State, Sym, Obj, VecV, Ref, FnItem, FutureV, UNIT, Unsupported, fresh_name
from . import pearl as P
from . import summaries as S
from .pearl import BV64

NK = 3

INLINE_HIER = [r"^(HierarchicalFilters|Inner|InnerNode|InnerLeaf|PossibleRevIter|Leaf)::",
               r"^<(HierarchicalFilters|Inner|InnerNode|InnerLeaf|PossibleRevIter|Leaf) as "]


def mk_filter(name):
    f = Obj("Filter")
    f.fields[("g", "bits")] = Sym(z3.BitVec(name + "_bits", NK), "bits")
    return f


def mk_child(cid, has_fast=True):
    c = Obj("Child")
    c.fields[("g", "cid")] = Sym(BV64(cid), "usize")
    c.fields[("g", "keys")] = Sym(z3.BitVec("child%d_keys" % cid, NK), "bits")
    c.fields[("g", "filter")] = mk_filter("child%d" % cid)
    c.fields[("g", "fast")] = Sym(z3.BoolVal(has_fast), "bool")
    c.fields[("g", "slow")] = Sym(z3.Bool("child%d_slow_filter" % cid), "bool")
    return c


def child_inv(c):
    keys = c.fields[("g", "keys")].t
    bits = c.fields[("g", "filter")].fields[("g", "bits")].t
    return keys & ~bits == z3.BitVecVal(0, NK)


def _bits_of(ex, st, r):
    f = S.deref_val(ex, st, r)
    if not isinstance(f, Obj) or ("g", "bits") not in f.fields:
        raise Unsupported("not a model filter: %r" % (f,))
    return f


def h_get_filter_fast(ex, st, frame, t, nf, args, dty):
    r = S.vec_ref_any(ex, st, args[0])
    c = S.deref_val(ex, st, r)
    fast = c.fields[("g", "fast")].t
    ref = Ref(r.cell, tuple(r.proj) + (("downcast", "g"), ("field", "filter", "Filter")), False, "&Filter")
    return [(S.some(ref, dty), fast), (S.none(dty), z3.Not(fast))]


def h_get_filter_slow(ex, st, frame, t, nf, args, dty):
    r = S.vec_ref_any(ex, st, args[0])
    return [(FutureV("child_get_filter", [r], None, "child_get_filter"), None)]


def hier_await_hook(ex, st, name, fargs, out_ty, dty):
    if name == "child_get_filter":
        c = S.deref_val(ex, st, fargs[0])
        slow = c.fields[("g", "slow")].t
        f = copy.deepcopy(c.fields[("g", "filter")])
        return [(S.poll_ready(dty, S.some(f, out_ty)), slow), (S.poll_ready(dty, S.none(out_ty)), z3.Not(slow))]
    return None


def h_contains_fast(ex, st, frame, t, nf, args, dty):
    f = _bits_of(ex, st, args[0])
    k = S.deref_val(ex, st, args[1])
    kid = k.fields[("g", "id")].t
    bits = f.fields[("g", "bits")].t
    hit = z3.BoolVal(False)
    for j in range(NK):
        hit = z3.If(kid == BV64(j), z3.Extract(j, j, bits) == z3.BitVecVal(1, 1), hit)
    FR = ex.enums["FilterResult"]
    o = Obj("filter::FilterResult")
    o.discr = Sym(z3.If(hit, BV64(FR["NeedAdditionalCheck"]), BV64(FR["NotContains"])), "isize")
    return [(o, None)]


def h_checked_add_assign(ex, st, frame, t, nf, args, dty):
    dr = S.vec_ref_any(ex, st, args[0])
    d = _bits_of(ex, st, dr)
    s = _bits_of(ex, st, args[1])
    okv = z3.Bool(fresh_name("mergeok"))
    nb = z3.If(okv, d.fields[("g", "bits")].t | s.fields[("g", "bits")].t, d.fields[("g", "bits")].t)
    d.fields[("g", "bits")] = Sym(nb, "bits")
    st.events.append(("merge", "checked_add_assign", None, Sym(okv, "bool")))
    return [(Sym(okv, "bool"), None)]


def h_is_offloaded(ex, st, frame, t, nf, args, dty):
    """FilterTrait::is_filter_offloaded: an arbitrary answer.  An off-loaded filter keeps answering (from the file) with
    the bits it had, so in the model it is an ordinary filter whose flag may be set."""
    return [(Sym(z3.Bool(fresh_name("offloaded")), "bool"), None)]


HIER_SUMMARIES = [
    (r"^<Filter as (\S*::)?FilterTrait<Key>>::is_filter_offloaded$", h_is_offloaded),
    (r"^<Child as (\S*::)?BloomProvider<Key>>::get_filter_fast$", h_get_filter_fast),
    (r"^<Child as (\S*::)?BloomProvider<Key>>::get_filter$", h_get_filter_slow),
    (r"^<Filter as (\S*::)?FilterTrait<Key>>::contains_fast$", h_contains_fast),
    (r"^<Filter as (\S*::)?FilterTrait<Key>>::checked_add_assign$", h_checked_add_assign),
    (r"^<Filter as Clone>::clone$", S.h_clone),
    (r"^<Child as Clone>::clone$", S.h_clone),
]


def _continue(states):
    out = []
    for s in states:
        if s.status == "returned":
            s.status = "running"
            out.append(s)
    return out


class Hier:
    """driver: keeps the set of path states, applies container operations to all of them"""

    def __init__(self, crate, group_size, cap=14, loop_bound=60, max_merge_failures=1):
        self.crate = crate
        self.ex = P.mk_executor(crate, cap=cap, loop_bound=loop_bound, inline=INLINE_HIER, extra_summaries=HIER_SUMMARIES,
                                max_paths=20000)
        self.ex.await_hook = hier_await_hook
        self.maxf = max_merge_failures
        st = State()
        new = crate.method("HierarchicalFilters", "new")
        self.ex.push_frame(st, new, [Sym(BV64(group_size), "usize"), Sym(BV64(1), "usize")], None, None)
        outs = [o for o in self.ex.run(st) if o.status == "returned"]
        if len(outs) != 1:
            raise Unsupported("HierarchicalFilters::new: %d paths" % len(outs))
        s = outs[0]
        s.status = "running"
        self.cell = s.new_cell(s.result)
        self.states = [s]
        self.children = []
        self.panics = []

    def href(self, mut=True):
        return Ref(self.cell, (), mut, "&mut HierarchicalFilters<Key, Filter, Child>")

    def _prune(self, outs):
        keep = []
        for o in outs:
            if o.status == "panic" or o.status == "unreachable":
                self.panics.append(o)
                continue
            if o.status != "returned":
                continue
            fails = [z3.Not(e[3].t) for e in o.events if e[0] == "merge"]
            if fails and self.maxf is not None:
                terms = [z3.If(f, 1, 0) for f in fails]
                cnt = terms[0] if len(terms) == 1 else z3.Sum(terms)
                if not self.ex.feasible(o, cnt <= self.maxf):
                    continue
                o.pc.append(cnt <= self.maxf)
            keep.append(o)
        return keep

    def push(self, child):
        fn = self.crate.method("HierarchicalFilters", "push")
        nxt = []
        for s in self.states:
            c = copy.deepcopy(child)
            s.pc.append(child_inv(c))
            outs = P.drive_async(self.ex, s, fn, [self.href(), c])
            for o in self._prune(outs):
                o.status = "running"
                nxt.append(o)
        self.states = nxt
        self.children.append(child)

    def call_sync(self, name, args_builder):
        """call a non-async method on every state; returns list of (state, result)"""
        fn = self.crate.method("HierarchicalFilters", name)
        res = []
        nxt = []
        for s in self.states:
            self.ex.push_frame(s, fn, [self.href()] + args_builder(s), None, None)
            for o in self._prune(self.ex.run(s)):
                r = o.result
                o.status = "running"
                nxt.append(o)
                res.append((o, r))
        self.states = nxt
        return res

    def possible(self, key_id_term, rev=False):
        """run iter_possible_childs(_rev) + next() until None on every state; returns [(state, [yielded child ids])]"""
        fn = self.crate.method("HierarchicalFilters", "iter_possible_childs_rev" if rev else "iter_possible_childs")
        nxtfn = self.crate.method("PossibleRevIter", "next", "Iterator")
        out = []
        for s in self.states:
            key = Obj("Key")
            key.fields[("g", "id")] = Sym(key_id_term, "usize")
            kc = s.new_cell(key)
            self.ex.push_frame(s, fn, [self.href(False), Ref(kc, (), False, "&Key")], None, None)
            its0 = self.ex.run(s)
            self.panics += [o for o in its0 if o.status in ("panic", "unreachable")]
            its = [o for o in its0 if o.status == "returned"]
            for o in its:
                o.status = "running"
                ic = o.new_cell(o.result)
                work = [(o, [])]
                while work:
                    cur, ids = work.pop()
                    if len(ids) > len(self.children) + 1:
                        raise Unsupported("iterator yields more items than children")
                    self.ex.push_frame(cur, nxtfn, [Ref(ic, (), True, "&mut PossibleRevIter")], None, None)
                    for o2 in self.ex.run(cur):
                        if o2.status != "returned":
                            if o2.status not in ("infeasible", "unwind"):
                                self.panics.append(o2)
                            elif o2.status == "unwind":
                                raise Unsupported("unwinding bound hit inside the possible-children iterator")
                            continue
                        r = o2.result
                        d = z3.simplify(self.ex.get_discr(o2, r).t)
                        if not z3.is_bv_value(d):
                            raise Unsupported("symbolic Option discriminant from next()")
                        o2.status = "running"
                        if d.as_long() == 0:
                            out.append((o2, ids))
                        else:
                            tup = r.fields[("Some", 0)]
                            cid = z3.simplify(tup.fields[(None, 0)].t)
                            if not z3.is_bv_value(cid):
                                raise Unsupported("symbolic child id")
                            work.append((o2, ids + [cid.as_long()]))
        return out

    def live_children(self, s):
        """[(child_id, child obj)] of occupied slots in state s"""
        hf = s.mem[self.cell]
        ch = hf.fields[(None, self.crate.field_index("HierarchicalFilters", "children"))]
        n = z3.simplify(ch.len.t).as_long()
        res = []
        for k in range(n):
            e = ch.elems[k]
            d = z3.simplify(self.ex.get_discr(s, e).t)
            if d.as_long() == 1:
                leaf = e.fields[("Some", 0)]
                data = leaf.fields[(None, self.crate.field_index("Leaf", "data"))]
                res.append((k, data))
        return res, n


def _scenario(crate, res, g, n, ops, noisy=None, rev=False):
    """push n children, apply ops (list of ('pop',) / ('remove', id) / ('push',)), then check:
       len() == live children; possible-children iteration yields every live child that stores the key, no dead child,
       no duplicates, in ascending (or descending for rev) id order."""
    h = Hier(crate, g)
    ex = h.ex
    cid = 0
    for i in range(n):
        h.push(mk_child(cid, has_fast=(noisy != cid)))
        cid += 1
    for op in ops:
        if op[0] == "pop":
            h.call_sync("pop", lambda s: [])
        elif op[0] == "remove":
            h.call_sync("remove", lambda s, k=op[1]: [Sym(BV64(k), "usize")])
        elif op[0] == "push":
            h.push(mk_child(cid, has_fast=(noisy != cid)))
            cid += 1
    if h.panics:
        o = h.panics[0]
        P.prove(ex, res, o, z3.BoolVal(False), "no panic in container operations (%s)" % o.note)
        return ex, False
    # len()
    for o, r in h.call_sync("len", lambda s: []):
        live, slots = h.live_children(o)
        if not P.prove(ex, res, o, r.t == BV64(len(live)), "len() == number of live children (g=%d n=%d ops=%s)" % (g, n, ops)):
            res.replay = {"kind": "native", "test": "c15_blobs_count_after_close_restore"}
            return ex, False
        P.cover(ex, res, o, z3.BoolVal(len(live) < slots), "a removed slot exists")
    kid = z3.BitVec(fresh_name("query_key"), 64)
    outs = h.possible(kid, rev=rev)
    if h.panics:
        o = h.panics[0]
        P.prove(ex, res, o, z3.BoolVal(False), "no panic while iterating the possible children (%s)" % o.note)
        return ex, False
    res.paths += len(outs)
    for o, ids in outs:
        o.pc.append(z3.ULT(kid, BV64(NK)))
        live, slots = h.live_children(o)
        live_ids = [k for k, _ in live]
        if len(set(ids)) != len(ids):
            res.status = "violated"; res.detail = "child yielded twice: %s (g=%d n=%d ops=%s)" % (ids, g, n, ops); return ex, False
        if any(i not in live_ids for i in ids):
            res.status = "violated"; res.detail = "removed child yielded: %s live=%s" % (ids, live_ids); return ex, False
        want = sorted(ids, reverse=rev)
        if ids != want:
            res.status = "violated"; res.detail = "iteration order %s (rev=%s)" % (ids, rev); return ex, False
        for k, data in live:
            keys = data.fields[("g", "keys")].t
            has = z3.BoolVal(False)
            for j in range(NK):
                has = z3.If(kid == BV64(j), z3.Extract(j, j, keys) == z3.BitVecVal(1, 1), has)
            if k not in ids:
                if not P.prove(ex, res, o, z3.Not(has), "no false negative: child %d storing the key is offered (g=%d n=%d ops=%s yielded=%s)" % (k, g, n, ops, ids)):
                    return ex, False
            else:
                P.cover(ex, res, o, has, "a child storing the key is offered")
        anyfail = [z3.Not(e[3].t) for e in o.events if e[0] == "merge"]
        if anyfail:
            P.cover(ex, res, o, z3.Or(anyfail), "a filter merge was refused")
        P.cover(ex, res, o, z3.BoolVal(len(ids) < len(live)), "some child was filtered out")
    return ex, True


def _finish_multi(res, exs, needed):
    class _E:
        pass
    agg = _E()
    agg.queries = sum(e.queries for e in exs)
    agg.solver_s = sum(e.solver_s for e in exs)
    agg.unwind_hits = [u for e in exs for u in e.unwind_hits]
    agg.stats = {"calls_summarised": {}, "calls_havoc": {}, "calls_inlined": {}}
    for e in exs:
        for k in agg.stats:
            for a, b in e.stats[k].items():
                agg.stats[k][a] = agg.stats[k].get(a, 0) + b
    return P.finish(agg, res, needed)


def hier_no_false_negative(crate, n=4, groups=(2, 3)):
    """C10/C04: after any push sequence (and pop / remove / re-push) the possible-children iteration offers every live
    child that stores the queried key; merges may be refused (at most one refusal per scenario)."""
    res = P.ObResult("hier_no_false_negative[n<=%d]" % n)
    res.functions = ["HierarchicalFilters::{new,push,add_child,get_filter_from_child,init_filter_from_cow,add_filter_from_cow,"
                     "pop,remove,len,iter_possible_childs,iter_possible_childs_rev,get_child,get_inner,...}",
                     "Inner::merge_filters", "PossibleRevIter::{new,next}"]
    res.bounds = "children <= %d (+1 re-push), group sizes %s, %d abstract keys, <= 1 refused merge per scenario, one child without a fast filter" % (n, list(groups), NK)
    exs = []
    scen = []
    for g in groups:
        scen.append((g, n, [], None, False))
        scen.append((g, n, [], None, True))
        scen.append((g, n, [("pop",), ("push",)], None, True))
        scen.append((g, n, [("remove", 1)], None, False))
        scen.append((g, n - 1, [("pop",), ("pop",), ("push",), ("push",)], None, False))
        scen.append((g, n, [], 1, False))
        scen.append((g, n, [], n - 1, True))
    for g, nn, ops, noisy, rev in scen:
        ex, ok = _scenario(crate, res, g, nn, ops, noisy, rev)
        exs.append(ex)
        if not ok or res.status != "holds":
            break
    return _finish_multi(res, exs, ["a child storing the key is offered", "a filter merge was refused",
                                    "some child was filtered out", "a removed slot exists"])


def len_counts_live(crate, n=3):
    """C15: HierarchicalFilters::len() equals the number of live children after pop / remove / re-push."""
    res = P.ObResult("len_counts_live")
    res.finding_key = "hierarchical-len-counts-empty-slots"
    res.functions = ["HierarchicalFilters::{new,push,add_child,pop,remove,len}"]
    res.bounds = "children <= %d, group size 2, sequences: pop; pop+push; remove(0); pop,pop" % n
    exs = []
    for ops in ([("pop",)], [("pop",), ("push",)], [("remove", 0)], [("pop",), ("pop",)], []):
        ex, ok = _scenario(crate, res, 2, n, ops, None, False)
        exs.append(ex)
        if not ok or res.status != "holds":
            break
    return _finish_multi(res, exs, ["a removed slot exists"])
