"""Obligations on loading an index file back into memory (BPTreeFileIndex::get_records_headers) — C03 / C04 / C01."""
import re, copy
import z3
from .symex import State, Sym, Obj, VecV, Ref, FnItem, UNIT, Unsupported, fresh_name
from . import pearl as P
from . import summaries as S
from . import iters as IT
from .pearl import BV64, hdr


def _findex(crate, st, rhs, count):
    idx = Obj("blob::index::bptree::core::BPTreeFileIndex<K>")
    h = Obj("blob::index::header::IndexHeader")
    h.fields[(None, crate.field_index("IndexHeader", "record_header_size"))] = Sym(rhs, "usize")
    h.fields[(None, crate.field_index("IndexHeader", "records_count"))] = Sym(count, "usize")
    idx.fields[(None, crate.field_index("BPTreeFileIndex", "header"))] = h
    return st.new_cell(idx)


def records_fold_step(crate, L=3):
    """C03/C04: one step of the fold in BPTreeFileIndex::get_records_headers (closure#0::closure#0): record i is decoded
    from records_buf[i * record_header_size ..]; it is appended at the END of its key's vector (a new vector for a new
    key); vectors of other keys are untouched; a decoding error is returned.  Single-key map model: the decoded header
    belongs to the tracked key or to some other key."""
    res = P.ObResult("records_fold_step[L<=%d]" % L)
    fn = crate.find(r"^bptree::core::.*get_records_headers::\{closure#0\}::\{closure#0\}$")
    res.functions = ["BPTreeFileIndex::get_records_headers::{closure#0}::{closure#0} (the try_fold step)"]
    res.bounds = "tracked key's vector <= %d headers before the step, arbitrary index i (< 2^40) and record header size (< 2^20); the buffer holds record i entirely (validate_header ran first)" % L
    from .ob_record import mk_buf, BYTES_SUMMARIES
    st = State()
    rhs = z3.BitVec("record_header_size", 64)
    i = z3.BitVec("record_index", 64)
    st.pc.append(z3.And(z3.ULT(rhs, BV64(1 << 20)), z3.UGT(rhs, BV64(0)), z3.ULT(i, BV64(1 << 40))))
    fc = _findex(crate, st, rhs, z3.BitVec("records_count", 64))
    blen = z3.BitVec("records_buf_len", 64)
    # i < records_count and the buffer holds records_count whole records (validate_header ran first: length + hash)
    st.pc.append(z3.And(z3.ULT(blen, BV64(1 << 62)), z3.ULE((i + 1) * rhs, blen)))
    buf = mk_buf(blen, BV64(0))
    bc = st.new_cell(buf)
    env = Obj("{closure@get_records_headers fold}")
    env.fields[(None, 0)] = Ref(fc, (), False, "&BPTreeFileIndex<K>")
    env.fields[(None, 1)] = Ref(bc, (), False, "&[u8]")
    ec = st.new_cell(env)
    m = Obj("BTreeMap<K, Vec<Header>>")
    present0 = z3.Bool("key_present")
    v0 = P.mk_header_vec(crate, None, st, "v", L + 1)
    st.pc.append(z3.ULE(v0.len.t, BV64(L)))
    m.fields[("m", "present")] = Sym(present0, "bool")
    m.fields[("m", "others")] = Sym(z3.BitVec("other_keys", 64), "usize")
    m.fields[("m", "val")] = v0
    old = [(hdr(crate, e, "seq")) for e in v0.elems]
    n0 = v0.len.t
    tracked = z3.Bool("decoded_header_is_of_tracked_key")
    newh = P.mk_header(crate, "decoded")
    reads = []

    def h_index_from(ex_, st_, frame, t, nf, args, dty):
        b = S.deref_val(ex_, st_, args[0])
        start = ex_._get_field(st_, args[1], None, 0, "usize").t
        ln, off = b.fields[("g", "len")].t, b.fields[("g", "off")].t
        inb = z3.ULE(start, ln)
        sub = mk_buf(ln - start, off + start)
        return [(Ref(st_.new_cell(sub), (), False, "&[u8]"), inb), (("panic", "slice start out of range"), z3.Not(inb))]

    def h_deser(ex_, st_, frame, t, nf, args, dty):
        b = S.deref_val(ex_, st_, args[0])
        reads.append(b.fields[("g", "off")].t)
        okv = z3.Bool(fresh_name("decode_ok"))
        r = Obj(dty)
        r.discr = Sym(z3.If(okv, BV64(0), BV64(1)), "isize")
        r.fields[("Ok", 0)] = newh
        st_.events.append(("decode", "bincode::deserialize", [b.fields[("g", "off")].t], r))
        return [(r, None)]

    def h_key(ex_, st_, frame, t, nf, args, dty):
        o = Obj("&[u8]"); o.fields[("g", "tracked")] = Sym(tracked, "bool")
        return [(o, None)]

    def h_pass(ex_, st_, frame, t, nf, args, dty):
        a = args[0]
        a = S.deref_val(ex_, st_, a) if isinstance(a, Ref) else a
        o = Obj(dty); o.fields[("g", "tracked")] = a.fields[("g", "tracked")]
        return [(o, None)]

    def _is_tracked(ex_, st_, keyarg):
        k = S.deref_val(ex_, st_, keyarg) if isinstance(keyarg, Ref) else keyarg
        return k.fields[("g", "tracked")].t

    def h_get_mut(ex_, st_, frame, t, nf, args, dty):
        tr = _is_tracked(ex_, st_, args[1])
        alts = []
        for (val, cond) in P.h_map_get_mut(ex_, st_, frame, t, nf, args, dty):
            alts.append((val, z3.And(tr, cond) if cond is not None else tr))
        # another key: present or not, its vector is some other vector
        other = ex_.fresh("Vec<%s>" % P.HEADER_TY, st_, "othervec")
        if isinstance(other, VecV):
            st_.pc.append(z3.ULT(other.len.t, BV64(other.cap)))      # the other key's vector is not the subject; room for one push
        oc = st_.new_cell(other)
        alts.append((S.some(Ref(oc, (), True, "&mut Vec<%s>" % P.HEADER_TY), dty), z3.Not(tr)))
        alts.append((S.none(dty), z3.Not(tr)))
        return alts

    def h_insert(ex_, st_, frame, t, nf, args, dty):
        tr = _is_tracked(ex_, st_, args[1])
        if ex_.feasible(st_, tr) and ex_.feasible(st_, z3.Not(tr)):
            raise Unsupported("insert with undecided key class")
        if ex_.feasible(st_, tr):
            return P.h_map_insert(ex_, st_, frame, t, nf, args, dty)
        mm = P.map_obj(ex_, st_, args[0])
        mm.fields[("m", "others")] = Sym(mm.fields[("m", "others")].t + 1, "usize")
        st_.events.append(("map_insert_other", nf, None))
        return [(S.none(dty), None)]
    extra = [(r"^<\[u8\] as (std::ops::)?Index<(std::ops::)?RangeFrom<usize>>>::index$", h_index_from), (r"^bincode::deserialize$", h_deser),
             (r"^(record::record::)?Header::key$", h_key), (r"^(std|core)::slice::(<impl \[u8\]>::)?to_vec$", h_pass), (r"^<Vec(<u8>)? as Into<K>>::into$", h_pass),
             (r"^(std::collections::)?BTreeMap::get_mut$", h_get_mut), (r"^(std::collections::)?BTreeMap::insert$", h_insert)] + BYTES_SUMMARIES
    ex = P.mk_executor(crate, cap=L + 2, loop_bound=4, inline=[], extra_summaries=extra)
    # branch on the key class up front so that each path has a decided class
    outs = []
    for cls in (True, False):
        s1 = copy.deepcopy(st)
        s1.pc.append(tracked if cls else z3.Not(tracked))
        mm = copy.deepcopy(m)
        ex.push_frame(s1, fn, [Ref(ec, (), True, "&mut {closure}"), mm, Sym(i, "usize")], None, None)
        outs += [(cls, o) for o in ex.run(s1)]
    res.paths = len(outs)
    for cls, o in outs:
        if o.status in ("infeasible", "unwind"):
            continue
        if o.status != "returned":
            if not P.prove(ex, res, o, z3.BoolVal(False), "no panic in the fold step (%s)" % o.note):
                break
            continue
        r = o.result
        isok = ex.get_discr(o, r).t == BV64(0)
        dec = [e for e in o.events if e[0] == "decode"]
        if len(dec) != 1:
            res.status = "violated"; res.detail = "%d records decoded in one step" % len(dec); break
        if not P.prove(ex, res, o, dec[0][2][0] == i * rhs, "record i is decoded from records_buf[i * record_header_size ..]"):
            break
        d_ok = ex.get_discr(o, dec[0][3]).t == BV64(0)
        if not P.prove(ex, res, o, isok == d_ok, "Ok iff the record decoded"):
            break
        mp = r.fields.get(("Ok", 0))
        if mp is None or ("m", "present") not in mp.fields:
            if not P.prove(ex, res, o, z3.Not(isok), "Ok carries the map"):
                break
            P.cover(ex, res, o, z3.Not(isok), "decoding failed")
            continue
        v1 = mp.fields[("m", "val")]
        p1 = mp.fields[("m", "present")].t
        if cls:
            cs = [p1, v1.len.t == z3.If(present0, n0 + 1, BV64(1))]
            for k in range(L + 1):
                e = v1.elems[k] if k < v1.cap else None
                if e is None:
                    continue
                sq = P.hdrl(crate, ex, o, e, "seq")
                cs.append(z3.Implies(z3.And(present0, z3.ULT(BV64(k), n0)), sq == old[k]))
                cs.append(z3.Implies(z3.If(present0, n0, BV64(0)) == BV64(k), sq == hdr(crate, newh, "seq")))
            if not P.prove(ex, res, o, z3.Implies(isok, z3.And(cs)), "tracked key: header appended at the end of the key's vector (new vector for a new key), others in place"):
                break
            P.cover(ex, res, o, z3.And(isok, present0, n0 == BV64(L)), "appended to a full-length vector")
            P.cover(ex, res, o, z3.And(isok, z3.Not(present0)), "first header of the key")
        else:
            cs = [p1 == present0, v1.len.t == n0]
            for k in range(L):
                e = v1.elems[k]
                if e is not None:
                    cs.append(z3.Implies(z3.ULT(BV64(k), n0), P.hdrl(crate, ex, o, e, "seq") == old[k]))
            if not P.prove(ex, res, o, z3.Implies(isok, z3.And(cs)), "other key: the tracked key's vector is untouched"):
                break
            P.cover(ex, res, o, isok, "header of another key")
        P.cover(ex, res, o, z3.Not(isok), "decoding failed")
    return P.finish(ex, res, ["appended to a full-length vector", "first header of the key", "header of another key", "decoding failed"])


def h_slice_reverse(ex, st, frame, t, nf, args, dty):
    """core::slice::<impl [T]>::reverse(&mut [T]): element k becomes element len-1-k"""
    r = S.vec_ref_any(ex, st, args[0])
    v = S.as_vec(ex, st, r)
    n = v.len.t
    olds = [ex._elem(st, v, k) for k in range(v.cap)]
    new = []
    for k in range(v.cap):
        item = None
        for j in range(v.cap - 1, -1, -1):
            item = olds[j] if item is None else ex.ite(n - 1 - BV64(k) == BV64(j), olds[j], item)
        new.append(ex.ite(z3.ULT(BV64(k), n), item, olds[k]))
    nv = VecV(v.elem_ty, v.cap, v.len, new)
    st.events.append(("reverse", nf, None, None))
    return [(("write_then", r, nv, UNIT), None)]


def records_reverse(crate, L=4):
    """C03/C04/C01: the post-pass of get_records_headers (closure#0::closure#1): every per-key vector is reversed — the file
    stores a key's versions newest first, the in-memory index keeps them oldest first (push order), so after loading the
    LAST element is again the newest version.  Single-key map model: the tracked key's vector + one other vector."""
    res = P.ObResult("records_reverse[L<=%d]" % L)
    fn = crate.find(r"^bptree::core::.*get_records_headers::\{closure#0\}::\{closure#1\}$")
    res.functions = ["BPTreeFileIndex::get_records_headers::{closure#0}::{closure#1}"]
    res.bounds = "tracked key's vector <= %d headers, one other key's vector <= 2 headers" % L
    st = State()
    m = Obj("BTreeMap<K, Vec<Header>>")
    v0 = P.mk_header_vec(crate, None, st, "v", L)
    w0 = P.mk_header_vec(crate, None, st, "w", 2)
    st.pc.append(z3.UGE(v0.len.t, BV64(1)))      # a key in the map has at least one header (fold step)
    st.pc.append(z3.UGE(w0.len.t, BV64(1)))
    m.fields[("m", "present")] = Sym(z3.BoolVal(True), "bool")
    m.fields[("m", "others")] = Sym(BV64(1), "usize")
    m.fields[("m", "val")] = v0
    m.fields[("m", "other_val")] = w0
    old = [hdr(crate, e, "seq") for e in v0.elems]
    oldw = [hdr(crate, e, "seq") for e in w0.elems]
    n0, nw = v0.len.t, w0.len.t
    order = z3.Bool("tracked_key_is_first")

    def h_values_mut(ex_, st_, frame, t, nf, args, dty):
        rr = S.vec_ref_any(ex_, st_, args[0])
        a = Ref(rr.cell, tuple(rr.proj) + (("downcast", "m"), ("field", "val", "Vec<%s>" % P.HEADER_TY)), True, "&mut Vec<%s>" % P.HEADER_TY)
        b = Ref(rr.cell, tuple(rr.proj) + (("downcast", "m"), ("field", "other_val", "Vec<%s>" % P.HEADER_TY)), True, "&mut Vec<%s>" % P.HEADER_TY)
        alts = []
        for first, second, c in ((a, b, order), (b, a, z3.Not(order))):
            alts.append((IT.IterV([(z3.BoolVal(True), first), (z3.BoolVal(True), second)], "&mut Vec", True, BV64(2)), c))
        return alts
    extra = [(r"^(std::collections::)?BTreeMap::values_mut$", h_values_mut), (r"^core::slice::(<impl[^>]*>::)?reverse$", h_slice_reverse)]
    ex = P.mk_executor(crate, cap=L, loop_bound=4, inline=[], extra_summaries=extra)
    env = Obj("{closure@get_records_headers reverse}")
    ex.push_frame(st, fn, [env, m], None, None)
    outs = ex.run(st)
    res.paths = len(outs)
    for o in outs:
        if o.status in ("infeasible", "unwind"):
            continue
        if o.status != "returned":
            if not P.prove(ex, res, o, z3.BoolVal(False), "no panic (%s)" % o.note):
                break
            continue
        mp = o.result
        v1, w1 = mp.fields[("m", "val")], mp.fields[("m", "other_val")]
        ok = True
        for (vv, olds, nn, what) in ((v1, old, n0, "tracked"), (w1, oldw, nw, "other")):
            cs = [vv.len.t == nn]
            cap = len(olds)
            for k in range(cap):
                sq = P.hdrl(crate, ex, o, vv.elems[k], "seq")
                exp = None
                for j in range(cap - 1, -1, -1):
                    exp = olds[j] if exp is None else z3.If(nn - 1 - BV64(k) == BV64(j), olds[j], exp)
                cs.append(z3.Implies(z3.ULT(BV64(k), nn), sq == exp))
            if not P.prove(ex, res, o, z3.And(cs), "%s key's vector is reversed (element k = old element len-1-k), same length" % what):
                ok = False
                break
        if not ok:
            break
        P.cover(ex, res, o, z3.And(n0 == BV64(L), nw == BV64(2)), "full-length vectors reversed")
        P.cover(ex, res, o, z3.And(n0 == BV64(1)), "single-version key")
        P.cover(ex, res, o, z3.And(n0 == BV64(2)), "two versions swapped")
    return P.finish(ex, res, ["full-length vectors reversed", "single-version key", "two versions swapped"])
