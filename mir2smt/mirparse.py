"""Parser for rustc's `-Zunpretty=mir` text (nightly 1.97).  Fail-closed: anything not understood raises
MirParseError, which the engine reports as inconclusive for the obligations that need that function."""
import re


class MirParseError(Exception):
    pass


# ---------------------------------------------------------------------------------------------
# AST
# ---------------------------------------------------------------------------------------------
class Place:
    __slots__ = ("local", "proj")

    def __init__(self, local, proj):
        self.local = local      # int
        self.proj = proj        # list of ("deref",) ("field", idx, ty) ("downcast", name) ("index", local)
        #                                  ("constindex", off, minlen, from_end) ("subslice", a, b, from_end)

    def __repr__(self):
        return "Place(_%d%s)" % (self.local, "".join("." + str(p) for p in self.proj))


class Operand:
    __slots__ = ("kind", "place", "const", "ty")

    def __init__(self, kind, place=None, const=None, ty=None):
        self.kind = kind        # "copy" | "move" | "const"
        self.place = place
        self.const = const      # raw text of constant
        self.ty = ty

    def __repr__(self):
        return "Op(%s %s)" % (self.kind, self.place if self.place else self.const)


class Rvalue:
    __slots__ = ("kind", "args", "extra")

    def __init__(self, kind, args=None, extra=None):
        self.kind = kind
        self.args = args or []
        self.extra = extra

    def __repr__(self):
        return "Rv(%s %s %s)" % (self.kind, self.args, self.extra)


class Stmt:
    __slots__ = ("kind", "place", "rv", "extra", "text")

    def __init__(self, kind, place=None, rv=None, extra=None, text=""):
        self.kind, self.place, self.rv, self.extra, self.text = kind, place, rv, extra, text


class Term:
    __slots__ = ("kind", "args", "targets", "func", "dest", "text", "extra")

    def __init__(self, kind, text=""):
        self.kind = kind
        self.args = []
        self.targets = {}
        self.func = None
        self.dest = None
        self.text = text
        self.extra = None


class Block:
    def __init__(self, name, cleanup):
        self.name = name
        self.cleanup = cleanup
        self.stmts = []
        self.term = None


class Body:
    def __init__(self, name, sig):
        self.name = name
        self.sig = sig
        self.args = []          # [(local, type)]
        self.ret_ty = None
        self.locals = {}        # local -> type text
        self.debug = {}         # var name -> place text
        self.blocks = {}
        self.order = []
        self.raw = ""


# ---------------------------------------------------------------------------------------------
# helpers
# ---------------------------------------------------------------------------------------------
OPEN = "([{<"
CLOSE = ")]}>"
PAIR = {")": "(", "]": "[", "}": "{", ">": "<"}


def split_top(s, sep=","):
    """Split on `sep` at bracket depth 0.  '<' '>' are tracked, '->' and '=>' are skipped."""
    out, depth, cur, i, n = [], 0, [], 0, len(s)
    instr = False
    while i < n:
        c = s[i]
        if instr:
            cur.append(c)
            if c == "\\" and i + 1 < n:
                cur.append(s[i + 1])
                i += 2
                continue
            if c == '"':
                instr = False
            i += 1
            continue
        if c == '"':
            instr = True
            cur.append(c)
        elif c in "([{":
            depth += 1
            cur.append(c)
        elif c in ")]}":
            depth -= 1
            cur.append(c)
        elif c == "<":
            depth += 1
            cur.append(c)
        elif c == ">":
            if i > 0 and s[i - 1] in "-=":
                cur.append(c)
            else:
                depth -= 1
                cur.append(c)
        elif c == sep and depth == 0:
            out.append("".join(cur).strip())
            cur = []
        else:
            cur.append(c)
        i += 1
    last = "".join(cur).strip()
    if last or out:
        out.append(last)
    return [x for x in out if x != ""]


def match_close(s, i):
    """s[i] is an opening bracket; return index of the matching close."""
    depth = 0
    n = len(s)
    j = i
    instr = False
    while j < n:
        c = s[j]
        if instr:
            if c == "\\":
                j += 2
                continue
            if c == '"':
                instr = False
        elif c == '"':
            instr = True
        elif c in "([{":
            depth += 1
        elif c in ")]}":
            depth -= 1
            if depth == 0:
                return j
        elif c == "<" and s[i] == "<":
            depth += 1
        elif c == ">" and s[i] == "<" and not (j > 0 and s[j - 1] in "-="):
            depth -= 1
            if depth == 0:
                return j
        j += 1
    raise MirParseError("unbalanced: " + s[i:i + 60])


# ---------------------------------------------------------------------------------------------
# place / operand / rvalue
# ---------------------------------------------------------------------------------------------
def parse_place(s):
    s = s.strip()
    # strip outer parens that wrap the whole thing
    proj_tail = []
    # Handle trailing index / constindex / subslice: P[_5] , P[3 of 4], P[-1 of 4], P[1:], P[1..2]
    while s.endswith("]") and not s.startswith("["):
        # find matching '['
        depth = 0
        k = len(s) - 1
        while k >= 0:
            if s[k] == "]":
                depth += 1
            elif s[k] == "[":
                depth -= 1
                if depth == 0:
                    break
            k -= 1
        inner = s[k + 1:-1].strip()
        base = s[:k]
        m = re.fullmatch(r"_(\d+)", inner)
        if m:
            proj_tail.insert(0, ("index", int(m.group(1))))
        else:
            m = re.fullmatch(r"(-?)(\d+) of (\d+)", inner)
            if m:
                proj_tail.insert(0, ("constindex", int(m.group(2)), int(m.group(3)), m.group(1) == "-"))
            else:
                m = re.fullmatch(r"(\d+):(-?)(\d*)", inner) or re.fullmatch(r"(\d+)\.\.(-?)(\d*)", inner)
                if m:
                    proj_tail.insert(0, ("subslice", int(m.group(1)), int(m.group(3) or 0), m.group(2) == "-"))
                else:
                    raise MirParseError("place index: " + s)
        s = base.strip()
    if s.startswith("(") and match_close(s, 0) == len(s) - 1:
        inner = s[1:-1].strip()
        # forms: (*P)   (P.N: T)   (P as Variant)
        if inner.startswith("*"):
            p = parse_place(inner[1:])
            return Place(p.local, p.proj + [("deref",)] + proj_tail)
        # field: find last top-level ':' that is a type ascription  "(base.N: Type)"
        # locate ".N: " pattern at top level
        depth = 0
        idx = None
        i = 0
        n = len(inner)
        while i < n:
            c = inner[i]
            if c in "([{":
                depth += 1
            elif c in ")]}":
                depth -= 1
            elif c == "<":
                depth += 1
            elif c == ">" and not (i > 0 and inner[i - 1] in "-="):
                depth -= 1
            elif c == ":" and depth == 0 and i + 1 < n and inner[i + 1] == " " and (i == 0 or inner[i - 1] != ":"):
                idx = i
                break
            i += 1
        if idx is not None:
            left = inner[:idx]
            ty = inner[idx + 1:].strip()
            m = re.match(r"^(.*)\.(\d+)$", left.strip(), re.S)
            if not m:
                raise MirParseError("field place: " + s)
            p = parse_place(m.group(1))
            return Place(p.local, p.proj + [("field", int(m.group(2)), ty)] + proj_tail)
        m = re.match(r"^(.*) as ([A-Za-z_][\w#]*)$", inner, re.S)
        if m:
            p = parse_place(m.group(1))
            return Place(p.local, p.proj + [("downcast", m.group(2))] + proj_tail)
        # plain parenthesised place
        p = parse_place(inner)
        return Place(p.local, p.proj + proj_tail)
    if s.startswith("*"):
        p = parse_place(s[1:])
        return Place(p.local, p.proj + [("deref",)] + proj_tail)
    m = re.fullmatch(r"_(\d+)", s)
    if m:
        return Place(int(m.group(1)), proj_tail)
    raise MirParseError("place: " + s)


def parse_operand(s):
    s = s.strip()
    if s.startswith("no_retag "):
        s = s[len("no_retag "):].strip()
    if s.startswith("copy "):
        return Operand("copy", parse_place(s[5:]))
    if s.startswith("move "):
        return Operand("move", parse_place(s[5:]))
    if s.startswith("const "):
        return Operand("const", const=s[6:].strip())
    if re.match(r"^[<A-Za-z_]", s) and "::" in s:
        return Operand("const", const=s)   # bare fn item used as a value
    raise MirParseError("operand: " + s)


BINOPS = {"Add", "Sub", "Mul", "Div", "Rem", "BitXor", "BitAnd", "BitOr", "Shl", "Shr", "Eq", "Lt", "Le",
          "Ne", "Ge", "Gt", "Cmp", "Offset", "AddWithOverflow", "SubWithOverflow", "MulWithOverflow",
          "AddUnchecked", "SubUnchecked", "MulUnchecked", "ShlUnchecked", "ShrUnchecked"}
UNOPS = {"Not", "Neg", "PtrMetadata"}


def _top_level_find(s, needle):
    """last occurrence of needle at bracket depth 0 (angle brackets included)"""
    depth = 0
    i = 0
    n = len(s)
    pos = None
    instr = False
    while i < n:
        c = s[i]
        if instr:
            if c == "\\":
                i += 2
                continue
            if c == '"':
                instr = False
        elif c == '"':
            instr = True
        elif c in "([{":
            depth += 1
        elif c in ")]}":
            depth -= 1
        elif c == "<":
            depth += 1
        elif c == ">" and not (i > 0 and s[i - 1] in "-="):
            depth -= 1
        elif depth == 0 and s.startswith(needle, i):
            pos = i
        i += 1
    return pos


def parse_rvalue(s):
    s = s.strip()
    if s.startswith("no_retag "):
        s = s[len("no_retag "):].strip()
    # operand, possibly with a cast:  move _5 as u64 (IntToInt)
    if re.match(r"^(copy|move|const) ", s):
        pos = _top_level_find(s, " as ")
        m = re.match(r"^(.*) \(([A-Za-z]+(?:\(.*\))?)\)$", s[pos + 4:], re.S) if pos is not None else None
        if m and not s.startswith('const "'):
            return Rvalue("cast", [parse_operand(s[:pos])], (m.group(1).strip(), m.group(2)))
        return Rvalue("use", [parse_operand(s)])
    if s.startswith("&raw const "):
        return Rvalue("addr_of", [parse_place(s[len("&raw const "):])], "const")
    if s.startswith("&raw mut "):
        return Rvalue("addr_of", [parse_place(s[len("&raw mut "):])], "mut")
    if s.startswith("&mut "):
        return Rvalue("ref", [parse_place(s[5:])], "mut")
    if s.startswith("&fake shallow "):
        return Rvalue("ref", [parse_place(s[len("&fake shallow "):])], "fake")
    if s.startswith("&"):
        return Rvalue("ref", [parse_place(s[1:])], "shared")
    m = re.match(r"^([A-Za-z]+)\((.*)\)$", s, re.S)
    if m and m.group(1) in BINOPS:
        a = split_top(m.group(2))
        if len(a) == 2:
            return Rvalue("binop", [parse_operand(a[0]), parse_operand(a[1])], m.group(1))
    if m and m.group(1) in UNOPS:
        return Rvalue("unop", [parse_operand(m.group(2))], m.group(1))
    if m and m.group(1) == "discriminant":
        return Rvalue("discriminant", [parse_place(m.group(2))])
    if m and m.group(1) == "Len":
        return Rvalue("len", [parse_place(m.group(2))])
    if m and m.group(1) == "CopyForDeref":
        return Rvalue("use", [Operand("copy", parse_place(m.group(2)))])
    if m and m.group(1) == "ShallowInitBox":
        a = split_top(m.group(2))
        return Rvalue("shallow_init_box", [parse_operand(a[0])], a[1] if len(a) > 1 else None)
    if s.startswith("(") and match_close(s, 0) == len(s) - 1:
        inner = s[1:-1]
        parts = split_top(inner)
        return Rvalue("tuple", [parse_operand(p) for p in parts])
    if s.startswith("[") and match_close(s, 0) == len(s) - 1:
        inner = s[1:-1]
        semi = split_top(inner, ";")
        if len(semi) == 2:
            return Rvalue("repeat", [parse_operand(semi[0])], semi[1])
        return Rvalue("array", [parse_operand(p) for p in split_top(inner)])
    # aggregates:  Path::Variant(args)   Path { f: a, .. }   {closure@..} { c: a }   Path::Unit
    if s.startswith("{") and match_close(s, 0) == len(s) - 1:
        return Rvalue("adt_unit", [], s)   # capture-less closure / fn item
    if s.endswith("}"):
        # find the top-level " { " that starts the field list
        depth = 0
        k = len(s) - 1
        while k >= 0:
            c = s[k]
            if c in ")]}":
                depth += 1
            elif c in "([{":
                depth -= 1
                if depth == 0:
                    break
            k -= 1
        path = s[:k].strip()
        inner = s[k + 1:-1].strip()
        fields = []
        for part in split_top(inner):
            m2 = re.match(r"^([\w#]+): (.*)$", part, re.S)
            if not m2:
                raise MirParseError("aggregate field: " + part)
            fields.append((m2.group(1), parse_operand(m2.group(2))))
        return Rvalue("adt_struct", [f[1] for f in fields], (path, [f[0] for f in fields]))
    if s.endswith(")"):
        # Path::Variant(args)
        depth = 0
        k = len(s) - 1
        while k >= 0:
            c = s[k]
            if c in ")]}":
                depth += 1
            elif c in "([{":
                depth -= 1
                if depth == 0:
                    break
            k -= 1
        path = s[:k].strip()
        if path and re.search(r"[\w>]$", path):
            args = [parse_operand(p) for p in split_top(s[k + 1:-1])]
            return Rvalue("adt_tuple", args, path)
    if ("::" in s and re.match(r"^[<A-Za-z_{]", s)) or re.fullmatch(r"[A-Z]\w*", s):
        return Rvalue("adt_unit", [], s)
    raise MirParseError("rvalue: " + s[:200])


# ---------------------------------------------------------------------------------------------
# terminators
# ---------------------------------------------------------------------------------------------
def parse_targets(s):
    """'[return: bb1, unwind: bb87]' / '[0: bb8, otherwise: bb2]' / 'unwind continue' ..."""
    res = {}
    s = s.strip()
    if s.startswith("["):
        for part in split_top(s[1:match_close(s, 0)]):
            if ":" in part:
                k, v = part.split(":", 1)
                res[k.strip()] = v.strip()
            else:
                k, _, v = part.partition(" ")
                res[k.strip()] = v.strip()
    else:
        m = re.match(r"^(bb\d+)$", s)
        if m:
            res["goto"] = m.group(1)
        else:
            m = re.match(r"^unwind (.*)$", s)
            if m:
                res["unwind"] = m.group(1)
            else:
                raise MirParseError("targets: " + s)
    return res


def parse_terminator(text):
    s = text.strip().rstrip(";").strip()
    t = Term("?", text=s)
    if s == "return":
        t.kind = "return"
        return t
    if s == "unreachable":
        t.kind = "unreachable"
        return t
    if s in ("resume", "terminate(cleanup)", "terminate(abi)", "abort"):
        t.kind = "resume"
        return t
    if s == "coroutine_drop":
        t.kind = "return"
        return t
    m = re.match(r"^goto -> (bb\d+)$", s)
    if m:
        t.kind = "goto"
        t.targets = {"goto": m.group(1)}
        return t
    m = re.match(r"^switchInt\((.*)\) -> (\[.*\])$", s, re.S)
    if m:
        t.kind = "switch"
        t.args = [parse_operand(m.group(1))]
        t.targets = parse_targets(m.group(2))
        return t
    m = re.match(r"^drop\((.*)\) -> (.*)$", s, re.S)
    if m:
        t.kind = "drop"
        t.args = [parse_place(m.group(1))]
        t.targets = parse_targets(m.group(2))
        return t
    m = re.match(r"^assert\((.*)\) -> (.*)$", s, re.S)
    if m:
        t.kind = "assert"
        a = split_top(m.group(1))
        cond = a[0].strip()
        neg = False
        if cond.startswith("!"):
            neg = True
            cond = cond[1:]
        t.args = [parse_operand(cond)]
        t.extra = (neg, a[1] if len(a) > 1 else "")
        t.targets = parse_targets(m.group(2))
        return t
    # call:  [dest = ] func(args) -> targets
    # find the last top-level " -> "
    arrow = None
    depth = 0
    i = 0
    n = len(s)
    instr = False
    while i < n:
        c = s[i]
        if instr:
            if c == "\\":
                i += 2
                continue
            if c == '"':
                instr = False
        elif c == '"':
            instr = True
        elif c in "([{":
            depth += 1
        elif c in ")]}":
            depth -= 1
        elif c == "<":
            depth += 1
        elif c == ">" and not (i > 0 and s[i - 1] in "-="):
            depth -= 1
        elif depth == 0 and s.startswith(" -> ", i):
            arrow = i
        i += 1
    if arrow is None:
        raise MirParseError("terminator: " + s[:200])
    call = s[:arrow].strip()
    t.targets = parse_targets(s[arrow + 4:])
    # dest
    dest = None
    m = re.match(r"^(\(?[\(\*]*_\d+[^=]*?) = (.*)$", call, re.S)
    if re.match(r"^\(*\**_\d+", call):
        # the destination may be a projected place whose type ascription contains " = " (`dyn Future<Output = T>`):
        # split at the first " = " that is outside every bracket
        depth, k0, cut = 0, 0, None
        while k0 < len(call):
            ch = call[k0]
            if ch in "([{<":
                depth += 1
            elif ch in ")]}" or (ch == ">" and not (k0 > 0 and call[k0 - 1] in "-=")):
                depth -= 1
            elif depth == 0 and call.startswith(" = ", k0):
                cut = k0
                break
            k0 += 1
        if cut is not None:
            class _M:
                def __init__(self, a, b):
                    self.a, self.b = a, b

                def group(self, i):
                    return self.a if i == 1 else self.b
            m = _M(call[:cut], call[cut + 3:])
    if m and "(" in m.group(2):
        # make sure '=' is top-level assignment (not inside generics like Output = X)
        lhs = m.group(1).strip()
        try:
            dest = parse_place(lhs)
            call = m.group(2).strip()
        except MirParseError:
            dest = None
    if not call.endswith(")"):
        raise MirParseError("call: " + call[:200])
    depth = 0
    k = len(call) - 1
    while k >= 0:
        c = call[k]
        if c in ")]}":
            depth += 1
        elif c in "([{":
            depth -= 1
            if depth == 0:
                break
        k -= 1
    t.kind = "call"
    t.func = call[:k].strip()
    t.args = [parse_operand(p) for p in split_top(call[k + 1:-1])]
    t.dest = dest
    return t


# ---------------------------------------------------------------------------------------------
# bodies
# ---------------------------------------------------------------------------------------------
def parse_statement(text):
    s = text.strip().rstrip(";").strip()
    if s.startswith(("StorageLive(", "StorageDead(", "nop", "FakeRead(", "AscribeUserType(", "Coverage::",
                     "PlaceMention(", "Retag(", "ConstEvalCounter", "BackwardIncompatibleDropHint(")):
        return Stmt("nop", text=s)
    m = re.match(r"^discriminant\((.*)\) = (\d+)$", s, re.S)
    if m:
        return Stmt("setdiscr", place=parse_place(m.group(1)), extra=int(m.group(2)), text=s)
    m = re.match(r"^assume\((.*)\)$", s, re.S)
    if m:
        return Stmt("assume", rv=Rvalue("use", [parse_operand(m.group(1))]), text=s)
    m = re.match(r"^Deinit\((.*)\)$", s)
    if m:
        return Stmt("nop", text=s)
    m = re.match(r"^copy_nonoverlapping\(", s)
    if m:
        raise MirParseError("copy_nonoverlapping statement")
    # assignment: find first top-level " = "
    depth = 0
    i = 0
    n = len(s)
    pos = None
    while i < n:
        c = s[i]
        if c in "([{":
            depth += 1
        elif c in ")]}":
            depth -= 1
        elif c == "<":
            depth += 1
        elif c == ">" and not (i > 0 and s[i - 1] in "-="):
            depth -= 1
        elif depth == 0 and s.startswith(" = ", i):
            pos = i
            break
        i += 1
    if pos is None:
        raise MirParseError("statement: " + s[:200])
    return Stmt("assign", place=parse_place(s[:pos]), rv=parse_rvalue(s[pos + 3:]), text=s)


FN_RE = re.compile(r"^fn (.*?)\((.*)\) -> (.*) \{$", re.S)


def parse_bodies(text, wanted=None):
    """Return {fn_name: Body}.  `wanted`: callable(name)->bool to limit parsing cost (bodies not wanted keep raw
    text only)."""
    bodies = {}
    lines = text.split("\n")
    i = 0
    n = len(lines)
    while i < n:
        line = lines[i]
        if line.startswith("fn ") and line.rstrip().endswith("{"):
            j = i
            # body ends at first line == "}" at column 0
            while j < n and lines[j] != "}":
                j += 1
            header = line
            m = FN_RE.match(header.rstrip())
            if m:
                name = m.group(1).strip()
                b = Body(name, header)
                b.raw = "\n".join(lines[i:j + 1])
                b._args_text = m.group(2)
                b.ret_ty = m.group(3).strip()
                # several bodies can share a name (e.g. closures in different impls print differently, so rare)
                key = name
                k = 2
                while key in bodies:
                    key = "%s#%d" % (name, k)
                    k += 1
                bodies[key] = b
            i = j + 1
            continue
        i += 1
    return bodies


def parse_consts(text):
    """`const NAME: TY = const LIT;` one-liners and `const NAME: TY = { body }` -> {name: ("lit", ty, text) | ("body", Body)}"""
    out = {}
    lines = text.split("\n")
    i, n = 0, len(lines)
    while i < n:
        line = lines[i]
        if line.startswith("const ") or line.startswith("static "):
            NAME = r"(.*?(?:promoted\[\d+\]|\b[A-Za-z_][A-Za-z0-9_]*|_))"
            m = re.match(r"^(?:const|static(?: mut)?) " + NAME + r": (.*) = const (.*);$", line)
            if m:
                out.setdefault(m.group(1).strip(), ("lit", m.group(2).strip(), m.group(3).strip()))
            else:
                m = re.match(r"^(?:const|static(?: mut)?) " + NAME + r": (.*) = \{$", line)
                if m:
                    j = i
                    while j < n and lines[j] != "}":
                        j += 1
                    b = Body(m.group(1).strip(), line)
                    b.raw = "\n".join(lines[i:j + 1])
                    b._args_text = ""
                    b.ret_ty = m.group(2).strip()
                    out.setdefault(m.group(1).strip(), ("body", b))
                    i = j
        i += 1
    return out


def parse_body(b):
    """Fill in blocks of a Body from b.raw (lazy)."""
    if b.blocks:
        return b
    for a in split_top(b._args_text):
        m = re.match(r"^_(\d+): (.*)$", a.strip(), re.S)
        if not m:
            raise MirParseError("arg: " + a)
        b.args.append((int(m.group(1)), m.group(2).strip()))
        b.locals[int(m.group(1))] = m.group(2).strip()
    lines = b.raw.split("\n")[1:-1]
    cur = None
    pending = ""
    for line in lines:
        st = line.strip()
        if not st:
            continue
        m = re.match(r"^(?:let )?(?:mut )?_(\d+): (.*);$", st)
        if cur is None and st.startswith("let "):
            if m:
                b.locals[int(m.group(1))] = m.group(2).strip()
            continue
        if cur is None and st.startswith("debug "):
            m = re.match(r"^debug (\S+) => (.*);$", st)
            if m:
                b.debug[m.group(1)] = m.group(2)
            continue
        if cur is None and (st.startswith("scope ") or st == "}"):
            continue
        m = re.match(r"^(bb\d+)( \(cleanup\))?: \{$", st)
        if m:
            cur = Block(m.group(1), bool(m.group(2)))
            b.blocks[cur.name] = cur
            b.order.append(cur.name)
            pending = ""
            continue
        if cur is not None and st == "}":
            if pending.strip():
                raise MirParseError("dangling text in %s: %s" % (cur.name, pending[:100]))
            cur = None
            continue
        if cur is None:
            continue
        pending = (pending + " " + st).strip() if pending else st
        if not pending.endswith(";"):
            continue
        text = pending
        pending = ""
        cur._items = getattr(cur, "_items", [])
        cur._items.append(text)
    for blk in b.blocks.values():
        items = getattr(blk, "_items", [])
        if not items:
            raise MirParseError("empty block %s in %s" % (blk.name, b.name))
        if blk.cleanup:
            # cleanup blocks are never executed by the engine (no unwinding model); keep them unparsed
            blk.term = Term("resume", text=items[-1])
            continue
        for it in items[:-1]:
            blk.stmts.append(parse_statement(it))
        blk.term = parse_terminator(items[-1])
    return b
