"""Obligations on src/storage/core.rs, observer_worker.rs: lifecycle kernels, worker survival, cross-blob folds."""
import re
import z3
from .symex import State, Sym, Obj, VecV, Ref, FnItem, FutureV, UNIT, Unsupported
from . import pearl as P
from . import summaries as S
from . import iters as IT
from .pearl import BV64
from .ob_blob import idx, _check_paths, _ev_result_ok, INLINE_BLOB

INLINE_STORAGE = INLINE_BLOB + [r"^Inner::(safe|config|io_driver|has_active_blob)$", r"^Option::"]


def worker_survives(crate):
    """C13: ObserverWorker::process_msg must not return Err because a lifecycle request does not apply
    (run() panics on Err, which ends rotation, dumps and syncs)."""
    res = P.ObResult("worker_survives")
    res.finding_key = "process_msg-propagates-lifecycle-error"
    fn = crate.method("ObserverWorker", "process_msg")
    res.functions = ["ObserverWorker::process_msg (async body)"]
    res.bounds = "one message, every OperationType, every callee outcome"
    ex = P.mk_executor(crate, cap=2, loop_bound=4, inline=[])
    st = State()
    w = Obj("observer_worker::ObserverWorker<K>")
    wc = st.new_cell(w)
    msg = Obj("observer::Msg")
    op = Obj("observer::OperationType")
    opd = z3.BitVec("optype", 64)
    op.discr = Sym(opd, "isize")
    OT = crate.enums["OperationType"]
    st.pc.append(z3.Or([opd == BV64(v) for v in OT.values()]))
    msg.fields[(None, crate.field_index("Msg", "optype"))] = op
    outs = P.drive_async(ex, st, fn, [Ref(wc, (), True, "&mut ObserverWorker<K>"), msg])
    res.paths = len(outs)
    lifecycle = ("Inner::close_active_blob", "Inner::create_active_blob", "Inner::restore_active_blob")

    def per_path(o, isok, payload):
        evs = P.events_of(o)
        for e in evs:
            if e[0] == "await" and any(l in e[1] for l in lifecycle):
                r_ok = _ev_result_ok(ex, o, e)
                P.cover(ex, res, o, z3.Not(r_ok), "lifecycle request that does not apply (%s)" % e[1].split("::")[-1])
                if not P.prove(ex, res, o, z3.Implies(z3.Not(r_ok), isok), "inapplicable %s request does not kill the worker" % e[1].split("::")[-1]):
                    res.replay = {"kind": "native", "test": "c13_worker_survives", "request": e[1].split("::")[-1]}
                    return False
        P.cover(ex, res, o, isok, "message processed")
        return True

    _check_paths(ex, res, outs, per_path)
    return P.finish(ex, res, ["message processed", "lifecycle request that does not apply (close_active_blob)",
                              "lifecycle request that does not apply (create_active_blob)",
                              "lifecycle request that does not apply (restore_active_blob)"])


def _inner_state(crate, ex, st, active_present=None):
    """Symbolic storage::core::Inner<K>: safe (tokio RwLock<Safe<K>>) with active_blob: Option<Box<ASRwLock<Blob>>> and
    blobs: Arc<RwLock<HierarchicalFilters>> left lazy."""
    inner = Obj("storage::core::Inner<K>")
    lock = Obj("tokio::sync::RwLock<storage::core::Safe<K>>")
    safe = Obj("storage::core::Safe<K>")
    ab = Obj("std::option::Option<std::boxed::Box<async_lock::RwLock<blob::core::Blob<K>>>>")
    d = z3.BitVec("active_present", 64)
    st.pc.append(z3.Or(d == BV64(0), d == BV64(1)))
    ab.discr = Sym(d, "isize")
    blobcell = st.new_cell(None)
    ablock = Obj("async_lock::RwLock<blob::core::Blob<K>>")
    blob = Obj("blob::core::Blob<K>")
    blob.tag = ("the_active_blob",)
    from .ob_blob import file_obj
    bf, _bsize, _bsynced = file_obj(crate, st, "activefile")
    blob.fields[(None, crate.field_index("Blob", "file"))] = bf
    ablock.fields[(None, 7000)] = blob
    st.mem[blobcell] = ablock
    ab.fields[("Some", 0)] = Ref(blobcell, (), True, "Box<async_lock::RwLock<blob::core::Blob<K>>>")
    safe.fields[(None, crate.field_index("Safe", "active_blob"))] = ab
    lock.fields[(None, 7000)] = safe
    inner.fields[(None, crate.field_index("Inner", "safe"))] = lock
    c = st.new_cell(inner)
    return Ref(c, (), False, "&storage::core::Inner<K>"), safe, ab, d, blob


def _safe_in(crate, o, iref):
    inner = o.mem[iref.cell]
    return inner.fields[(None, crate.field_index("Inner", "safe"))].fields[(None, 7000)]


def restore_loads_index(crate):
    """C04: Inner::restore_active_blob: Ok only if no active blob existed and a closed blob was popped; the blob that
    becomes active had its index loaded into memory first (load_index awaited, Ok); on any Err no closed blob is lost."""
    res = P.ObResult("restore_loads_index")
    res.finding_key = "restore_active_blob-index-on-disk"
    fn = crate.method("Inner", "restore_active_blob")
    res.functions = ["Inner::restore_active_blob (async body)", "Inner::has_active_blob (async body)"]
    res.bounds = "single call, every outcome of pop / load_index"
    ex = P.mk_executor(crate, cap=2, loop_bound=4, inline=INLINE_STORAGE)
    st = State()
    iref, safe, ab, act, blob = _inner_state(crate, ex, st)
    has_closed = z3.Bool("has_closed_blob")

    def hook(ex_, st_, cname, args, dty):
        # the container's answers are consistent with each other: last_id / get_child_mut / pop agree on emptiness
        if cname in ("HierarchicalFilters::last_id", "HierarchicalFilters::get_child_mut", "HierarchicalFilters::pop", "HierarchicalFilters::last"):
            v = ex_.fresh(dty, st_, "hf")
            st_.pc.append((ex_.get_discr(st_, v).t == BV64(1)) == has_closed)
            st_.events.append(("call", cname, args, v))
            return [(v, None)]
        return None
    ex.call_hook = hook
    outs = P.drive_async(ex, st, fn, [iref])
    res.paths = len(outs)

    def per_path(o, isok, payload):
        evs = P.events_of(o)
        names = [e[1] for e in evs]
        i_pop = idx(names, "HierarchicalFilters::pop")
        i_load = idx(names, "load_index")
        i_push = idx(names, "HierarchicalFilters::push")
        if not P.prove(ex, res, o, z3.Implies(isok, act == BV64(0)), "Ok only when no active blob existed"):
            return False
        if not P.prove(ex, res, o, z3.Implies(act == BV64(1), z3.And(z3.Not(isok), z3.BoolVal(i_pop is None))), "active blob present: Err, nothing popped"):
            return False
        if i_load is not None:
            l_ok = _ev_result_ok(ex, o, evs[i_load])
            if i_pop is not None and not i_load < i_pop:
                res.status = "violated"; res.detail = "the blob is taken out of the closed list before its index is loaded"; return False
            if not P.prove(ex, res, o, z3.Implies(z3.Not(l_ok), z3.And(z3.Not(isok), z3.BoolVal(i_pop is None))),
                           "failed index load: Err, the blob stays in the closed list"):
                return False
            P.cover(ex, res, o, z3.Not(l_ok), "index load failed")
        if i_pop is not None:
            popped = ex.get_discr(o, evs[i_pop][3]).t == BV64(1)
            if not P.prove(ex, res, o, z3.Implies(isok, popped), "Ok only if a closed blob was popped"):
                return False
            if i_load is None:
                if not P.prove(ex, res, o, z3.Not(z3.And(isok, popped)), "restored blob's index is loaded before it becomes active"):
                    res.replay = {"kind": "native", "test": "c04_restore_after_dump_accepts_writes"}
                    return False
            # C14: once the blob is out of the list nothing may suspend before it is installed
            later = [e for e in evs[i_pop + 1:] if e[0] == "await"]
            if later:
                res.status = "violated"; res.detail = "suspension point (%s) between pop and installing the active blob: a dropped future loses the blob" % later[0][1]
                res.replay = {"kind": "native", "test": "findings/c14_cancel_demo.rs preexisting_cancelled_restore_active_blob_loses_the_blob"}
                return False
            s2 = _safe_in(crate, o, iref)
            ab2 = s2.fields[(None, crate.field_index("Safe", "active_blob"))]
            if not P.prove(ex, res, o, z3.Implies(isok, ex.get_discr(o, ab2).t == BV64(1)), "Ok => active blob is set"):
                return False
            if not P.prove(ex, res, o, z3.Implies(popped, isok), "a popped blob is always installed"):
                return False
            P.cover(ex, res, o, isok, "restored")
            P.cover(ex, res, o, z3.Not(popped), "no closed blob")
        P.cover(ex, res, o, act == BV64(1), "active blob already present")
        return True

    _check_paths(ex, res, outs, per_path)
    return P.finish(ex, res, ["restored", "no closed blob", "active blob already present", "index load failed"])


def worker_survives_io(crate):
    """C11/C13: an I/O error while creating the next active blob (ForceUpdateActiveBlob / TryUpdateActiveBlob) must not
    make process_msg return Err (run() would panic and rotation would never resume)."""
    res = P.ObResult("worker_survives_io")
    res.finding_key = "process_msg-propagates-rotation-io-error"
    fn = crate.method("ObserverWorker", "process_msg")
    res.functions = ["ObserverWorker::process_msg (async body)"]
    res.bounds = "one message, every OperationType, every callee outcome"
    ex = P.mk_executor(crate, cap=2, loop_bound=4, inline=[])
    st = State()
    w = Obj("observer_worker::ObserverWorker<K>")
    wc = st.new_cell(w)
    msg = Obj("observer::Msg")
    op = Obj("observer::OperationType")
    opd = z3.BitVec("optype", 64)
    op.discr = Sym(opd, "isize")
    OT = crate.enums["OperationType"]
    st.pc.append(z3.Or([opd == BV64(v) for v in OT.values()]))
    msg.fields[(None, crate.field_index("Msg", "optype"))] = op
    outs = P.drive_async(ex, st, fn, [Ref(wc, (), True, "&mut ObserverWorker<K>"), msg])
    res.paths = len(outs)

    def per_path(o, isok, payload):
        evs = P.events_of(o)
        for e in evs:
            if e[0] == "await" and ("update_active_blob" in e[1]):
                r_ok = _ev_result_ok(ex, o, e)
                P.cover(ex, res, o, z3.Not(r_ok), "blob switch failed (%s)" % e[1].split("::")[-1])
                if not P.prove(ex, res, o, z3.Implies(z3.Not(r_ok), isok), "failed blob switch (%s) does not kill the worker" % e[1].split("::")[-1]):
                    res.replay = {"kind": "native", "test": "c11_rotation_continues_after_failed_blob_create"}
                    return False
        return True

    _check_paths(ex, res, outs, per_path)
    return P.finish(ex, res, ["blob switch failed (update_active_blob)", "blob switch failed (try_update_active_blob)"])


def close_active_order(crate):
    """C12/C11/C04: Inner::close_active_blob: Ok only if an active blob existed; the blob is synced (Ok) before it is
    pushed to the closed list; a failed sync is returned and the blob is NOT lost (still active); after Ok no active blob."""
    res = P.ObResult("close_active_order")
    res.finding_key = "close_active_blob-drops-blob-on-sync-error"
    fn = crate.method("Inner", "close_active_blob")
    res.functions = ["Inner::close_active_blob (async body)", "Inner::has_active_blob (async body)"]
    res.bounds = "single call, every outcome of the sync"
    ex = P.mk_executor(crate, cap=2, loop_bound=4, inline=[x for x in INLINE_STORAGE if "fsyncdata" not in x])
    st = State()
    iref, safe, ab, act, blob = _inner_state(crate, ex, st)

    def probe(ex_, st_, name, fargs, out_ty, dty):
        # C14: where is the blob at each suspension point?  (the slot's discriminant at the moment of the await)
        try:
            s_now = _safe_in(crate, st_, iref)
            a_now = ex_.get_discr(st_, s_now.fields[(None, crate.field_index("Safe", "active_blob"))]).t
        except Exception:
            a_now = None
        st_.events.append(("probe", name, a_now, None))
        return None
    ex.await_hook = probe
    outs = P.drive_async(ex, st, fn, [iref])
    res.paths = len(outs)

    def per_path(o, isok, payload):
        for e in o.events:
            # every suspension point other than the final push (in-memory, uncontended: assumed not to suspend) must find
            # the blob still in the active slot: a future dropped there loses nothing
            if e[0] == "probe" and "HierarchicalFilters::push" not in e[1] and e[2] is not None:
                if not P.prove(ex, res, o, z3.Implies(act == BV64(1), e[2] == BV64(1)),
                               "at the suspension point '%s' the blob is still in the active slot (a dropped future loses nothing)" % e[1][-40:]):
                    return False
        evs = P.events_of(o)
        names = [e[1] for e in evs]
        i_sync = idx(names, "fsyncdata")
        i_push = idx(names, "HierarchicalFilters::push")
        s2 = _safe_in(crate, o, iref)
        ab2 = s2.fields[(None, crate.field_index("Safe", "active_blob"))]
        act2 = ex.get_discr(o, ab2).t
        if not P.prove(ex, res, o, z3.Implies(isok, act == BV64(1)), "Ok only when an active blob existed"):
            return False
        if not P.prove(ex, res, o, z3.Implies(act == BV64(0), z3.And(z3.Not(isok), z3.BoolVal(i_push is None))), "no active blob: Err, nothing pushed"):
            return False
        if i_push is not None:
            if i_sync is None or not i_sync < i_push:
                res.status = "violated"; res.detail = "blob pushed to the closed list without a preceding sync"; return False
            if not P.prove(ex, res, o, _ev_result_ok(ex, o, evs[i_sync]), "closed only after a successful sync"):
                return False
            if not P.prove(ex, res, o, z3.And(isok, act2 == BV64(0)), "after close: Ok and no active blob"):
                return False
            P.cover(ex, res, o, isok, "closed")
        elif i_sync is not None:
            s_ok = _ev_result_ok(ex, o, evs[i_sync])
            if not P.prove(ex, res, o, z3.And(z3.Not(s_ok), z3.Not(isok)), "not pushed only because the sync failed; error returned"):
                return False
            if not P.prove(ex, res, o, act2 == BV64(1), "failed sync: the blob is still the active blob (not lost)"):
                res.replay = {"kind": "native+shim", "test": "findings/fsync_demo.rs c11_failed_sync_on_close_keeps_records_readable"}
                return False
            P.cover(ex, res, o, z3.Not(s_ok), "sync failed")
        P.cover(ex, res, o, act == BV64(0), "no active blob")
        return True

    _check_paths(ex, res, outs, per_path)
    return P.finish(ex, res, ["closed", "sync failed", "no active blob"])


def explicit_fsync(crate):
    """C12: Storage::fsyncdata (the public, explicit call) syncs the active blob unconditionally and returns the sync's
    result: it never returns Ok without having awaited the blob's sync when an active blob exists."""
    res = P.ObResult("explicit_fsync")
    res.finding_key = "explicit-fsyncdata-skips-sync"
    fn = crate.method("Storage", "fsyncdata")
    res.functions = ["Storage::fsyncdata (async body)", "Safe::fsyncdata (async body)", "Inner::safe"]
    res.bounds = "single call, active blob present or absent, every sync outcome, arbitrary dirty bytes / in-progress flag"
    ex = P.mk_executor(crate, cap=2, loop_bound=4,
                       inline=[x for x in INLINE_STORAGE if "fsyncdata" not in x] + [r"^Safe::fsyncdata$", r"^Inner::fsyncdata$", r"^Inner::too_many_dirty_bytes$"])
    st = State()
    iref, safe, ab, act, blob = _inner_state(crate, ex, st)
    storage = Obj("storage::core::Storage<K>")
    arc = Obj("std::sync::Arc<storage::core::Inner<K>>")
    arc.fields[(None, 7001)] = Ref(iref.cell, (), True, "&storage::core::Inner<K>")
    storage.fields[(None, crate.field_index("Storage", "inner"))] = arc
    # keep the Inner reachable under the same cell for _safe_in(): re-point iref to the Arc's payload
    sc = st.new_cell(storage)
    outs = P.drive_async(ex, st, fn, [Ref(sc, (), False, "&storage::core::Storage<K>")])
    res.paths = len(outs)

    def per_path(o, isok, payload):
        evs = P.events_of(o)
        names = [e[1] for e in evs]
        i_sync = idx(names, "fsyncdata")
        if not P.prove(ex, res, o, z3.Implies(z3.And(act == BV64(1), isok), z3.BoolVal(i_sync is not None)),
                       "Ok with an active blob => the blob's sync was awaited"):
            res.replay = {"kind": "native+shim", "test": "findings/fsync_demo.rs c12_explicit_fsyncdata_syncs_below_threshold"}
            return False
        if i_sync is not None:
            s_ok = _ev_result_ok(ex, o, evs[i_sync])
            if not P.prove(ex, res, o, isok == s_ok, "result = result of the sync"):
                return False
            P.cover(ex, res, o, s_ok, "synced")
            P.cover(ex, res, o, z3.Not(s_ok), "sync failed")
        P.cover(ex, res, o, act == BV64(0), "no active blob")
        return True

    _check_paths(ex, res, outs, per_path)
    return P.finish(ex, res, ["synced", "sync failed", "no active blob"])


def _closed_blobs_hook(n_term, cap):
    """call_hook: HierarchicalFilters::iter_possible_childs(_rev) / iter() return an iterator over n symbolic children"""
    def hook(ex, st, cname, args, dty):
        if cname in ("HierarchicalFilters::iter_possible_childs_rev", "HierarchicalFilters::iter_possible_childs"):
            slots = []
            for k in range(cap):
                tup = Obj("(usize, &Leaf<Blob<K>>)")
                tup.fields[(None, 0)] = Sym(z3.BitVec("child_id_%d" % k, 64), "usize")
                leaf = Obj("hierarchical::Leaf<blob::core::Blob<K>>")
                lc = st.new_cell(leaf)
                tup.fields[(None, 1)] = Ref(lc, (), False, "&hierarchical::Leaf<blob::core::Blob<K>>")
                slots.append((z3.ULT(BV64(k), n_term), tup))
            it = IT.IterV(slots, "?", True, n_term)
            st.events.append(("call", cname, args, it))
            return [(it, None)]
        return None
    return hook


def latest_entry_fold(crate, B=3):
    """C01: Storage::get_latest_entry = fold of ReadResult::latest over [active blob's answer] ++ [closed blobs' answers in
    iteration order]: the result is the FIRST answer of maximal timestamp (NotFound counts as lowest); every candidate blob
    is consulted; an Err of any blob is returned."""
    res = P.ObResult("latest_entry_fold[B<=%d]" % B)
    fn = crate.method("Storage", "get_latest_entry")
    res.functions = ["Storage::get_latest_entry (async body)", "ReadResult<Entry>::latest", "ReadResult<Entry>::timestamp",
                     "Entry::timestamp", "RecordHeader::timestamp", "BlobRecordTimestamp::new"]
    res.bounds = "active blob present/absent, <= %d closed candidate blobs, arbitrary per-blob answers" % B
    ex = P.mk_executor(crate, cap=B, loop_bound=B + 3,
                       inline=INLINE_BLOB + [r"^ReadResult::(latest|timestamp)$", r"^Entry::timestamp$", r"^Option::"])
    st = State()
    n = z3.BitVec("closed_candidates", 64)
    st.pc.append(z3.ULE(n, BV64(B)))
    ex.call_hook = _closed_blobs_hook(n, B)
    safe = Obj("storage::core::Safe<K>")
    ab = Obj("std::option::Option<std::boxed::Box<async_lock::RwLock<blob::core::Blob<K>>>>")
    act = z3.BitVec("active_present", 64)
    st.pc.append(z3.Or(act == BV64(0), act == BV64(1)))
    ab.discr = Sym(act, "isize")
    ablock = Obj("async_lock::RwLock<blob::core::Blob<K>>")
    bc = st.new_cell(ablock)
    ab.fields[("Some", 0)] = Ref(bc, (), True, "Box<async_lock::RwLock<blob::core::Blob<K>>>")
    safe.fields[(None, crate.field_index("Safe", "active_blob"))] = ab
    sc = st.new_cell(safe)
    key = Ref(st.new_cell(Obj("K")), (), False, "&K")
    meta = Obj("std::option::Option<&record::record::Meta>")
    outs = P.drive_async(ex, st, fn, [Ref(sc, (), False, "&storage::core::Safe<K>"), key, meta])
    res.paths = len(outs)
    RR = crate.enums["ReadResult"]
    hf = P.record_header_fields(crate)

    def rr_view(o, rr):
        d = ex.get_discr(o, rr).t
        ent = ex._get_field(o, rr, "Found", 0, "blob::entry::Entry")
        hdr_o = ex._get_field(o, ent, None, crate.field_index("Entry", "header"), "record::record::Header")
        ts_found = ex._get_field(o, hdr_o, None, hf["timestamp"], "u64").t
        ident = ex._get_field(o, hdr_o, None, hf["blob_offset"], "u64").t
        dts = ex._get_field(o, rr, "Deleted", 0, "BlobRecordTimestamp")
        ts_del = ex._get_field(o, dts, None, 0, "u64").t
        ts = z3.If(d == BV64(RR["Found"]), ts_found, ts_del)
        has = d != BV64(RR["NotFound"])
        return d, ts, has, ident

    def per_path(o, isok, payload):
        evs = [e for e in P.events_of(o) if e[0] == "await" and "get_latest_entry" in e[1]]
        answers = []
        any_err = z3.BoolVal(False)
        for e in evs:
            r = e[3]
            r_ok = ex.get_discr(o, r).t == BV64(0)
            any_err = z3.Or(any_err, z3.Not(r_ok))
            answers.append((r_ok, ex._get_field(o, r, "Ok", 0, "ReadResult<Entry>")))
        # number of blobs consulted
        expect_n = z3.If(act == BV64(1), n + 1, n)
        if not P.prove(ex, res, o, z3.Implies(isok, BV64(len(evs)) == expect_n), "Ok => every candidate blob was consulted"):
            return False
        if not P.prove(ex, res, o, isok == z3.Not(any_err), "Err iff some blob answered Err"):
            return False
        if answers:
            views = [rr_view(o, a[1]) for a in answers]
            # reference winner: first maximal (has, ts)
            w_d, w_ts, w_has, w_id = views[0]
            for d, ts, has, ident in views[1:]:
                better = z3.And(has, z3.Or(z3.Not(w_has), z3.UGT(ts, w_ts)))
                w_d, w_ts, w_has, w_id = z3.If(better, d, w_d), z3.If(better, ts, w_ts), z3.Or(w_has, has), z3.If(better, ident, w_id)
            P.cover(ex, res, o, z3.Not(isok), "a blob failed")
            acc = payload.fields.get(("Ok", 0))
            if acc is None:
                return True
            a_d, a_ts, a_has, a_id = rr_view(o, acc)
            claim = z3.And(a_has == w_has,
                           z3.Implies(w_has, z3.And(a_d == w_d, a_ts == w_ts)),
                           z3.Implies(z3.And(w_has, w_d == BV64(RR["Found"])), a_id == w_id))
            if not P.prove(ex, res, o, z3.Implies(isok, claim), "result = first answer of maximal timestamp"):
                return False
            if len(views) >= 2:
                P.cover(ex, res, o, z3.And(isok, views[0][2], views[1][2], views[0][1] == views[1][1], views[0][0] != views[1][0]),
                        "timestamp tie between two blobs with different kinds")
                P.cover(ex, res, o, z3.And(isok, views[0][2], views[1][2], z3.UGT(views[1][1], views[0][1]), views[0][0] == BV64(RR["Found"])),
                        "older blob holds the newer record while the first blob answers Found")
        else:
            acc = payload.fields.get(("Ok", 0))
            if acc is not None:
                if not P.prove(ex, res, o, z3.Implies(isok, ex.get_discr(o, acc).t == BV64(RR["NotFound"])), "no blobs => NotFound"):
                    return False
            P.cover(ex, res, o, isok, "no candidate blob")
        P.cover(ex, res, o, z3.And(isok, BV64(len(evs)) == BV64(B + 1)), "active + all closed consulted")
        P.cover(ex, res, o, z3.Not(isok), "a blob failed")
        return True

    _check_paths(ex, res, outs, per_path)
    return P.finish(ex, res, ["timestamp tie between two blobs with different kinds",
                              "older blob holds the newer record while the first blob answers Found",
                              "no candidate blob", "active + all closed consulted", "a blob failed"])


def _mk_entry(crate, name):
    e = Obj("blob::entry::Entry")
    h = P.mk_header(crate, name)
    e.fields[(None, crate.field_index("Entry", "header"))] = h
    return e, h


def read_all_merge(crate, B=2, Lb=2):
    """C02: Storage::read_all_with_deletion_marker merges the per-blob lists (each newest-first and cut after its own first
    marker) into rank order (timestamp desc, blob recency, append recency) and cuts right after the first marker:
    an input record is returned iff no input marker ranks strictly before it; order is rank order."""
    res = P.ObResult("read_all_merge[blobs<=%d,per-blob<=%d]" % (B + 1, Lb))
    fn = crate.method("Storage", "read_all_with_deletion_marker")
    res.functions = ["Storage::read_all_with_deletion_marker (async body) + closures", "Entry::is_deleted", "Entry::timestamp",
                     "RecordHeader::{is_deleted,timestamp}", "BlobRecordTimestamp::new", "<BlobRecordTimestamp as Ord>::cmp"]
    res.bounds = "active blob present/absent, <= %d closed blobs, <= %d entries per blob" % (B, Lb)
    total = (B + 1) * Lb
    ex = P.mk_executor(crate, cap=total, loop_bound=max(B, total) + 3,
                       inline=INLINE_BLOB + [r"^Entry::(timestamp|is_deleted)$", r"^Option::", r"^<BlobRecordTimestamp as (PartialOrd|Ord|PartialEq)>::",
                                             r"^Inner::safe$"])
    st = State()
    n = z3.BitVec("closed_candidates", 64)
    st.pc.append(z3.ULE(n, BV64(B)))
    ex.call_hook = _closed_blobs_hook(n, B)
    lists = []

    def hook(ex_, st_, name, fargs, out_ty, dty):
        if "read_all_entries_with_deletion_marker" not in name:
            return None
        k = len([e for e in st_.events if e[0] == "await" and "read_all_entries" in e[1]])
        ents = []
        for j in range(Lb):
            e, h = _mk_entry(crate, "b%de%d" % (k, j))
            ents.append(e)
        ln = z3.BitVec("b%d_len" % k, 64)
        vec = VecV("blob::entry::Entry", total, Sym(ln, "usize"), ents + [None] * (total - Lb))
        st_.pc.append(z3.ULE(ln, BV64(Lb)))
        # per-blob post-condition of get_all_with_deletion_marker: ts non-increasing, a marker only in last position
        for j in range(Lb - 1):
            a = ents[j].fields[(None, crate.field_index("Entry", "header"))]
            b = ents[j + 1].fields[(None, crate.field_index("Entry", "header"))]
            st_.pc.append(z3.Implies(z3.ULT(BV64(j + 1), ln), z3.And(z3.UGE(P.hdr(crate, a, "timestamp"), P.hdr(crate, b, "timestamp")),
                                                                      P.hdr(crate, a, "flags") & 1 == 0)))
        okv = z3.Bool("b%d_ok" % k)
        r = Obj(out_ty)
        r.discr = Sym(z3.If(okv, BV64(0), BV64(1)), "isize")
        r.fields[("Ok", 0)] = vec
        st_.events.append(("await", name, fargs, r))
        return [(S.poll_ready(dty, r), None)]
    ex.await_hook = hook
    storage = Obj("storage::core::Storage<K>")
    inner = Obj("storage::core::Inner<K>")
    lock = Obj("tokio::sync::RwLock<storage::core::Safe<K>>")
    safe = Obj("storage::core::Safe<K>")
    ab = Obj("std::option::Option<std::boxed::Box<async_lock::RwLock<blob::core::Blob<K>>>>")
    act = z3.BitVec("active_present", 64)
    st.pc.append(z3.Or(act == BV64(0), act == BV64(1)))
    ab.discr = Sym(act, "isize")
    bc = st.new_cell(Obj("async_lock::RwLock<blob::core::Blob<K>>"))
    ab.fields[("Some", 0)] = Ref(bc, (), True, "Box<async_lock::RwLock<blob::core::Blob<K>>>")
    safe.fields[(None, crate.field_index("Safe", "active_blob"))] = ab
    lock.fields[(None, 7000)] = safe
    inner.fields[(None, crate.field_index("Inner", "safe"))] = lock
    arc = Obj("std::sync::Arc<storage::core::Inner<K>>")
    arc.fields[(None, 7001)] = inner
    storage.fields[(None, crate.field_index("Storage", "inner"))] = arc
    sc = st.new_cell(storage)
    keyobj = Obj("K")
    outs = P.drive_async(ex, st, fn, [Ref(sc, (), False, "&storage::core::Storage<K>"), keyobj])
    res.paths = len(outs)
    hidx = crate.field_index("Entry", "header")

    def per_path(o, isok, payload):
        evs = [e for e in P.events_of(o) if e[0] == "await" and "read_all_entries" in e[1]]
        any_err = z3.BoolVal(False)
        inputs = []   # (valid, ts, deleted, id) in concatenation (= rank tie-break) order
        for e in evs:
            r = e[3]
            r_ok = ex.get_discr(o, r).t == BV64(0)
            any_err = z3.Or(any_err, z3.Not(r_ok))
            vec = r.fields[("Ok", 0)]
            for j in range(Lb):
                h = vec.elems[j].fields[(None, hidx)]
                inputs.append((z3.ULT(BV64(j), vec.len.t), P.hdr(crate, h, "timestamp"), P.hdr(crate, h, "flags") & 1 == 1, P.hdr(crate, h, "seq")))
        if not P.prove(ex, res, o, isok == z3.Not(any_err), "Err iff some blob answered Err"):
            return False
        expect_n = z3.If(act == BV64(1), n + 1, n)
        if not P.prove(ex, res, o, z3.Implies(isok, BV64(len(evs)) == expect_n), "Ok => every candidate blob was read"):
            return False
        P.cover(ex, res, o, z3.Not(isok), "a blob failed")
        out = payload.fields.get(("Ok", 0))
        if out is None or not isinstance(out, VecV):
            return True
        # distinct identities
        ids = [i[3] for i in inputs]
        o.pc.append(z3.Distinct(ids) if len(ids) > 1 else z3.BoolVal(True))
        outs_v = []
        for k in range(out.cap):
            e = out.elems[k]
            if e is None:
                outs_v.append(None)
                continue
            h = ex._get_field(o, e, None, hidx, "record::record::Header")
            outs_v.append((P.hdrl(crate, ex, o, h, "timestamp"), P.hdrl(crate, ex, o, h, "flags") & 1 == 1, P.hdrl(crate, ex, o, h, "seq")))
        olen = out.len.t
        claims = []
        # (1) membership: input i is returned iff no input marker ranks strictly before it
        cnt = BV64(0)
        for i, (vi, tsi, di, idi) in enumerate(inputs):
            before = []
            for m, (vm, tsm, dm, idm) in enumerate(inputs):
                if m == i:
                    continue
                ranks_before = z3.Or(z3.UGT(tsm, tsi), z3.And(tsm == tsi, z3.BoolVal(m < i)))
                before.append(z3.And(vm, dm, ranks_before))
            hidden = z3.Or(before) if before else z3.BoolVal(False)
            present = z3.Or([z3.And(z3.ULT(BV64(k), olen), ov[2] == idi) for k, ov in enumerate(outs_v) if ov is not None] or [z3.BoolVal(False)])
            claims.append(z3.Implies(vi, present == z3.Not(hidden)))
            cnt = cnt + z3.If(z3.And(vi, z3.Not(hidden)), BV64(1), BV64(0))
        claims.append(olen == cnt)
        # (2) order: rank order (ts desc; ties keep concatenation order)
        for k in range(out.cap - 1):
            a, b = outs_v[k], outs_v[k + 1]
            if a is None or b is None:
                claims.append(z3.Not(z3.ULT(BV64(k + 1), olen)))
                continue
            idx_a = BV64(0); idx_b = BV64(0)
            for i, (vi, tsi, di, idi) in enumerate(inputs):
                idx_a = z3.If(a[2] == idi, BV64(i), idx_a)
                idx_b = z3.If(b[2] == idi, BV64(i), idx_b)
            claims.append(z3.Implies(z3.ULT(BV64(k + 1), olen),
                                     z3.Or(z3.UGT(a[0], b[0]), z3.And(a[0] == b[0], z3.ULT(idx_a, idx_b)))))
        if not P.prove(ex, res, o, z3.Implies(isok, z3.And(claims)), "result = rank-ordered records cut after the first marker"):
            return False
        nblobs_nonempty = [z3.ULT(BV64(0), e[3].fields[("Ok", 0)].len.t) for e in evs]
        if len(evs) >= 2:
            P.cover(ex, res, o, z3.And(isok, nblobs_nonempty[0], nblobs_nonempty[1], z3.ULT(olen, cnt + 0) == False, z3.Or([z3.And(i[0], i[2]) for i in inputs])),
                    "two blobs contribute and a marker is present")
            P.cover(ex, res, o, z3.And(isok, inputs[0][0], inputs[Lb][0], z3.ULT(inputs[0][1], inputs[Lb][1])), "older blob holds a newer record")
        if len(evs) >= 3:
            P.cover(ex, res, o, z3.And(isok, *nblobs_nonempty[:3]), "three blobs contribute")
        P.cover(ex, res, o, z3.Not(isok), "a blob failed")
        return True

    _check_paths(ex, res, outs, per_path)
    need = ["two blobs contribute and a marker is present", "older blob holds a newer record", "a blob failed"]
    if B >= 2:
        need.append("three blobs contribute")
    return P.finish(ex, res, need)


def deferred_deadline_inv(crate):
    """C13: ObserverWorker::process_deferred_blob_index_dump is entered with next_deadline reset (tick_with_deadline did that):
    whenever it leaves a deferred dump request registered (deferred_index_dump_info is Some) a deadline is armed again,
    otherwise the worker would wait for messages only and the postponed dump would never start."""
    res = P.ObResult("deferred_deadline_inv")
    res.finding_key = "deferred-dump-without-deadline"
    fn = crate.method("ObserverWorker", "process_deferred_blob_index_dump")
    res.functions = ["ObserverWorker::process_deferred_blob_index_dump (async body)", "ObserverWorker::update_deadline"]
    res.bounds = "one call, deferred request present/absent, every outcome of the elapsed-time tests and of starting the dump task"
    ex = P.mk_executor(crate, cap=2, loop_bound=4, inline=[r"^ObserverWorker::update_deadline$", r"^Inner::config$"],
                       havoc=[r"^<.*(Instant|Duration) as PartialOrd>::", r"^<.*Instant as (std::ops::)?Add<.*>>::add$", r"^(std::cmp::)?(Ord|PartialOrd)::(min|max)$",
                              r"^<.*Instant as Ord>::", r"^Config::"])
    st = State()
    w = Obj("observer_worker::ObserverWorker<K>")
    nd = Obj("std::option::Option<tokio::time::Instant>")
    nd.discr = Sym(BV64(0), "isize")
    w.fields[(None, crate.field_index("ObserverWorker", "next_deadline"))] = nd
    di = Obj("std::option::Option<std::boxed::Box<observer_worker::DeferredEventData>>")
    did = z3.BitVec("deferred_present", 64)
    st.pc.append(z3.Or(did == BV64(0), did == BV64(1)))
    di.discr = Sym(did, "isize")
    dc = st.new_cell(Obj("observer_worker::DeferredEventData"))
    di.fields[("Some", 0)] = Ref(dc, (), True, "Box<observer_worker::DeferredEventData>")
    w.fields[(None, crate.field_index("ObserverWorker", "deferred_index_dump_info"))] = di
    wc = st.new_cell(w)
    outs = P.drive_async(ex, st, fn, [Ref(wc, (), True, "&mut ObserverWorker<K>")])
    res.paths = len(outs)

    def per_path(o, isok, payload):
        w2 = o.mem[wc]
        nd2 = w2.fields[(None, crate.field_index("ObserverWorker", "next_deadline"))]
        di2 = w2.fields[(None, crate.field_index("ObserverWorker", "deferred_index_dump_info"))]
        pending = ex.get_discr(o, di2).t == BV64(1)
        armed = ex.get_discr(o, nd2).t == BV64(1)
        if not P.prove(ex, res, o, isok, "never returns Err (run() panics on an Err of the deferred processing)"):
            return False
        if not P.prove(ex, res, o, z3.Implies(z3.And(isok, pending), armed), "a registered deferred dump always has a deadline"):
            res.replay = {"kind": "native", "test": "findings/c13_deferred_dump_demo.rs deferred_dump_registered_while_dump_is_running_completes"}
            return False
        evs = P.events_of(o)
        started = [e for e in evs if "try_run_old_blob_indexes_dump_task" in e[1]]
        if started:
            r = started[0][3]
            if isinstance(r, Sym):
                P.cover(ex, res, o, z3.And(z3.Not(r.t), pending), "dump task busy: request kept and re-armed")
                P.cover(ex, res, o, z3.And(r.t, z3.Not(pending)), "dump started: request cleared")
        else:
            P.cover(ex, res, o, z3.And(pending, did == BV64(1)), "not yet time: deadline moved")
        P.cover(ex, res, o, did == BV64(0), "nothing deferred")
        return True

    _check_paths(ex, res, outs, per_path)
    return P.finish(ex, res, ["dump task busy: request kept and re-armed", "dump started: request cleared", "not yet time: deadline moved", "nothing deferred"])


def fsync_flag_released(crate):
    """C12: Inner::fsyncdata (the background sync task's body): the single-flight flag fsync_in_progress, once taken, is
    released on every way out (sync done, nothing to sync, sync failed); otherwise no later background sync would ever start.
    If the flag is already taken the call returns Ok without touching it."""
    res = P.ObResult("fsync_flag_released")
    fn = crate.method("Inner", "fsyncdata")
    res.functions = ["Inner::fsyncdata (async body)", "<ResetableFlag as Drop>::drop", "Inner::too_many_dirty_bytes", "Safe::fsyncdata"]
    res.bounds = "one call, flag taken or free, active blob present/absent, arbitrary dirty bytes and limit, sync may fail"
    ex = P.mk_executor(crate, cap=2, loop_bound=4,
                       inline=[x for x in INLINE_STORAGE if "fsyncdata" not in x] + [r"^Inner::(fsyncdata|too_many_dirty_bytes)$", r"^Safe::fsyncdata$",
                                                                                  r"^<ResetableFlag as Drop>::drop$", r"^Blob::file_dirty_bytes$", r"^File::dirty_bytes$"])
    limit = z3.BitVec("max_dirty_bytes_before_sync", 64)

    def limit_hook(ex_, st_, cname, args, dty):
        if cname == "Config::max_dirty_bytes_before_sync":
            return [(Sym(limit, "u64"), None)]
        return None
    ex.call_hook = limit_hook
    st = State()
    iref, safe, ab, act, blob = _inner_state(crate, ex, st)
    inner = st.mem[iref.cell]
    flag = Obj("std::sync::atomic::AtomicBool")
    f0 = z3.Bool("flag_taken_before")
    flag.fields[(None, 7002)] = Sym(f0, "bool")
    inner.fields[(None, crate.field_index("Inner", "fsync_in_progress"))] = flag
    outs = P.drive_async(ex, st, fn, [iref])
    res.paths = len(outs)

    def per_path(o, isok, payload):
        inner2 = o.mem[iref.cell]
        f1 = inner2.fields[(None, crate.field_index("Inner", "fsync_in_progress"))].fields[(None, 7002)].t
        if not P.prove(ex, res, o, z3.Implies(z3.Not(f0), z3.Not(f1)), "flag taken by this call is released on return"):
            return False
        if not P.prove(ex, res, o, z3.Implies(f0, z3.And(f1, isok)), "flag held by someone else: Ok, flag untouched"):
            return False
        syncs = [e for e in P.events_of(o) if "fsyncdata" in e[1] and e[0] == "await"]
        dirty = z3.BitVec("activefile_size", 64) - z3.BitVec("activefile_synced", 64)
        over = z3.And(z3.Not(f0), act == BV64(1), z3.UGT(dirty, limit))
        if not P.prove(ex, res, o, z3.Implies(over, z3.BoolVal(bool(syncs))), "flag free and dirty bytes above the limit => the active blob is synced"):
            return False
        if syncs:
            if not P.prove(ex, res, o, z3.Implies(z3.Not(f0), isok == _ev_result_ok(ex, o, syncs[0])), "the sync's result is returned"):
                return False
            P.cover(ex, res, o, over, "above the limit: synced")
            P.cover(ex, res, o, z3.And(z3.Not(f0), _ev_result_ok(ex, o, syncs[0])), "synced, flag released")
            P.cover(ex, res, o, z3.And(z3.Not(f0), z3.Not(_ev_result_ok(ex, o, syncs[0]))), "sync failed, flag released")
        else:
            P.cover(ex, res, o, z3.And(z3.Not(f0), act == BV64(1)), "nothing to sync (below the limit), flag released")
        P.cover(ex, res, o, f0, "another sync in flight")
        return True

    _check_paths(ex, res, outs, per_path)
    return P.finish(ex, res, ["above the limit: synced", "synced, flag released", "sync failed, flag released", "nothing to sync (below the limit), flag released", "another sync in flight"])


def read_blobs_max_id(crate, N=2):
    """C03/C07/C15: Storage::read_blobs: the reported max_blob_id is the maximum over the ids of ALL blob files seen —
    loaded ones and those that failed to load (whether ignored, quarantined or fatal) — so that a new blob never gets the
    id of a file still (or ever) present; `blobs` holds exactly the loaded ones, the corrupted count the quarantined ones."""
    res = P.ObResult("read_blobs_max_id[N<=%d]" % N)
    fn = crate.method("Storage", "read_blobs")
    res.functions = ["Storage::read_blobs (async body)", "Blob::id", "FileName::id"]
    res.bounds = "<= %d blob files, each loads or fails arbitrarily; ignore_corrupted / should_save / save outcome arbitrary" % N

    PIPE = "file-pipeline"

    def h_pipe_start(ex_, st_, frame, t, nf, args, dty):
        o = Obj(dty); o.tag = (PIPE,)
        return [(o, None)]

    def h_pipe_pass(ex_, st_, frame, t, nf, args, dty):
        a = args[0]
        if isinstance(a, Obj) and a.tag == (PIPE,):
            o = Obj(dty); o.tag = (PIPE,)
            return [(o, None)]
        raise Unsupported("iterator adapter on a non-pipeline value")

    def h_pipe_len(ex_, st_, frame, t, nf, args, dty):
        return [(ex_.fresh("usize", st_, "n"), None)]

    nfiles = z3.BitVec("blob_files", 64)

    def h_pipe_collect(ex_, st_, frame, t, nf, args, dty):
        a = args[0]
        if not (isinstance(a, Obj) and a.tag == (PIPE,)):
            raise Unsupported("collect of a non-pipeline value")
        slots = []
        for k in range(N):
            slots.append((z3.ULT(BV64(k), nfiles), FutureV("read_blobs::open_blob_file", [Sym(BV64(k), "usize")], None, "havoc")))
        it = IT.IterV(slots, "?", True, nfiles)
        s = Obj(dty); s.tag = ("stream", it)
        return [(s, None)]
    extra = [(r"^<std::slice::Iter as (\S*::)?Iterator>::map$", h_pipe_start),
             (r"^<std::iter::(Map|Filter|FilterMap) as (\S*::)?Iterator>::(filter|filter_map|map)$", h_pipe_pass),
             (r"^<std::iter::Map as ExactSizeIterator>::len$", h_pipe_len),
             (r"^<std::iter::Map as (\S*::)?Iterator>::collect$", h_pipe_collect)]
    ex = P.mk_executor(crate, cap=N + 1, loop_bound=N + 3, inline=[r"^Blob::id$", r"^FileName::id$"], extra_summaries=extra,
                       havoc=[r"^format$", r"^must_use$", r"^std::path::", r"^<std::path::PathBuf as .*>::", r"^anyhow::"])
    items = []

    def hook(ex_, st_, name, fargs, out_ty, dty):
        if name != "read_blobs::open_blob_file":
            return None
        k = len([e for e in st_.events if e[0] == "await" and e[1] == name])
        r = ex_.fresh(out_ty, st_, "file%d" % k)
        st_.events.append(("await", name, fargs, r))
        return [(S.poll_ready(dty, r), None)]
    ex.await_hook = hook

    def call_hook(ex_, st_, cname, args, dty):
        if cname == "FileName::from_path":
            r = ex_.fresh(dty, st_, "fname")
            st_.events.append(("call", cname, args, r))
            return [(r, None)]
        return None
    ex.call_hook = call_hook
    st = State()
    st.pc.append(z3.ULE(nfiles, BV64(N)))
    files = VecV("tokio::fs::DirEntry", N + 1, Sym(z3.BitVec("dir_entries", 64), "usize"))
    fc = st.new_cell(files)
    outs = P.drive_async(ex, st, fn, [Ref(fc, (), False, "&[DirEntry]"), Obj("io::unix::sync::IoDriver"), Obj("std::sync::Arc<tokio::sync::Semaphore>"),
                                      Ref(st.new_cell(Obj("storage::config::Config")), (), False, "&Config")])
    res.paths = len(outs)
    name_i, id_i = crate.field_index("Blob", "name"), crate.field_index("FileName", "id")

    def per_path(o, isok, payload):
        evs = P.events_of(o)
        opened = [e for e in evs if e[0] == "await" and e[1] == "read_blobs::open_blob_file"]
        parsed = [e for e in evs if e[0] == "call" and e[1] == "FileName::from_path"]
        ids = []          # (valid term, id term) for every file whose id is known
        pi = 0
        n_loaded = BV64(0)
        for e in opened:
            r = e[3]
            okk = ex.get_discr(o, r).t == BV64(0)
            blob = ex._get_field(o, r, "Ok", 0, "blob::core::Blob<K>")
            nm = ex._get_field(o, blob, None, name_i, "std::sync::Arc<blob::file_name::FileName>")
            # Blob.name is Arc<FileName>: payload behind pseudo-field 7001 (possibly a shared cell)
            pay = nm.fields.get((None, 7001))
            if isinstance(pay, Ref):
                pay = o.mem[pay.cell]
            if pay is None:
                pay = ex._get_field(o, nm, None, 7001, "blob::file_name::FileName")
            bid = ex._get_field(o, pay, None, id_i, "usize").t
            ids.append((okk, bid))
            n_loaded = n_loaded + z3.If(okk, BV64(1), BV64(0))
        for e in parsed:
            r = e[3]
            pk = ex.get_discr(o, r).t == BV64(0)
            fnm = ex._get_field(o, r, "Ok", 0, "blob::file_name::FileName")
            ids.append((pk, ex._get_field(o, fnm, None, id_i, "usize").t))
        if not P.prove(ex, res, o, z3.Implies(isok, BV64(len(opened)) == nfiles), "Ok => every blob file was opened"):
            return False
        n_failed = BV64(len(opened)) - n_loaded
        if not P.prove(ex, res, o, z3.Implies(isok, BV64(len(parsed)) == n_failed),
                       "the id of every blob file that failed to load is taken from its name (ignored and quarantined alike)"):
            return False
        out = payload.fields.get(("Ok", 0))
        if out is None:
            P.cover(ex, res, o, z3.Not(isok), "fatal error for a blob file")
            return True
        mx = ex._get_field(o, out, None, crate.field_index("ReadBlobsResult", "max_blob_id"), "Option<usize>")
        mxs = ex.get_discr(o, mx).t == BV64(1)
        mxv = ex._get_field(o, mx, "Some", 0, "usize").t
        cl = []
        for v, i in ids:
            cl.append(z3.Implies(v, z3.And(mxs, z3.UGE(mxv, i))))
        cl.append(z3.Implies(mxs, z3.Or([z3.And(v, mxv == i) for v, i in ids] or [z3.BoolVal(False)])))
        if not P.prove(ex, res, o, z3.Implies(isok, z3.And(cl)), "max_blob_id = max id over loaded AND failed blob files"):
            return False
        blobs = ex._get_field(o, out, None, crate.field_index("ReadBlobsResult", "blobs"), "Vec<Blob<K>>")
        if isinstance(blobs, VecV):
            if not P.prove(ex, res, o, z3.Implies(isok, blobs.len.t == n_loaded), "blobs = the loaded files"):
                return False
        saves = [e for e in evs if "save_corrupted_blob" in e[1] and e[0] == "await"]
        cor = ex._get_field(o, out, None, crate.field_index("ReadBlobsResult", "new_corrupted_blob_count"), "usize")
        if not P.prove(ex, res, o, z3.Implies(isok, cor.t == BV64(len(saves))), "corrupted count = quarantined files"):
            return False
        if parsed:
            ign = [e for e in evs if "ignore_corrupted" in e[1]]
            if ign and isinstance(ign[0][3], Sym):
                P.cover(ex, res, o, z3.And(isok, ign[0][3].t), "failed blob ignored in place: its id still counts")
            P.cover(ex, res, o, z3.And(isok, z3.BoolVal(len(saves) > 0)), "failed blob quarantined: its id still counts")
        P.cover(ex, res, o, z3.And(isok, nfiles == BV64(N), n_loaded == BV64(N)), "all files loaded")
        return True

    _check_paths(ex, res, outs, per_path)
    return P.finish(ex, res, ["failed blob ignored in place: its id still counts", "failed blob quarantined: its id still counts", "all files loaded",
                              "fatal error for a blob file"])


def init_ids_above_all(crate):
    """C03/C07: Storage::init_from_existing: after a successful init, next_blob_id is above every blob id seen in the
    work dir (loaded or failed, as reported by read_blobs), above every id in the corrupted-blobs directory, and above the
    ids of the blobs kept (Safe::max_id)."""
    res = P.ObResult("init_ids_above_all")
    fn = crate.method("Storage", "init_from_existing")
    res.functions = ["Storage::init_from_existing (async body)"]
    res.bounds = "<= 2 loaded blobs, arbitrary ids (< 2^40), every outcome of the callees"
    ex = P.mk_executor(crate, cap=3, loop_bound=6, inline=[r"^Inner::(get_dump_sem|config)$"],
                       havoc=[r"^core::slice::(<impl[^>]*>::)?sort_by_key$", r"^std::slice::sort_by_key$", r"^Config::"])
    st = State()
    storage = Obj("storage::core::Storage<K>")
    inner = Obj("storage::core::Inner<K>")
    nb = Obj("std::sync::atomic::AtomicUsize")
    nb0 = z3.BitVec("next_blob_id_before", 64)
    nb.fields[(None, 7002)] = Sym(nb0, "usize")
    inner.fields[(None, crate.field_index("Inner", "next_blob_id"))] = nb
    ic = st.new_cell(inner)
    arc = Obj("std::sync::Arc<storage::core::Inner<K>>")
    arc.fields[(None, 7001)] = Ref(ic, (), True, "&storage::core::Inner<K>")
    storage.fields[(None, crate.field_index("Storage", "inner"))] = arc
    sc = st.new_cell(storage)
    seen = {}

    def hook(ex_, st_, name, fargs, out_ty, dty):
        if "count_old_corrupted_blobs" in name or "read_blobs" in name or name.endswith("Safe::max_id"):
            r = ex_.fresh(out_ty, st_, "ids")
            lim = BV64(1 << 40)
            if "count_old_corrupted_blobs" in name:
                st_.pc.append(z3.ULT(ex_._get_field(st_, r, None, 0, "usize").t, lim))
                st_.pc.append(z3.ULT(ex_._get_field(st_, ex_._get_field(st_, r, None, 1, "Option<usize>"), "Some", 0, "usize").t, lim))
            elif "read_blobs" in name:
                rb = ex_._get_field(st_, r, "Ok", 0, "ReadBlobsResult<K>")
                st_.pc.append(z3.ULT(ex_._get_field(st_, rb, None, crate.field_index("ReadBlobsResult", "new_corrupted_blob_count"), "usize").t, lim))
                mb = ex_._get_field(st_, rb, None, crate.field_index("ReadBlobsResult", "max_blob_id"), "Option<usize>")
                st_.pc.append(z3.ULT(ex_._get_field(st_, mb, "Some", 0, "usize").t, lim))
            else:
                st_.pc.append(z3.ULT(ex_._get_field(st_, r, "Some", 0, "usize").t, lim))
            st_.events.append(("await", name, fargs, r))
            return [(S.poll_ready(dty, r), None)]
        return None
    ex.await_hook = hook
    outs = P.drive_async(ex, st, fn, [Ref(sc, (), True, "&mut storage::core::Storage<K>"), VecV("tokio::fs::DirEntry", 3, Sym(z3.BitVec("n_entries", 64), "usize")),
                                      Sym(z3.Bool("with_active"), "bool")])
    res.paths = len(outs)

    def opt(o, v):
        return ex.get_discr(o, v).t == BV64(1), ex._get_field(o, v, "Some", 0, "usize").t

    def per_path(o, isok, payload):
        evs = P.events_of(o)
        final = o.mem[ic].fields[(None, crate.field_index("Inner", "next_blob_id"))].fields[(None, 7002)].t
        cl = []
        small = []
        for e in evs:
            if e[0] != "await":
                continue
            if "count_old_corrupted_blobs" in e[1]:
                tup = e[3]
                s_, v_ = opt(o, ex._get_field(o, tup, None, 1, "Option<usize>"))
                cl.append(z3.Implies(s_, z3.UGT(final, v_)))
                small.append(z3.Implies(s_, z3.ULT(v_, BV64(1 << 40))))
            if "read_blobs" in e[1]:
                r = e[3]
                rb = ex._get_field(o, r, "Ok", 0, "ReadBlobsResult<K>")
                s_, v_ = opt(o, ex._get_field(o, rb, None, crate.field_index("ReadBlobsResult", "max_blob_id"), "Option<usize>"))
                cl.append(z3.Implies(s_, z3.UGT(final, v_)))
                small.append(z3.Implies(s_, z3.ULT(v_, BV64(1 << 40))))
            if e[1].endswith("Safe::max_id"):
                s_, v_ = opt(o, e[3])
                cl.append(z3.Implies(s_, z3.UGT(final, v_)))
                small.append(z3.Implies(s_, z3.ULT(v_, BV64(1 << 40))))
        if not cl:
            if not P.prove(ex, res, o, z3.Not(isok), "Ok => the directory was scanned"):
                return False
            return True
        if not P.prove(ex, res, o, z3.Implies(z3.And(isok, *small), z3.And(cl)), "next_blob_id is above every id seen (work dir, corrupted dir, kept blobs)"):
            return False
        P.cover(ex, res, o, z3.And(isok, z3.BoolVal(len(cl) >= 3)), "all three id sources present")
        P.cover(ex, res, o, z3.Not(isok), "init failed")
        return True

    _check_paths(ex, res, outs, per_path)
    return P.finish(ex, res, ["all three id sources present", "init failed"])


def init_fails_only_on_callee_error(crate):
    """C06: Storage::init_from_existing (with Storage::pop_active inlined): when the directory scan (read_blobs) succeeded
    and every callee that can fail (open_new, load_index, dump, next_blob_name) succeeded, init succeeds — in particular
    when every blob of the work dir was unreadable and ignored or quarantined (read_blobs returns no blobs), a fresh
    active blob is created instead of failing with Uninitialized."""
    res = P.ObResult("init_fails_only_on_callee_error")
    fn = crate.method("Storage", "init_from_existing")
    res.functions = ["Storage::init_from_existing (async body)", "Storage::pop_active (async body)"]
    res.bounds = "<= 2 blobs returned by read_blobs, arbitrary counters, every outcome of the callees"
    ex = P.mk_executor(crate, cap=3, loop_bound=6, inline=[r"^Inner::(get_dump_sem|config)$", r"^Storage::pop_active$", r"^Storage::pop_active::\{closure#\d+\}(::\{closure#\d+\})?$"],
                       havoc=[r"^core::slice::(<impl[^>]*>::)?sort_by_key$", r"^std::slice::sort_by_key$", r"^Config::"])
    st = State()
    storage = Obj("storage::core::Storage<K>")
    inner = Obj("storage::core::Inner<K>")
    nb = Obj("std::sync::atomic::AtomicUsize")
    nb.fields[(None, 7002)] = Sym(z3.BitVec("next_blob_id_before", 64), "usize")
    inner.fields[(None, crate.field_index("Inner", "next_blob_id"))] = nb
    ic = st.new_cell(inner)
    arc = Obj("std::sync::Arc<storage::core::Inner<K>>")
    arc.fields[(None, 7001)] = Ref(ic, (), True, "&storage::core::Inner<K>")
    storage.fields[(None, crate.field_index("Storage", "inner"))] = arc
    sc = st.new_cell(storage)
    with_active = z3.Bool("with_active")
    nblobs = {}

    def hook(ex_, st_, name, fargs, out_ty, dty):
        if "read_blobs" in name:
            r = ex_.fresh(out_ty, st_, "scan")
            rb = ex_._get_field(st_, r, "Ok", 0, "ReadBlobsResult<K>")
            v = ex_._get_field(st_, rb, None, crate.field_index("ReadBlobsResult", "blobs"), "Vec<Blob<K>>")
            if isinstance(v, VecV):
                st_.pc.append(z3.ULE(v.len.t, BV64(2)))
                nblobs["len"] = v.len.t
            lim = BV64(1 << 40)
            st_.pc.append(z3.ULT(ex_._get_field(st_, rb, None, crate.field_index("ReadBlobsResult", "new_corrupted_blob_count"), "usize").t, lim))
            mb = ex_._get_field(st_, rb, None, crate.field_index("ReadBlobsResult", "max_blob_id"), "Option<usize>")
            st_.pc.append(z3.ULT(ex_._get_field(st_, mb, "Some", 0, "usize").t, lim))
            st_.events.append(("await", name, fargs, r))
            return [(S.poll_ready(dty, r), None)]
        if "count_old_corrupted_blobs" in name or name.endswith("Safe::max_id"):
            r = ex_.fresh(out_ty, st_, "ids")
            lim = BV64(1 << 40)
            if "count_old_corrupted_blobs" in name:
                st_.pc.append(z3.ULT(ex_._get_field(st_, r, None, 0, "usize").t, lim))
                st_.pc.append(z3.ULT(ex_._get_field(st_, ex_._get_field(st_, r, None, 1, "Option<usize>"), "Some", 0, "usize").t, lim))
            else:
                st_.pc.append(z3.ULT(ex_._get_field(st_, r, "Some", 0, "usize").t, lim))
            st_.events.append(("await", name, fargs, r))
            return [(S.poll_ready(dty, r), None)]
        return None
    ex.await_hook = hook
    outs = P.drive_async(ex, st, fn, [Ref(sc, (), True, "&mut storage::core::Storage<K>"), VecV("tokio::fs::DirEntry", 3, Sym(z3.BitVec("n_entries", 64), "usize")),
                                      Sym(with_active, "bool")])
    res.paths = len(outs)

    def per_path(o, isok, payload):
        evs = P.events_of(o)
        fallible = []
        scan_ok = None
        for e in evs:
            if e[0] not in ("await", "call") or len(e) < 4 or not isinstance(e[3], Obj):
                continue
            ty = e[3].ty or ""
            if "read_blobs" in e[1]:
                scan_ok = ex.get_discr(o, e[3]).t == BV64(0)
            elif ty.startswith(("std::result::Result<", "Result<")):
                fallible.append(ex.get_discr(o, e[3]).t == BV64(0))
        if scan_ok is None:
            return P.prove(ex, res, o, z3.Not(isok), "Ok => the directory was scanned")
        if not P.prove(ex, res, o, z3.Implies(z3.And(scan_ok, *fallible), isok), "scan and every fallible callee succeeded => init succeeds"):
            return False
        if "len" in nblobs:
            P.cover(ex, res, o, z3.And(isok, with_active, nblobs["len"] == BV64(0)), "no readable blob: fresh active blob")
            P.cover(ex, res, o, z3.And(isok, with_active, nblobs["len"] == BV64(2)), "two blobs: last becomes active")
        P.cover(ex, res, o, z3.And(z3.Not(isok), scan_ok), "a callee after the scan failed")
        return True

    _check_paths(ex, res, outs, per_path)
    return P.finish(ex, res, ["no readable blob: fresh active blob", "two blobs: last becomes active", "a callee after the scan failed"])
