"""Obligations on src/storage/core.rs, observer_worker.rs: lifecycle kernels, worker survival, cross-blob folds."""
import re
import z3
from .symex import State, Sym, Obj, VecV, Ref, FnItem, FutureV, UNIT, Unsupported
from . import pearl as P
from . import summaries as S
from . import iters as IT
from .pearl import BV64
from .ob_blob import idx, _check_paths, _ev_result_ok, INLINE_BLOB

INLINE_STORAGE = INLINE_BLOB + [r"^Inner::(safe|config|io_driver|has_active_blob)$", r"^Option::"]


def worker_survives(crate):
    """C13: ObserverWorker::process_msg must not return Err because a lifecycle request does not apply
    (run() panics on Err, which ends rotation, dumps and syncs)."""
    res = P.ObResult("worker_survives")
    res.finding_key = "process_msg-propagates-lifecycle-error"
    fn = crate.method("ObserverWorker", "process_msg")
    res.functions = ["ObserverWorker::process_msg (async body)"]
    res.bounds = "one message, every OperationType, every callee outcome"
    ex = P.mk_executor(crate, cap=2, loop_bound=4, inline=[])
    st = State()
    w = Obj("observer_worker::ObserverWorker<K>")
    wc = st.new_cell(w)
    msg = Obj("observer::Msg")
    op = Obj("observer::OperationType")
    opd = z3.BitVec("optype", 64)
    op.discr = Sym(opd, "isize")
    OT = crate.enums["OperationType"]
    st.pc.append(z3.Or([opd == BV64(v) for v in OT.values()]))
    msg.fields[(None, crate.field_index("Msg", "optype"))] = op
    outs = P.drive_async(ex, st, fn, [Ref(wc, (), True, "&mut ObserverWorker<K>"), msg])
    res.paths = len(outs)
    lifecycle = ("Inner::close_active_blob", "Inner::create_active_blob", "Inner::restore_active_blob")

    def per_path(o, isok, payload):
        evs = P.events_of(o)
        for e in evs:
            if e[0] == "await" and any(l in e[1] for l in lifecycle):
                r_ok = _ev_result_ok(ex, o, e)
                P.cover(ex, res, o, z3.Not(r_ok), "lifecycle request that does not apply (%s)" % e[1].split("::")[-1])
                if not P.prove(ex, res, o, z3.Implies(z3.Not(r_ok), isok), "inapplicable %s request does not kill the worker" % e[1].split("::")[-1]):
                    res.replay = {"kind": "native", "test": "c13_worker_survives", "request": e[1].split("::")[-1]}
                    return False
        P.cover(ex, res, o, isok, "message processed")
        return True

    _check_paths(ex, res, outs, per_path)
    return P.finish(ex, res, ["message processed", "lifecycle request that does not apply (close_active_blob)",
                              "lifecycle request that does not apply (create_active_blob)",
                              "lifecycle request that does not apply (restore_active_blob)"])


def _inner_state(crate, ex, st, active_present=None):
    """Symbolic storage::core::Inner<K>: safe (tokio RwLock<Safe<K>>) with active_blob: Option<Box<ASRwLock<Blob>>> and
    blobs: Arc<RwLock<HierarchicalFilters>> left lazy."""
    inner = Obj("storage::core::Inner<K>")
    lock = Obj("tokio::sync::RwLock<storage::core::Safe<K>>")
    safe = Obj("storage::core::Safe<K>")
    ab = Obj("std::option::Option<std::boxed::Box<async_lock::RwLock<blob::core::Blob<K>>>>")
    d = z3.BitVec("active_present", 64)
    st.pc.append(z3.Or(d == BV64(0), d == BV64(1)))
    ab.discr = Sym(d, "isize")
    blobcell = st.new_cell(None)
    ablock = Obj("async_lock::RwLock<blob::core::Blob<K>>")
    blob = Obj("blob::core::Blob<K>")
    blob.tag = ("the_active_blob",)
    ablock.fields[(None, 7000)] = blob
    st.mem[blobcell] = ablock
    ab.fields[("Some", 0)] = Ref(blobcell, (), True, "Box<async_lock::RwLock<blob::core::Blob<K>>>")
    safe.fields[(None, crate.field_index("Safe", "active_blob"))] = ab
    lock.fields[(None, 7000)] = safe
    inner.fields[(None, crate.field_index("Inner", "safe"))] = lock
    c = st.new_cell(inner)
    return Ref(c, (), False, "&storage::core::Inner<K>"), safe, ab, d, blob


def _safe_in(crate, o, iref):
    inner = o.mem[iref.cell]
    return inner.fields[(None, crate.field_index("Inner", "safe"))].fields[(None, 7000)]


def restore_loads_index(crate):
    """C04: Inner::restore_active_blob: Ok only if no active blob existed and a closed blob was popped; the blob that
    becomes active had its index loaded into memory first (load_index awaited, Ok); on any Err no closed blob is lost."""
    res = P.ObResult("restore_loads_index")
    res.finding_key = "restore_active_blob-index-on-disk"
    fn = crate.method("Inner", "restore_active_blob")
    res.functions = ["Inner::restore_active_blob (async body)", "Inner::has_active_blob (async body)"]
    res.bounds = "single call, every outcome of pop / load_index"
    ex = P.mk_executor(crate, cap=2, loop_bound=4, inline=INLINE_STORAGE)
    st = State()
    iref, safe, ab, act, blob = _inner_state(crate, ex, st)
    outs = P.drive_async(ex, st, fn, [iref])
    res.paths = len(outs)

    def per_path(o, isok, payload):
        evs = P.events_of(o)
        names = [e[1] for e in evs]
        i_pop = idx(names, "HierarchicalFilters::pop")
        i_load = idx(names, "load_index")
        i_push = idx(names, "HierarchicalFilters::push")
        if not P.prove(ex, res, o, z3.Implies(isok, act == BV64(0)), "Ok only when no active blob existed"):
            return False
        if not P.prove(ex, res, o, z3.Implies(act == BV64(1), z3.And(z3.Not(isok), z3.BoolVal(i_pop is None))), "active blob present: Err, nothing popped"):
            return False
        if i_pop is not None:
            popped = ex.get_discr(o, evs[i_pop][3]).t == BV64(1)
            if not P.prove(ex, res, o, z3.Implies(isok, popped), "Ok only if a closed blob was popped"):
                return False
            if i_load is None:
                if not P.prove(ex, res, o, z3.Not(z3.And(isok, popped)), "restored blob's index is loaded before it becomes active"):
                    res.replay = {"kind": "native", "test": "c04_restore_after_dump_accepts_writes"}
                    return False
            else:
                l_ok = _ev_result_ok(ex, o, evs[i_load])
                if not P.prove(ex, res, o, z3.Implies(isok, l_ok), "Ok only if the index load succeeded"):
                    return False
                if not P.prove(ex, res, o, z3.Implies(z3.And(popped, z3.Not(l_ok)), z3.BoolVal(i_push is not None)),
                               "failed load: the popped blob goes back to the closed list"):
                    return False
                P.cover(ex, res, o, z3.Not(l_ok), "index load failed")
            s2 = _safe_in(crate, o, iref)
            ab2 = s2.fields[(None, crate.field_index("Safe", "active_blob"))]
            if not P.prove(ex, res, o, z3.Implies(isok, ex.get_discr(o, ab2).t == BV64(1)), "Ok => active blob is set"):
                return False
            P.cover(ex, res, o, isok, "restored")
            P.cover(ex, res, o, z3.Not(popped), "no closed blob")
        P.cover(ex, res, o, act == BV64(1), "active blob already present")
        return True

    _check_paths(ex, res, outs, per_path)
    return P.finish(ex, res, ["restored", "no closed blob", "active blob already present", "index load failed"])


def worker_survives_io(crate):
    """C11/C13: an I/O error while creating the next active blob (ForceUpdateActiveBlob / TryUpdateActiveBlob) must not
    make process_msg return Err (run() would panic and rotation would never resume)."""
    res = P.ObResult("worker_survives_io")
    res.finding_key = "process_msg-propagates-rotation-io-error"
    fn = crate.method("ObserverWorker", "process_msg")
    res.functions = ["ObserverWorker::process_msg (async body)"]
    res.bounds = "one message, every OperationType, every callee outcome"
    ex = P.mk_executor(crate, cap=2, loop_bound=4, inline=[])
    st = State()
    w = Obj("observer_worker::ObserverWorker<K>")
    wc = st.new_cell(w)
    msg = Obj("observer::Msg")
    op = Obj("observer::OperationType")
    opd = z3.BitVec("optype", 64)
    op.discr = Sym(opd, "isize")
    OT = crate.enums["OperationType"]
    st.pc.append(z3.Or([opd == BV64(v) for v in OT.values()]))
    msg.fields[(None, crate.field_index("Msg", "optype"))] = op
    outs = P.drive_async(ex, st, fn, [Ref(wc, (), True, "&mut ObserverWorker<K>"), msg])
    res.paths = len(outs)

    def per_path(o, isok, payload):
        evs = P.events_of(o)
        for e in evs:
            if e[0] == "await" and ("update_active_blob" in e[1]):
                r_ok = _ev_result_ok(ex, o, e)
                P.cover(ex, res, o, z3.Not(r_ok), "blob switch failed (%s)" % e[1].split("::")[-1])
                if not P.prove(ex, res, o, z3.Implies(z3.Not(r_ok), isok), "failed blob switch (%s) does not kill the worker" % e[1].split("::")[-1]):
                    res.replay = {"kind": "native", "test": "c11_rotation_continues_after_failed_blob_create"}
                    return False
        return True

    _check_paths(ex, res, outs, per_path)
    return P.finish(ex, res, ["blob switch failed (update_active_blob)", "blob switch failed (try_update_active_blob)"])


def close_active_order(crate):
    """C12/C11/C04: Inner::close_active_blob: Ok only if an active blob existed; the blob is synced (Ok) before it is
    pushed to the closed list; a failed sync is returned and the blob is NOT lost (still active); after Ok no active blob."""
    res = P.ObResult("close_active_order")
    res.finding_key = "close_active_blob-drops-blob-on-sync-error"
    fn = crate.method("Inner", "close_active_blob")
    res.functions = ["Inner::close_active_blob (async body)", "Inner::has_active_blob (async body)"]
    res.bounds = "single call, every outcome of the sync"
    ex = P.mk_executor(crate, cap=2, loop_bound=4, inline=[x for x in INLINE_STORAGE if "fsyncdata" not in x])
    st = State()
    iref, safe, ab, act, blob = _inner_state(crate, ex, st)
    outs = P.drive_async(ex, st, fn, [iref])
    res.paths = len(outs)

    def per_path(o, isok, payload):
        evs = P.events_of(o)
        names = [e[1] for e in evs]
        i_sync = idx(names, "fsyncdata")
        i_push = idx(names, "HierarchicalFilters::push")
        s2 = _safe_in(crate, o, iref)
        ab2 = s2.fields[(None, crate.field_index("Safe", "active_blob"))]
        act2 = ex.get_discr(o, ab2).t
        if not P.prove(ex, res, o, z3.Implies(isok, act == BV64(1)), "Ok only when an active blob existed"):
            return False
        if not P.prove(ex, res, o, z3.Implies(act == BV64(0), z3.And(z3.Not(isok), z3.BoolVal(i_push is None))), "no active blob: Err, nothing pushed"):
            return False
        if i_push is not None:
            if i_sync is None or not i_sync < i_push:
                res.status = "violated"; res.detail = "blob pushed to the closed list without a preceding sync"; return False
            if not P.prove(ex, res, o, _ev_result_ok(ex, o, evs[i_sync]), "closed only after a successful sync"):
                return False
            if not P.prove(ex, res, o, z3.And(isok, act2 == BV64(0)), "after close: Ok and no active blob"):
                return False
            P.cover(ex, res, o, isok, "closed")
        elif i_sync is not None:
            s_ok = _ev_result_ok(ex, o, evs[i_sync])
            if not P.prove(ex, res, o, z3.And(z3.Not(s_ok), z3.Not(isok)), "not pushed only because the sync failed; error returned"):
                return False
            if not P.prove(ex, res, o, act2 == BV64(1), "failed sync: the blob is still the active blob (not lost)"):
                res.replay = {"kind": "native+shim", "test": "findings/fsync_demo.rs c11_failed_sync_on_close_keeps_records_readable"}
                return False
            P.cover(ex, res, o, z3.Not(s_ok), "sync failed")
        P.cover(ex, res, o, act == BV64(0), "no active blob")
        return True

    _check_paths(ex, res, outs, per_path)
    return P.finish(ex, res, ["closed", "sync failed", "no active blob"])


def explicit_fsync(crate):
    """C12: Storage::fsyncdata (the public, explicit call) syncs the active blob unconditionally and returns the sync's
    result: it never returns Ok without having awaited the blob's sync when an active blob exists."""
    res = P.ObResult("explicit_fsync")
    res.finding_key = "explicit-fsyncdata-skips-sync"
    fn = crate.method("Storage", "fsyncdata")
    res.functions = ["Storage::fsyncdata (async body)", "Safe::fsyncdata (async body)", "Inner::safe"]
    res.bounds = "single call, active blob present or absent, every sync outcome, arbitrary dirty bytes / in-progress flag"
    ex = P.mk_executor(crate, cap=2, loop_bound=4,
                       inline=[x for x in INLINE_STORAGE if "fsyncdata" not in x] + [r"^Safe::fsyncdata$", r"^Inner::fsyncdata$", r"^Inner::too_many_dirty_bytes$"])
    st = State()
    iref, safe, ab, act, blob = _inner_state(crate, ex, st)
    storage = Obj("storage::core::Storage<K>")
    arc = Obj("std::sync::Arc<storage::core::Inner<K>>")
    arc.fields[(None, 7001)] = st.mem[iref.cell]
    storage.fields[(None, crate.field_index("Storage", "inner"))] = arc
    # keep the Inner reachable under the same cell for _safe_in(): re-point iref to the Arc's payload
    sc = st.new_cell(storage)
    outs = P.drive_async(ex, st, fn, [Ref(sc, (), False, "&storage::core::Storage<K>")])
    res.paths = len(outs)

    def per_path(o, isok, payload):
        evs = P.events_of(o)
        names = [e[1] for e in evs]
        i_sync = idx(names, "fsyncdata")
        if not P.prove(ex, res, o, z3.Implies(z3.And(act == BV64(1), isok), z3.BoolVal(i_sync is not None)),
                       "Ok with an active blob => the blob's sync was awaited"):
            res.replay = {"kind": "native+shim", "test": "findings/fsync_demo.rs c12_explicit_fsyncdata_syncs_below_threshold"}
            return False
        if i_sync is not None:
            s_ok = _ev_result_ok(ex, o, evs[i_sync])
            if not P.prove(ex, res, o, isok == s_ok, "result = result of the sync"):
                return False
            P.cover(ex, res, o, s_ok, "synced")
            P.cover(ex, res, o, z3.Not(s_ok), "sync failed")
        P.cover(ex, res, o, act == BV64(0), "no active blob")
        return True

    _check_paths(ex, res, outs, per_path)
    return P.finish(ex, res, ["synced", "sync failed", "no active blob"])
