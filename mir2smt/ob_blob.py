"""Obligations on src/blob/core.rs (Blob<K>): call-order / error-propagation / decision kernels."""
import re
import z3
from .symex import State, Sym, Obj, VecV, Ref, FnItem, UNIT, Unsupported
from . import pearl as P
from . import summaries as S
from .pearl import BV64

INLINE_BLOB = [r"^IndexStruct::(on_disk|clear)$", r"^ReadResult::(is_found|is_deleted|is_not_found)$",
               r"^Blob::(file_size|fsyncdata)$", r"^File::(size|dirty_bytes|synced_size)$",
               r"^Header::(timestamp|is_deleted|data_size|blob_offset|set_offset_checksum)$",
               r"^PartiallySerializedWriteResult::(blob_offset|header_checksum)$",
               r"^BlobRecordTimestamp::new$", r"^<BlobRecordTimestamp as Into<u64>>::into$"]


def file_obj(crate, st, name):
    """io::File with symbolic counters, invariant synced_size <= size < 2^62"""
    f = Obj("io::unix::sync::File")
    arc = Obj("std::sync::Arc<io::unix::sync::FileInner>")
    inner = Obj("io::unix::sync::FileInner")
    size = z3.BitVec(name + "_size", 64)
    synced = z3.BitVec(name + "_synced", 64)
    a1 = Obj("AtomicU64"); a1.fields[(None, 7002)] = Sym(size, "u64")
    a2 = Obj("AtomicU64"); a2.fields[(None, 7002)] = Sym(synced, "u64")
    inner.fields[(None, crate.field_index("FileInner", "size"))] = a1
    inner.fields[(None, crate.field_index("FileInner", "synced_size"))] = a2
    arc.fields[(None, 7001)] = inner
    f.fields[(None, crate.field_index("File", "inner"))] = arc
    st.pc.append(z3.And(z3.ULE(synced, size), z3.ULT(size, BV64(1 << 62))))
    return f, size, synced


def blob_state(crate, ex, st):
    b = Obj("blob::core::Blob<K>")
    f, size, synced = file_obj(crate, st, "blobfile")
    b.fields[(None, crate.field_index("Blob", "file"))] = f
    b.kani_size, b.kani_synced = size, synced
    c = st.new_cell(b)
    return Ref(c, (), True, "&mut blob::core::Blob<K>"), b


def idx(names, needle):
    """first index of an event whose name contains needle, else None"""
    for i, n in enumerate(names):
        if needle in n:
            return i
    return None


def _check_paths(ex, res, outs, per_path):
    for o in outs:
        if o.status in ("infeasible", "unwind"):
            continue
        if o.status != "returned":
            if not P.prove(ex, res, o, z3.BoolVal(False), "no panic (%s: %s)" % (o.status, o.note)):
                return False
            continue
        ready, isok, payload = P.result_of(ex, o)
        if not P.prove(ex, res, o, ready, "no spurious Pending"):
            return False
        if per_path(o, isok, payload) is False:
            return False
        # opt-in (ex.classify_reads; the blob-file parsers init relies on to tell a torn blob from an I/O failure): read
        # errors tagged by the obligation's read hook must pass into_bincode_if_unexpected_eof on their way out
        errv = payload.fields.get(("Err", 0)) if isinstance(payload, Obj) else None
        if getattr(ex, "classify_reads", False) and errv is not None and S.unclassified_read_error(ex, o, errv) and ex.feasible(o, z3.Not(isok)):
            res.status = "violated"
            res.detail = ("a failed file read is returned without into_bincode_if_unexpected_eof: a file cut short is reported "
                          "as an I/O error instead of a corrupted / torn file")
            return False
    return True


def _ev_result_ok(ex, o, ev):
    """for an await/call event whose result is a Result: term 'result is Ok'"""
    v = ev[3]
    return ex.get_discr(o, v).t == BV64(0)


def blob_delete(crate):
    """C02: Blob::delete appends a marker iff !only_if_presented or the key's blob-local winner is Found;
    the error of the lookup is propagated; `deleted` reports what happened."""
    res = P.ObResult("blob_delete")
    fn = crate.method("Blob", "delete")
    res.functions = ["Blob::delete (async body)", "ReadResult::is_found"]
    res.bounds = "single call, all callee outcomes symbolic"
    ex = P.mk_executor(crate, cap=2, loop_bound=4, inline=INLINE_BLOB)
    st = State()
    bref, b = blob_state(crate, ex, st)
    key = st.new_cell(Obj("K"))
    oip = Sym(z3.Bool("only_if_presented"), "bool")
    ts = Obj("BlobRecordTimestamp"); ts.fields[(None, 0)] = Sym(z3.BitVec("del_ts", 64), "u64")
    meta = Obj("Option<Meta>")
    outs = P.drive_async(ex, st, fn, [bref, Ref(key, (), False, "&K"), ts, meta, oip])
    res.paths = len(outs)
    RR = crate.enums["ReadResult"]

    def per_path(o, isok, payload):
        names = P.ev_names(o)
        evs = P.events_of(o)
        i_lookup = idx(names, "get_latest")
        i_push = idx(names, "push_deletion_record")
        i_rec = idx(names, "Record::deleted")
        # was the lookup performed, and what did it say?
        if i_lookup is not None:
            lr = evs[i_lookup][3]
            l_ok = ex.get_discr(o, lr).t == BV64(0)
            rr = ex._get_field(o, lr, "Ok", 0, "ReadResult<Header>")
            found = z3.And(l_ok, ex.get_discr(o, rr).t == BV64(RR["Found"]))
            lookup_err = z3.Not(l_ok)
        else:
            found, lookup_err = z3.BoolVal(False), z3.BoolVal(False)
            if not P.prove(ex, res, o, z3.Not(oip.t), "lookup skipped only when !only_if_presented"):
                return False
        should = z3.Or(z3.Not(oip.t), found)
        rec_ok = _ev_result_ok(ex, o, evs[i_rec]) if i_rec is not None else z3.BoolVal(True)
        pushed = z3.BoolVal(i_push is not None)
        if not P.prove(ex, res, o, z3.Implies(z3.And(should, z3.Not(lookup_err), rec_ok), pushed), "marker appended when it should"):
            return False
        if not P.prove(ex, res, o, z3.Implies(pushed, should), "marker appended only when it should"):
            return False
        if not P.prove(ex, res, o, z3.Implies(z3.And(oip.t, lookup_err), z3.And(z3.Not(isok), z3.Not(pushed))), "lookup error propagated, nothing appended"):
            return False
        if i_push is not None:
            pr = evs[i_push][3]
            p_ok = ex.get_discr(o, pr).t == BV64(0)
            if not P.prove(ex, res, o, isok == p_ok, "result = result of push_deletion_record"):
                return False
            if i_lookup is not None and not (i_lookup < i_push):
                res.status = "violated"; res.detail = "lookup after push"; return False
            P.cover(ex, res, o, z3.And(oip.t, isok), "only_if_presented, found, appended")
            P.cover(ex, res, o, z3.And(z3.Not(oip.t), isok), "unconditional append")
        else:
            dr = payload.fields.get(("Ok", 0))
            if dr is not None:
                deleted = ex._get_field(o, dr, None, crate.field_index("DeleteResult", "deleted"), "bool")
                if not P.prove(ex, res, o, z3.Implies(isok, z3.Not(deleted.t)), "deleted=false when nothing appended"):
                    return False
                P.cover(ex, res, o, z3.And(isok, oip.t), "not presented: no marker")
        return True

    _check_paths(ex, res, outs, per_path)
    return P.finish(ex, res, ["only_if_presented, found, appended", "unconditional append", "not presented: no marker"])


def _run_blob_async(crate, name_rx, extra_args_builder, inline=None, cap=2, loop_bound=4, hook=None):
    m = re.search(r"::(\w+)\$$", name_rx)
    fn = crate.method("Blob", m.group(1)) if m else crate.find(name_rx)
    ex = P.mk_executor(crate, cap=cap, loop_bound=loop_bound, inline=inline or INLINE_BLOB)
    if hook:
        ex.await_hook = hook
    st = State()
    bref, b = blob_state(crate, ex, st)
    args = [bref] + extra_args_builder(ex, st)
    outs = P.drive_async(ex, st, fn, args)
    return ex, outs, b


def _index_on_disk_term(crate, ex, o, b_cell):
    """discriminant test of blob.index.inner == OnDisk in state o (pre-state if not modified)"""
    raise NotImplementedError


def push_deletion_loads_first(crate):
    """C04: push_deletion_record reloads an on-disk index into memory before appending; a failed reload is returned
    and nothing is appended."""
    res = P.ObResult("push_deletion_loads_first")
    res.functions = ["Blob::push_deletion_record (async body)", "IndexStruct::on_disk"]
    res.bounds = "single call, all callee outcomes symbolic"
    ex, outs, b = _run_blob_async(crate, r"blob::core::<impl at [^>]*>::push_deletion_record$",
                                  lambda ex, st: [Ref(st.new_cell(Obj("K")), (), False, "&K"), Obj("record::record::Record")])
    res.paths = len(outs)
    ST = crate.enums["State"]

    def per_path(o, isok, payload):
        names = P.ev_names(o)
        evs = P.events_of(o)
        i_load = idx(names, "load_index")
        i_write = idx(names, "write_mut")
        # index state in the pre-state: discriminant of blob.index.inner (materialised by on_disk())
        bobj = b
        idxo = bobj.fields.get((None, crate.field_index("Blob", "index")))
        inner = idxo.fields.get((None, crate.field_index("IndexStruct", "inner"))) if idxo is not None else None
        if inner is None or inner.discr is None:
            res.status = "violated"; res.detail = "on_disk() was not consulted"; return False
        on_disk = inner.discr.t == BV64(ST["OnDisk"])
        if not P.prove(ex, res, o, z3.Implies(on_disk, z3.BoolVal(i_load is not None)), "on-disk index is reloaded"):
            return False
        if i_load is not None and i_write is not None and not i_load < i_write:
            res.status = "violated"; res.detail = "write_mut before load_index"; return False
        if i_load is not None:
            l_ok = _ev_result_ok(ex, o, evs[i_load])
            if not P.prove(ex, res, o, z3.Implies(z3.Not(l_ok), z3.And(z3.Not(isok), z3.BoolVal(i_write is None))), "failed reload: error returned, nothing appended"):
                return False
            P.cover(ex, res, o, z3.And(on_disk, l_ok, z3.BoolVal(i_write is not None)), "on-disk, reloaded, appended")
            P.cover(ex, res, o, z3.Not(l_ok), "reload failed")
        else:
            P.cover(ex, res, o, z3.And(z3.Not(on_disk), z3.BoolVal(i_write is not None)), "in-memory, appended")
        if i_write is not None:
            w_ok = _ev_result_ok(ex, o, evs[i_write])
            if not P.prove(ex, res, o, isok == w_ok, "result follows write_mut"):
                return False
            if payload.fields.get(("Ok", 0)) is not None:
                dr = payload.fields[("Ok", 0)]
                deleted = ex._get_field(o, dr, None, crate.field_index("DeleteResult", "deleted"), "bool")
                if not P.prove(ex, res, o, z3.Implies(isok, deleted.t), "deleted=true after append"):
                    return False
        return True

    # NOTE: blob object `b` above is the *initial* python object; outs are deep copies. Use per-state lookup instead.
    def per_path2(o, isok, payload):
        nonlocal b
        cell = [c for c, v in o.mem.items() if isinstance(v, Obj) and v.ty == "blob::core::Blob<K>"]
        b = o.mem[cell[0]]
        return per_path(o, isok, payload)

    _check_paths(ex, res, outs, per_path2)
    return P.finish(ex, res, ["on-disk, reloaded, appended", "reload failed", "in-memory, appended"])


def write_order(crate, which="write_mut"):
    """C11/C14: Blob::write_mut / Blob::write: the header is pushed into the index only after write_to_file
    succeeded, with the offset and checksum the write returned, with no suspension point in between; a failed write
    is returned and never indexed."""
    res = P.ObResult("%s_order" % which)
    res.functions = ["Blob::%s (async body)" % which, "RecordHeader::set_offset_checksum", "File::dirty_bytes"]
    res.bounds = "single call, all callee outcomes symbolic"
    fn = crate.method("Blob", which)
    ex = P.mk_executor(crate, cap=2, loop_bound=4, inline=INLINE_BLOB)
    st = State()
    bref, b = blob_state(crate, ex, st)
    key = Ref(st.new_cell(Obj("K")), (), False, "&K")
    rec = Obj("record::record::Record")
    if which == "write":
        lock = Obj("async_lock::RwLock<blob::core::Blob<K>>")
        lock.fields[(None, 7000)] = b
        lc = st.new_cell(lock)
        args = [Ref(lc, (), False, "&async_lock::RwLock<blob::core::Blob<K>>"), key, rec]
    else:
        args = [bref, key, rec]
    outs = P.drive_async(ex, st, fn, args)
    res.paths = len(outs)

    def per_path(o, isok, payload):
        evs = P.events_of(o)
        names = [e[1] for e in evs]
        i_ser = idx(names, "to_partially_serialized_and_header")
        i_w = idx(names, "write_to_file")
        i_push = idx(names, "IndexTrait>::push")
        if i_push is not None and (i_w is None or not i_w < i_push):
            res.status = "violated"; res.detail = "index.push not preceded by write_to_file"; return False
        if i_w is not None:
            w_ok = _ev_result_ok(ex, o, evs[i_w])
            if not P.prove(ex, res, o, z3.Implies(z3.Not(w_ok), z3.And(z3.Not(isok), z3.BoolVal(i_push is None))), "failed write: error returned, not indexed"):
                return False
            if not P.prove(ex, res, o, z3.Implies(w_ok, z3.BoolVal(i_push is not None)), "successful write is indexed"):
                return False
            if i_push is not None:
                between = [e for e in evs[i_w + 1:i_push] if e[0] == "await"]
                if between:
                    res.status = "violated"; res.detail = "suspension point between write and index.push: %s" % between[0][1]; return False
                # header pushed carries the offset / checksum returned by the write
                wr = evs[i_w][3].fields.get(("Ok", 0))
                pushed_h = evs[i_push][2][2]
                hf = P.record_header_fields(crate)
                off_f = pushed_h.fields.get((None, hf["blob_offset"])) if isinstance(pushed_h, Obj) else None
                wr_off = ex._get_field(o, wr, None, crate.field_index("PartiallySerializedWriteResult", "blob_offset"), "u64") if isinstance(wr, Obj) else None
                if off_f is None or wr_off is None:
                    res.status = "violated"; res.detail = "pushed header offset is not the write result's offset"; return False
                if not P.prove(ex, res, o, off_f.t == wr_off.t, "indexed header.blob_offset = offset reserved by the write"):
                    return False
                ck_f = pushed_h.fields.get((None, hf["header_checksum"]))
                wr_ck = ex._get_field(o, wr, None, crate.field_index("PartiallySerializedWriteResult", "header_checksum"), "u32")
                if ck_f is None or wr_ck is None or not P.prove(ex, res, o, ck_f.t == wr_ck.t, "indexed header checksum = checksum written"):
                    if res.status == "holds":
                        res.status = "violated"; res.detail = "pushed header checksum is not the written one"
                    return False
                p_ok = _ev_result_ok(ex, o, evs[i_push])
                if not P.prove(ex, res, o, z3.Implies(z3.And(w_ok, p_ok), isok), "Ok after write+push"):
                    return False
                P.cover(ex, res, o, z3.And(w_ok, p_ok), "written and indexed")
            P.cover(ex, res, o, z3.Not(w_ok), "write failed")
        return True

    _check_paths(ex, res, outs, per_path)
    return P.finish(ex, res, ["written and indexed", "write failed"])


def write_mut_order(crate):
    return write_order(crate, "write_mut")


def blob_write_order(crate):
    return write_order(crate, "write")


def _blob_in(o):
    cell = [c for c, v in o.mem.items() if isinstance(v, Obj) and v.ty == "blob::core::Blob<K>"]
    return o.mem[cell[0]]


def dump_order(crate):
    """C12: Blob::dump syncs the blob file before the index is dumped (which marks the index complete), on every path;
    a failed sync is returned and the index is not dumped; an already on-disk index is left alone."""
    res = P.ObResult("dump_order")
    res.functions = ["Blob::dump (async body)", "Blob::fsyncdata", "IndexStruct::on_disk", "Blob::file_size"]
    res.bounds = "single call, all callee outcomes symbolic"
    ex, outs, b = _run_blob_async(crate, r"blob::core::<impl at [^>]*>::dump$", lambda ex, st: [])
    res.paths = len(outs)
    ST = crate.enums["State"]

    def per_path(o, isok, payload):
        evs = P.events_of(o)
        names = [e[1] for e in evs]
        i_sync = idx(names, "fsyncdata")
        i_dump = idx(names, "IndexTrait>::dump")
        bo = _blob_in(o)
        idxo = bo.fields.get((None, crate.field_index("Blob", "index")))
        inner = idxo.fields.get((None, crate.field_index("IndexStruct", "inner"))) if idxo is not None else None
        if inner is None or inner.discr is None:
            res.status = "violated"; res.detail = "index state not consulted"; return False
        on_disk = inner.discr.t == BV64(ST["OnDisk"])
        if i_dump is not None:
            if i_sync is None or not i_sync < i_dump:
                res.status = "violated"; res.detail = "index dump not preceded by a sync of the blob file"; return False
            s_ok = _ev_result_ok(ex, o, evs[i_sync])
            if not P.prove(ex, res, o, s_ok, "index dumped only after a successful sync"):
                return False
            # the blob size handed to the index is the file size
            bs = evs[i_dump][2][1]
            finner = P.arc_payload(o, bo.fields[(None, crate.field_index("Blob", "file"))].fields[(None, crate.field_index("File", "inner"))])
            if not (isinstance(bs, Sym) and P.prove(ex, res, o, bs.t == finner.fields[(None, crate.field_index("FileInner", "size"))].fields[(None, 7002)].t,
                                                    "index records the current blob size")):
                return False
            d_ok = _ev_result_ok(ex, o, evs[i_dump])
            if not P.prove(ex, res, o, isok == d_ok, "result follows index.dump"):
                return False
            P.cover(ex, res, o, d_ok, "synced then dumped")
        if not P.prove(ex, res, o, z3.Implies(z3.Not(on_disk), z3.BoolVal(i_sync is not None)), "in-memory index: blob is synced"):
            return False
        if not P.prove(ex, res, o, z3.Implies(on_disk, z3.And(z3.BoolVal(i_dump is None), isok)), "on-disk index: nothing to do"):
            return False
        if i_sync is not None and i_dump is None:
            s_ok = _ev_result_ok(ex, o, evs[i_sync])
            if not P.prove(ex, res, o, z3.And(z3.Not(s_ok), z3.Not(isok)), "no dump only because the sync failed, error returned"):
                return False
            P.cover(ex, res, o, z3.Not(s_ok), "sync failed")
        P.cover(ex, res, o, on_disk, "already on disk")
        return True

    _check_paths(ex, res, outs, per_path)
    return P.finish(ex, res, ["synced then dumped", "sync failed", "already on disk"])


def write_header_order(crate):
    """C12: Blob::write_header appends the blob header and syncs it before returning Ok; both errors propagate."""
    res = P.ObResult("write_header_order")
    res.functions = ["Blob::write_header (async body)"]
    res.bounds = "single call, all callee outcomes symbolic"
    ex, outs, b = _run_blob_async(crate, r"blob::core::<impl at [^>]*>::write_header$", lambda ex, st: [],
                                  inline=[x for x in INLINE_BLOB if "fsyncdata" not in x] + [r"^Blob::file_size$"])
    res.paths = len(outs)

    def per_path(o, isok, payload):
        evs = P.events_of(o)
        names = [e[1] for e in evs]
        i_w = idx(names, "write_append_all")
        i_s = idx(names, "fsyncdata")
        if i_w is None:
            if not P.prove(ex, res, o, z3.Not(isok), "Ok requires the header write"):
                return False
            return True
        w_ok = _ev_result_ok(ex, o, evs[i_w])
        if not P.prove(ex, res, o, z3.Implies(z3.Not(w_ok), z3.Not(isok)), "write error propagated"):
            return False
        if i_s is None:
            if not P.prove(ex, res, o, z3.Not(isok), "Ok requires the sync"):
                return False
            P.cover(ex, res, o, z3.Not(w_ok), "header write failed")
            return True
        if not i_w < i_s:
            res.status = "violated"; res.detail = "sync before header write"; return False
        s_ok = _ev_result_ok(ex, o, evs[i_s])
        if not P.prove(ex, res, o, isok == z3.And(w_ok, s_ok), "Ok iff written and synced"):
            return False
        P.cover(ex, res, o, isok, "header written and synced")
        P.cover(ex, res, o, z3.Not(s_ok), "sync failed")
        return True

    _check_paths(ex, res, outs, per_path)
    return P.finish(ex, res, ["header written and synced", "sync failed", "header write failed"])


def load_index_fallback(crate):
    """C03: Blob::load_index: if loading the index file fails, the index is cleared and rebuilt by scanning the blob
    (RawRecords::load is awaited); it never reports success while still serving the rejected on-disk index."""
    res = P.ObResult("load_index_fallback")
    res.functions = ["Blob::load_index (async body)", "Blob::try_regenerate_index (async body)", "IndexStruct::clear",
                     "IndexStruct::on_disk", "Blob::raw_records"]
    res.bounds = "single call, all callee outcomes symbolic; regeneration loop bounded to 2 headers"
    inl = INLINE_BLOB + [r"^Blob::try_regenerate_index$", r"^Blob::raw_records$"]
    ex, outs, b = _run_blob_async(crate, r"blob::core::<impl at [^>]*>::load_index$", lambda ex, st: [], inline=inl, cap=2, loop_bound=5)
    res.paths = len(outs)
    ST = crate.enums["State"]

    def per_path(o, isok, payload):
        evs = P.events_of(o)
        names = [e[1] for e in evs]
        i_load = idx(names, "IndexTrait>::load")
        if i_load is None:
            res.status = "violated"; res.detail = "index.load not attempted"; return False
        l_ok = _ev_result_ok(ex, o, evs[i_load])
        i_scan = idx(names, "RawRecords::load")
        bo = _blob_in(o)
        idxo = bo.fields.get((None, crate.field_index("Blob", "index")))
        inner = idxo.fields.get((None, crate.field_index("IndexStruct", "inner"))) if idxo is not None else None
        if not P.prove(ex, res, o, z3.Implies(z3.And(z3.Not(l_ok), isok), z3.BoolVal(i_scan is not None)),
                       "failed load + Ok => blob was rescanned"):
            return False
        if inner is not None and inner.discr is not None:
            if not P.prove(ex, res, o, z3.Implies(z3.And(z3.Not(l_ok), isok), inner.discr.t == BV64(ST["InMemory"])),
                           "failed load + Ok => index is in memory afterwards"):
                return False
        elif i_scan is None:
            if not P.prove(ex, res, o, z3.Or(l_ok, z3.Not(isok)), "failed load + Ok => index state was reset"):
                return False
        if not P.prove(ex, res, o, z3.Implies(l_ok, z3.And(isok, z3.BoolVal(i_scan is None))), "successful load: Ok, no rescan"):
            return False
        P.cover(ex, res, o, z3.And(z3.Not(l_ok), isok), "load failed, regenerated")
        P.cover(ex, res, o, l_ok, "load ok")
        if i_scan is not None:
            P.cover(ex, res, o, z3.Not(isok), "regeneration failed")
        return True

    _check_paths(ex, res, outs, per_path)
    return P.finish(ex, res, ["load failed, regenerated", "load ok", "regeneration failed"])


def regenerate_pushes_all(crate, N=3):
    """C03: Blob::try_regenerate_index: when the index is not on disk, EVERY record header the blob scan returned is pushed
    into the index, in file order, exactly once — nothing is filtered out or reordered on the way, so the rebuilt index
    answers as the original one did; a push error fails the regeneration; with the index on disk nothing is scanned."""
    res = P.ObResult("regenerate_pushes_all[N<=%d]" % N)
    res.functions = ["Blob::try_regenerate_index (async body)", "Blob::raw_records", "IndexStruct::on_disk"]
    res.bounds = "scan returns None or <= %d headers, every outcome of scan / push" % N
    n = z3.BitVec("scanned_headers", 64)
    hs = [P.mk_header(crate, "scan%d" % i) for i in range(N)]
    some = z3.Bool("scan_found_records")

    def hook(ex_, st_, name, fargs, out_ty, dty):
        if name.endswith("RawRecords::load"):
            r = ex_.fresh(out_ty, st_, "scan")
            opt = Obj("std::option::Option<Vec<record::record::Header>>")
            opt.discr = Sym(z3.If(some, BV64(1), BV64(0)), "isize")
            opt.fields[("Some", 0)] = VecV(P.HEADER_TY, N, Sym(n, "usize"), list(hs))
            r.fields[("Ok", 0)] = opt
            st_.events.append(("await", name, fargs, r))
            return [(S.poll_ready(dty, r), None)]
        return None
    inl = INLINE_BLOB + [r"^Blob::raw_records$"]
    fn = crate.method("Blob", "try_regenerate_index")
    ex = P.mk_executor(crate, cap=N + 1, loop_bound=N + 3, inline=inl)
    ex.await_hook = hook
    st = State()
    st.pc.append(z3.And(z3.ULE(n, BV64(N)), z3.UGE(n, BV64(1))))
    bref, b = blob_state(crate, ex, st)
    outs = P.drive_async(ex, st, fn, [bref])
    res.paths = len(outs)

    def per_path(o, isok, payload):
        evs = P.events_of(o)
        scans = [e for e in evs if e[0] == "await" and e[1].endswith("RawRecords::load")]
        pushes = [e for e in evs if e[0] == "call" and e[1].endswith("IndexTrait>::push")]
        if not scans:
            # index on disk (or the scanner could not be created)
            if not P.prove(ex, res, o, z3.BoolVal(len(pushes) == 0), "nothing is pushed without a scan"):
                return False
            P.cover(ex, res, o, isok, "index already on disk: nothing to do")
            return True
        s_ok = ex.get_discr(o, scans[0][3]).t == BV64(0)
        if not P.prove(ex, res, o, z3.Implies(z3.Not(s_ok), z3.And(z3.Not(isok), z3.BoolVal(len(pushes) == 0))), "scan error: returned, nothing pushed"):
            return False
        want = z3.If(some, n, BV64(0))
        oks = [ex.get_discr(o, e[3]).t == BV64(0) for e in pushes]
        if not P.prove(ex, res, o, z3.Implies(isok, want == BV64(len(pushes))), "Ok => one push per scanned header"):
            return False
        for i, e in enumerate(pushes):
            harg = e[2][2]
            if not isinstance(harg, Obj):
                res.status = "inconclusive"; res.detail = "pushed header not modelled"; return False
            if not P.prove(ex, res, o, P.hdrl(crate, ex, o, harg, "seq") == P.hdr(crate, hs[i], "seq") if i < N else z3.BoolVal(False), "push %d carries scanned header %d (file order)" % (i, i)):
                return False
        for i in range(len(pushes) - 1):
            if not P.prove(ex, res, o, oks[i], "no push after a failed push"):
                return False
        if pushes and not P.prove(ex, res, o, z3.Implies(z3.Not(oks[-1]), z3.Not(isok)), "a push error fails the regeneration"):
            return False
        P.cover(ex, res, o, z3.And(isok, some, n == BV64(N)), "all scanned headers pushed")
        P.cover(ex, res, o, z3.And(isok, z3.Not(some)), "empty blob")
        return True

    _check_paths(ex, res, outs, per_path)
    return P.finish(ex, res, ["all scanned headers pushed", "empty blob", "index already on disk: nothing to do"])
