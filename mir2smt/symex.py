"""Engine M: symbolic execution of rustc MIR bodies into z3 terms (DESIGN.md §1.2).

Values
  Sym(term, ty)          scalar (z3 BitVec / Bool)
  Obj(ty)                struct / tuple / enum / closure / coroutine / opaque; fields are materialised lazily
                         from the type ascription in the MIR place ("under-constrained" symbolic pre-state)
  VecV(elem_ty)          bounded vector / slice: CAP element slots + symbolic length
  Ref(cell, proj)        reference / Box / raw pointer to a place
  FnItem(name)           function item or capture-less closure
  FutureV(callee, args)  an un-polled future of an `async fn` call
Execution forks at every symbolic branch (no state merging); each path carries its own path condition and
event log.  Anything the engine does not understand raises Unsupported => the obligation is inconclusive.
"""
import copy, itertools, re
import z3
from . import mirparse as MP


class Unsupported(Exception):
    pass


class PathEnd(Exception):
    pass


INT_W = {"u8": 8, "u16": 16, "u32": 32, "u64": 64, "u128": 128, "usize": 64,
         "i8": 8, "i16": 16, "i32": 32, "i64": 64, "i128": 128, "isize": 64, "char": 32}
SIGNED = {"i8", "i16", "i32", "i64", "i128", "isize"}

_fresh_ctr = itertools.count()


def fresh_name(base):
    return "%s!%d" % (re.sub(r"[^\w]", "_", base)[:24], next(_fresh_ctr))


class Sym:
    __slots__ = ("t", "ty")

    def __init__(self, t, ty):
        self.t, self.ty = t, ty

    def __repr__(self):
        return "Sym(%s:%s)" % (self.t, self.ty)


class Unit:
    ty = "()"

    def __repr__(self):
        return "Unit"


UNIT = Unit()


class Obj:
    """Lazily materialised aggregate. fields: {(variant|None, idx): Value}."""

    def __init__(self, ty, discr=None):
        self.ty = ty
        self.oid = next(_fresh_ctr)   # identity shared by copies: lazily materialised parts are memoised per oid
        self.fields = {}
        self.discr = discr     # Sym or None (lazy)
        self.tag = None        # free-form label set by summaries / obligations

    def __repr__(self):
        return "Obj<%s>%s" % (self.ty[:40], "" if self.discr is None else "#%s" % self.discr.t)


class VecV:
    def __init__(self, elem_ty, cap, length=None, elems=None):
        self.oid = next(_fresh_ctr)
        self.elem_ty = elem_ty
        self.cap = cap
        self.len = length      # Sym usize
        self.elems = elems if elems is not None else [None] * cap   # lazily fresh

    ty = "Vec"

    def __repr__(self):
        return "VecV<%s>[len=%s]" % (self.elem_ty[:30], self.len.t if self.len is not None else "?")


class Ref:
    __slots__ = ("cell", "proj", "mut", "ty")

    def __init__(self, cell, proj=(), mut=False, ty=None):
        self.cell, self.proj, self.mut, self.ty = cell, tuple(proj), mut, ty

    def __repr__(self):
        return "Ref(%s%s)" % (self.cell, "".join("." + str(p) for p in self.proj))


class FnItem:
    def __init__(self, name):
        self.name = name
        self.ty = "fn"

    def __repr__(self):
        return "FnItem(%s)" % self.name[:60]


class FutureV:
    def __init__(self, callee, args, out_ty, kind="call"):
        self.callee, self.args, self.out_ty, self.kind = callee, args, out_ty, kind
        self.ty = "future"
        self.polled = 0

    def __repr__(self):
        return "FutureV(%s)" % self.callee[:60]


# ---------------------------------------------------------------------------------------------
# type helpers
# ---------------------------------------------------------------------------------------------
def strip_generics(path):
    """Remove every balanced <...> group that follows '::' or an identifier (turbofish and type args)."""
    out = []
    i, n = 0, len(path)
    while i < n:
        c = path[i]
        if c == "<" and i > 0 and (path[i - 1].isalnum() or path[i - 1] in "_:]"):
            j = MP.match_close(path, i)
            i = j + 1
            if out and out[-1] == ":" and len(out) > 1 and out[-2] == ":" and i < n and path[i:i + 2] == "::":
                # "::<..>::" -> keep single "::"
                i += 2
            elif out and out[-1] == ":" and len(out) > 1 and out[-2] == ":" and (i >= n or path[i] != ":"):
                out.pop()
                out.pop()
            continue
        out.append(c)
        i += 1
    return "".join(out)


def norm_callee(func):
    """Normalise a MIR callee path for summary lookup:
         Vec::<T>::len                      -> Vec::len
         <Vec<T> as Deref>::deref           -> <Vec as Deref>::deref
         core::slice::<impl [T]>::binary_search_by::<'_, F> -> core::slice::<impl [T]>::binary_search_by"""
    f = func.strip()
    if f.startswith("<"):
        j = MP.match_close(f, 0)
        inner = f[1:j]
        rest = f[j + 1:]
        pos = MP._top_level_find(inner, " as ")
        if pos is not None:
            a, b = inner[:pos], inner[pos + 4:]
            return "<%s as %s>%s" % (base_type(a), b.strip(), strip_generics(rest))
        return "<%s>%s" % (base_type(inner), strip_generics(rest))
    return strip_generics(f)


def base_type(ty):
    """Outermost type constructor without generic args / references: '&mut Vec<T>' -> 'Vec'."""
    t = ty.strip()
    while True:
        if t.startswith("&"):
            t = re.sub(r"^&('\w+ )?(mut )?", "", t).strip()
        elif t.startswith("*const ") or t.startswith("*mut "):
            t = t.split(" ", 1)[1].strip()
        else:
            break
    if t.startswith("[") or t.startswith("(") or t.startswith("{"):
        return t
    t2 = strip_generics(t)
    return t2


def last_seg(path):
    p = strip_generics(path)
    return p.split("::")[-1]


def generic_args(ty):
    """Top-level generic arguments of a type: 'Result<A, B<C>>' -> ['A', 'B<C>']"""
    t = ty.strip()
    i = t.find("<")
    if i < 0 or not t.endswith(">"):
        return []
    # find the '<' that matches the final '>'
    depth = 0
    start = None
    for k in range(len(t) - 1, -1, -1):
        c = t[k]
        if c == ">" and not (k > 0 and t[k - 1] in "-="):
            depth += 1
        elif c == "<":
            depth -= 1
            if depth == 0:
                start = k
                break
    if start is None:
        return []
    return [a for a in MP.split_top(t[start + 1:-1]) if not a.startswith("'")]


def is_ref_ty(ty):
    t = ty.strip()
    return t.startswith("&") or t.startswith("*const ") or t.startswith("*mut ") or \
        base_type(t).split("::")[-1] in ("Box", "NonNull", "Unique") and not t.startswith("(")


def pointee(ty):
    t = ty.strip()
    if t.startswith("&"):
        return re.sub(r"^&('\w+ )?(mut )?", "", t).strip()
    if t.startswith("*const ") or t.startswith("*mut "):
        return t.split(" ", 1)[1].strip()
    ga = generic_args(t)
    return ga[0] if ga else "?"


STD_ENUMS = {
    "Option": {"None": 0, "Some": 1},
    "Result": {"Ok": 0, "Err": 1},
    "Poll": {"Ready": 0, "Pending": 1},
    "Ordering": {"Less": -1, "Equal": 0, "Greater": 1},
    "ControlFlow": {"Continue": 0, "Break": 1},
    "Cow": {"Borrowed": 0, "Owned": 1},
    "Bound": {"Included": 0, "Excluded": 1, "Unbounded": 2},
}


class Frame:
    def __init__(self, fid, body, ret_dest, ret_block):
        self.fid = fid
        self.body = body
        self.ret_dest = ret_dest      # (Frame id, Place) in caller or None
        self.ret_block = ret_block
        self.block = "bb0"
        self.visits = {}
        self.ret_wrap = None


class State:
    def __init__(self):
        self.mem = {}          # cell id -> Value
        self.lazy = {}         # (oid, key) -> value materialised lazily (shared by copies of the same object)
        self.cell_ty = {}      # cell -> type of a lazily materialised pointee
        self.frames = []
        self.pc = []           # list of z3 Bool
        self.events = []       # (kind, name, payload)
        self.next_cell = 0
        self.next_frame = 0
        self.result = None
        self.status = "running"  # running | returned | panic | pending | unreachable
        self.note = ""

    def new_cell(self, v=None):
        c = ("h", self.next_cell)
        self.next_cell += 1
        self.mem[c] = v
        return c

    def fork(self):
        return copy.deepcopy(self)


# ---------------------------------------------------------------------------------------------
# The executor
# ---------------------------------------------------------------------------------------------
def _reaches_memory(v, depth=0):
    """does a call argument give the callee access to caller-visible memory (a reference anywhere inside it)?  A callee
    that gets scalars only cannot modify the state the claims talk about: it may stay opaque (arbitrary result)."""
    if depth > 6:
        return True
    if isinstance(v, Ref):
        return True
    if isinstance(v, Obj):
        ty = v.ty or ""
        if re.search(r"(^|[<( ,])(&|\*(const|mut) |(std::sync::|std::rc::)?(Arc|Rc|Box)<)", ty) or "dyn " in ty or "closure@" in ty or ty in ("?", ""):
            return True
        return any(_reaches_memory(x, depth + 1) for x in v.fields.values())
    if isinstance(v, VecV):
        ety = v.elem_ty or ""
        if re.search(r"(&|Arc<|Rc<|Box<)", ety):
            return True
        return any(_reaches_memory(x, depth + 1) for x in v.elems if x is not None)
    return not isinstance(v, (Sym, Unit, FnItem)) and v is not None and not isinstance(v, (int, str))


class Executor:
    def __init__(self, bodies, enums=None, cap=8, loop_bound=12, inline=None, summaries=None, havoc=None,
                 max_paths=4000, timeout_ms=60000):
        self.bodies = bodies
        self.enums = dict(STD_ENUMS)
        if enums:
            self.enums.update(enums)
        self.cap = cap
        self.loop_bound = loop_bound
        self.inline = inline or (lambda name: False)
        self.summaries = summaries or []       # list of (compiled regex on norm callee, handler)
        self.havoc = havoc or (lambda name: False)
        self.max_paths = max_paths
        self.solver = z3.Solver()
        self.timeout_ms = timeout_ms
        self.prove_timeout_ms = 300000
        self.solver.set("timeout", timeout_ms)
        self.queries = 0
        self.solver_s = 0.0
        self.unwind_hits = []
        self.consts = {}
        self.stats = {"paths": 0, "forks": 0, "calls_summarised": {}, "calls_inlined": {}, "calls_havoc": {}}

    # ---- solver ------------------------------------------------------------------------------
    def check(self, conds, timeout_ms=None):
        import time
        t0 = time.time()
        if timeout_ms is not None:
            self.solver.set("timeout", timeout_ms)
        try:
            return self._check(conds, t0)
        finally:
            if timeout_ms is not None:
                self.solver.set("timeout", self.timeout_ms)

    def _check(self, conds, t0):
        import time
        self.solver.push()
        for c in conds:
            self.solver.add(c)
        r = self.solver.check()
        self.solver.pop()
        self.queries += 1
        self.solver_s += time.time() - t0
        return r

    def feasible(self, st, extra=None):
        conds = list(st.pc)
        if extra is not None:
            conds.append(extra)
        r = self.check(conds)
        if r == z3.unknown:
            raise Unsupported("solver unknown in feasibility check")
        return r == z3.sat

    # ---- fresh values --------------------------------------------------------------------------
    def fresh(self, ty, st, hint="v"):
        t = ty.strip()
        if t in INT_W:
            return Sym(z3.BitVec(fresh_name(hint), INT_W[t]), t)
        if t == "bool":
            return Sym(z3.Bool(fresh_name(hint)), "bool")
        if t == "()":
            return UNIT
        if t.startswith("&") and not t.startswith("&str") and "dyn " not in t:
            # a reference to an arbitrary value: the pointee is materialised on first use
            c = st.new_cell(None)
            st.cell_ty[c] = pointee(t)
            return Ref(c, (), "mut " in t[:12], t)
        bt = base_type(t).split("::")[-1] if not t.startswith(("(", "[", "{", "&", "*")) else ""
        if bt == "Vec" or (t.startswith("[") and not re.search(r";\s*\d+\]$", t)):
            et = generic_args(t)[0] if bt == "Vec" else t[1:-1].strip()
            v = VecV(et, self.cap, Sym(z3.BitVec(fresh_name(hint + "_len"), 64), "usize"))
            st.pc.append(z3.ULE(v.len.t, z3.BitVecVal(self.cap, 64)))
            return v
        o = Obj(t)
        # enums: materialise the discriminant (and std payloads) eagerly so that copies share them
        if bt in self.enums and not t.startswith("{"):
            d = z3.BitVec(fresh_name("discr_" + bt), 64)
            o.discr = Sym(d, "isize")
            vals = sorted(set(self.enums[bt].values()))
            st.pc.append(z3.Or([d == z3.BitVecVal(x, 64) for x in vals]))
            ga = generic_args(t)
            if bt == "Option" and ga:
                o.fields[("Some", 0)] = self.fresh(ga[0], st, hint + "_some")
            elif bt == "Result" and ga:
                o.fields[("Ok", 0)] = self.fresh(ga[0], st, hint + "_ok")
            elif bt == "Poll" and ga:
                o.fields[("Ready", 0)] = self.fresh(ga[0], st, hint + "_rdy")
        return o

    def const(self, text, st):
        s = text.strip()
        m = re.fullmatch(r"(-?\d+)_(u8|u16|u32|u64|u128|usize|i8|i16|i32|i64|i128|isize)", s)
        if m:
            return Sym(z3.BitVecVal(int(m.group(1)), INT_W[m.group(2)]), m.group(2))
        if s == "true":
            return Sym(z3.BoolVal(True), "bool")
        if s == "false":
            return Sym(z3.BoolVal(False), "bool")
        if s == "()":
            return UNIT
        m = re.fullmatch(r"'(.)'", s)
        if m:
            return Sym(z3.BitVecVal(ord(m.group(1)), 32), "char")
        if s.startswith("ZeroSized: "):
            return FnItem(s[len("ZeroSized: "):])
        if s.startswith('"') or s.startswith('b"'):
            o = Obj("&str")
            o.tag = ("strlit", s)
            return o
        m = re.fullmatch(r"<(\w+) as (?:[\w:]+::)?Key<[^>]*>>::(LEN|MEM_SIZE)", s)
        if m:
            ty = "u16" if m.group(2) == "LEN" else "usize"
            return Sym(z3.BitVec("%s_%s" % (m.group(1), m.group(2)), INT_W[ty]), ty)
        m = re.match(r"^(?:core::num::<impl )?([iu](?:8|16|32|64|128|size))>?::(MIN|MAX)$", s)
        if m and m.group(1) in INT_W:
            ty, w = m.group(1), INT_W[m.group(1)]
            if ty.startswith("u"):
                v = 0 if m.group(2) == "MIN" else (1 << w) - 1
            else:
                v = (1 << (w - 1)) if m.group(2) == "MIN" else (1 << (w - 1)) - 1
            return Sym(z3.BitVecVal(v, w), ty)
        if s in ("RangeFull", "std::ops::RangeFull", "PhantomData", "std::marker::PhantomData"):
            return Obj(s)
        nc = self.lookup_named_const(s, st)
        if nc is not None:
            return nc
        if re.match(r"^[<A-Za-z_{]", s) and ("::" in s or s.startswith("{")):
            # named constant / promoted / fn item: one opaque object per distinct text
            if re.search(r"::promoted\[\d+\]$", s) or re.match(r"^[\w:<>]+::[A-Z_][A-Z0-9_]*$", s) or "{const" in s:
                if s not in self.consts:
                    self.consts[s] = Obj("const " + s)
                    self.consts[s].tag = ("const", s)
                return self.consts[s]
            return FnItem(s)
        raise Unsupported("constant: " + s[:80])

    def lookup_named_const(self, s, st):
        table = getattr(self, "named_consts", None)
        if not table or not re.match(r"^[A-Za-z_<][\w:<>{}#, ]*$", s):
            return None
        last = s.split("::")[-1]
        if not re.match(r"^[A-Z_][A-Z0-9_]*$", last):
            return None
        cands = [k for k in table if k == s or k.endswith("::" + s) or s.endswith("::" + k) or k == last]
        if not cands:
            cands = [k for k in table if k.split("::")[-1] == last]
        if len(cands) != 1:
            return None
        kind = table[cands[0]]
        if kind[0] == "lit":
            try:
                return self.const(kind[2], st)
            except Unsupported:
                return None
        body = kind[1]
        key = "constbody:" + cands[0]
        if key in self.consts:
            return copy.deepcopy(self.consts[key])
        s2 = State()
        self.push_frame(s2, body, [], None, None)
        outs = [o for o in self.run(s2) if o.status == "returned"]
        if len(outs) != 1 or outs[0].pc:
            return None
        self.consts[key] = outs[0].result
        return copy.deepcopy(outs[0].result)

    # ---- places --------------------------------------------------------------------------------
    def local_cell(self, frame, local):
        return ("l", frame.fid, local)

    def resolve(self, st, frame, place):
        """-> (cell, proj) with all derefs followed (proj contains field/downcast/index(term) steps only)."""
        cell = self.local_cell(frame, place.local)
        proj = []
        pending_ty = frame.body.locals.get(place.local, "?")
        for p in place.proj:
            if p[0] == "deref":
                v = self.read_path(st, cell, proj, pending_ty)
                if isinstance(v, Ref):
                    cell, proj = v.cell, list(v.proj)
                    pending_ty = pointee(v.ty) if v.ty else "?"
                elif isinstance(v, Obj):
                    # lazily materialise the pointee
                    pt = pointee(v.ty) if v.ty else "?"
                    nc = st.new_cell(None)
                    st.mem[nc] = self.fresh(pt, st, "deref") if pt != "?" else Obj("?")
                    r = Ref(nc, (), True, v.ty)
                    self.write_path(st, cell, proj, r)
                    cell, proj = nc, []
                    pending_ty = pt
                else:
                    raise Unsupported("deref of %r" % (v,))
            elif p[0] == "field":
                proj.append(("field", p[1], p[2]))
                pending_ty = p[2]
            elif p[0] == "downcast":
                proj.append(("downcast", p[1]))
            elif p[0] == "index":
                iv = self.read_path(st, self.local_cell(frame, p[1]), [], "usize")
                if not isinstance(iv, Sym):
                    raise Unsupported("index by non-scalar")
                proj.append(("index", iv.t))
                pending_ty = "?"
            elif p[0] == "constindex":
                if p[3]:
                    raise Unsupported("constindex from end")
                proj.append(("index", z3.BitVecVal(p[1], 64)))
                pending_ty = "?"
            else:
                raise Unsupported("projection %r" % (p,))
        return cell, proj

    def _get_field(self, st, obj, variant, idx, ty):
        if isinstance(obj, Obj):
            k = (variant, idx)
            if k not in obj.fields:
                mk = (obj.oid, k)
                if mk in st.lazy:
                    obj.fields[k] = copy.deepcopy(st.lazy[mk])
                else:
                    obj.fields[k] = self.fresh(ty, st, "f%s" % idx)
                    st.lazy[mk] = copy.deepcopy(obj.fields[k])
            return obj.fields[k]
        raise Unsupported("field of %r" % (obj,))

    def read_path(self, st, cell, proj, ty_hint="?"):
        if cell not in st.mem or st.mem[cell] is None:
            if ty_hint == "?" and cell in st.cell_ty:
                ty_hint = st.cell_ty[cell]
            if ty_hint == "?":
                raise Unsupported("read of uninitialised cell %r" % (cell,))
            st.mem[cell] = self.fresh(ty_hint, st, "c")
        return self._read(st, st.mem[cell], list(proj))

    def _read(self, st, v, proj):
        variant = None
        i = 0
        while i < len(proj):
            p = proj[i]
            if p[0] == "downcast":
                variant = p[1]
            elif p[0] == "field":
                if isinstance(v, Ref) and p[1] == 0 and re.search(r"\b(Unique|NonNull)<", str(p[2])):
                    pass    # Box<T> -> Unique<T> -> NonNull<T>: the same pointer
                else:
                    v = self._get_field(st, v, variant, p[1], p[2])
                variant = None
            elif p[0] == "index":
                v = self._index_read(st, v, p[1], proj[i + 1:])
                return v
            i += 1
        return v

    def _elem(self, st, vec, k):
        if vec.elems[k] is None:
            mk = (vec.oid, ("elem", k))
            if mk in st.lazy:
                vec.elems[k] = copy.deepcopy(st.lazy[mk])
            else:
                vec.elems[k] = self.fresh(vec.elem_ty, st, "e%d" % k)
                st.lazy[mk] = copy.deepcopy(vec.elems[k])
        return vec.elems[k]

    def _index_read(self, st, v, idx, rest):
        if isinstance(v, Ref):
            v = self.read_path(st, v.cell, v.proj)
        if isinstance(v, Obj) and v.tag and v.tag[0] == "array":
            v = v.tag[1]
        if not isinstance(v, VecV):
            raise Unsupported("index into %r" % (v,))
        idx = z3.simplify(idx)
        if z3.is_bv_value(idx):
            k = idx.as_long()
            if k >= v.cap:
                raise Unsupported("index %d beyond cap %d" % (k, v.cap))
            return self._read(st, self._elem(st, v, k), list(rest))
        res = None
        for k in range(v.cap - 1, -1, -1):
            ek = self._read(st, self._elem(st, v, k), list(rest))
            res = ek if res is None else self.ite(idx == k, ek, res)
        return res

    def ite(self, c, a, b):
        if a is b:
            return a
        if not isinstance(c, bool):
            cs = z3.simplify(c)
            if z3.is_true(cs):
                return a
            if z3.is_false(cs):
                return b
        if isinstance(a, Sym) and isinstance(b, Sym):
            if a.t.eq(b.t):
                return a
            return Sym(z3.If(c, a.t, b.t), a.ty)
        if isinstance(a, Unit) and isinstance(b, Unit):
            return a
        if isinstance(a, Obj) and isinstance(b, Obj):
            o = Obj(a.ty)
            o.tag = a.tag if a.tag == b.tag else None
            if a.discr is not None or b.discr is not None:
                da = a.discr if a.discr is not None else None
                db = b.discr if b.discr is not None else None
                if da is None or db is None:
                    raise Unsupported("ite over lazily-discriminated enums")
                o.discr = self.ite(c, da, db)
            for k in set(a.fields) | set(b.fields):
                if k in a.fields and k in b.fields:
                    o.fields[k] = self.ite(c, a.fields[k], b.fields[k])
                elif k in a.fields:
                    o.fields[k] = a.fields[k]
                else:
                    o.fields[k] = b.fields[k]
            return o
        if isinstance(a, Ref) and isinstance(b, Ref) and a.cell == b.cell and len(a.proj) == len(b.proj):
            proj = []
            for pa, pb in zip(a.proj, b.proj):
                if pa[0] == "index" and pb[0] == "index":
                    proj.append(("index", z3.If(c, pa[1], pb[1])))
                elif pa == pb:
                    proj.append(pa)
                else:
                    raise Unsupported("ite over different refs")
            return Ref(a.cell, proj, a.mut, a.ty)
        if isinstance(a, VecV) and isinstance(b, VecV) and a.cap == b.cap:
            v = VecV(a.elem_ty, a.cap, self.ite(c, a.len, b.len))
            for k in range(a.cap):
                if a.elems[k] is None and b.elems[k] is None:
                    continue
                if a.elems[k] is None or b.elems[k] is None:
                    raise Unsupported("ite over partially materialised vectors")
                v.elems[k] = self.ite(c, a.elems[k], b.elems[k])
            return v
        raise Unsupported("ite over %r / %r" % (a, b))

    def write_path(self, st, cell, proj, val):
        if not proj:
            st.mem[cell] = val
            return
        if cell not in st.mem or st.mem[cell] is None:
            st.mem[cell] = self.fresh(st.cell_ty[cell], st, "c") if cell in st.cell_ty else Obj("?")
        self._write(st, st.mem[cell], list(proj), val, None)

    def _write(self, st, v, proj, val, guard):
        variant = None
        i = 0
        while True:
            p = proj[i]
            last = i == len(proj) - 1
            if p[0] == "downcast":
                variant = p[1]
                i += 1
                continue
            if p[0] == "field":
                if not isinstance(v, Obj):
                    raise Unsupported("field write into %r" % (v,))
                k = (variant, p[1])
                if last:
                    if guard is None:
                        v.fields[k] = val
                    else:
                        old = self._get_field(st, v, variant, p[1], p[2])
                        v.fields[k] = self.ite(guard, val, old)
                    return
                v = self._get_field(st, v, variant, p[1], p[2])
                variant = None
                i += 1
                continue
            if p[0] == "index":
                if isinstance(v, Ref):
                    v = self.read_path(st, v.cell, v.proj)
                if not isinstance(v, VecV):
                    raise Unsupported("index write into %r" % (v,))
                idx = z3.simplify(p[1])
                rest = proj[i + 1:]
                if z3.is_bv_value(idx):
                    k = idx.as_long()
                    if k >= v.cap:
                        raise Unsupported("index write beyond cap")
                    if not rest:
                        v.elems[k] = val if guard is None else self.ite(guard, val, self._elem(st, v, k))
                    else:
                        self._write(st, self._elem(st, v, k), rest, val, guard)
                    return
                for k in range(v.cap):
                    g = idx == k if guard is None else z3.And(guard, idx == k)
                    if not rest:
                        v.elems[k] = self.ite(g, val, self._elem(st, v, k))
                    else:
                        # need an independent copy per slot, elements are distinct objects already
                        self._write(st, self._elem(st, v, k), rest, val, g)
                return
            raise Unsupported("write projection %r" % (p,))

    def read_place(self, st, frame, place):
        cell, proj = self.resolve(st, frame, place)
        ty = frame.body.locals.get(place.local, "?") if not proj else "?"
        v = self.read_path(st, cell, proj, ty if not place.proj else self._cell_ty(frame, cell))
        return v

    def _cell_ty(self, frame, cell):
        if cell[0] == "l" and cell[1] == frame.fid:
            return frame.body.locals.get(cell[2], "?")
        return "?"

    def place_ty(self, frame, place):
        t = frame.body.locals.get(place.local, "?")
        for p in place.proj:
            if p[0] == "field":
                t = p[2]
            elif p[0] == "deref":
                t = pointee(t) if t != "?" else "?"
            elif p[0] == "downcast":
                pass
            else:
                t = "?"
        return t

    def eval_promoted(self, st, frame, text):
        m = re.search(r"::promoted\[(\d+)\]$", text)
        table = getattr(self, "named_consts", None)
        if not m or not table:
            return None
        ent = table.get("%s::promoted[%s]" % (frame.body.name, m.group(1)))
        if ent is None:
            return None
        if ent[0] == "lit":
            try:
                return self.const(ent[2], st)
            except Unsupported:
                return None
        body = ent[1]
        saved, saved_status = st.frames, st.status
        st.frames = []
        try:
            self.push_frame(st, body, [], None, None)
            outs = self.run(st)
        finally:
            st.frames = saved
        if len(outs) != 1 or outs[0] is not st or st.status != "returned":
            raise Unsupported("promoted constant did not evaluate on a single path")
        st.status = saved_status
        return st.result

    def operand(self, st, frame, op):
        if op.kind == "const":
            if op.const.endswith("]") and "::promoted[" in op.const:
                v = self.eval_promoted(st, frame, op.const)
                if v is not None:
                    return v
            return self.const(op.const, st)
        v = self.read_place(st, frame, op.place)
        if op.kind == "copy" and isinstance(v, (Obj, VecV)):
            # copy of an aggregate: value semantics => duplicate (Copy types are small)
            return copy.deepcopy(v)
        return v

    # ---- rvalues -------------------------------------------------------------------------------
    def enum_discr(self, ty, variant):
        bt = base_type(ty).split("::")[-1]
        if bt in self.enums and variant in self.enums[bt]:
            return self.enums[bt][variant]
        m = re.fullmatch(r"variant#(\d+)", variant)
        if m:
            return int(m.group(1))
        raise Unsupported("unknown enum variant %s of %s" % (variant, ty[:60]))

    def discr_sort(self, ty):
        return 64

    def rvalue(self, st, frame, rv, dest_ty):
        k = rv.kind
        if k == "use":
            return self.operand(st, frame, rv.args[0])
        if k == "ref" or k == "addr_of":
            cell, proj = self.resolve(st, frame, rv.args[0])
            return Ref(cell, proj, rv.extra == "mut", dest_ty)
        if k == "binop":
            return self.binop(st, rv.extra, self.operand(st, frame, rv.args[0]), self.operand(st, frame, rv.args[1]))
        if k == "unop":
            a = self.operand(st, frame, rv.args[0])
            if rv.extra == "Not":
                if a.ty == "bool":
                    return Sym(z3.Not(a.t), "bool")
                return Sym(~a.t, a.ty)
            if rv.extra == "Neg":
                return Sym(-a.t, a.ty)
            if rv.extra == "PtrMetadata":
                if isinstance(a, Ref):
                    tgt = self.read_path(st, a.cell, a.proj)
                    if isinstance(tgt, VecV):
                        return tgt.len
                    if isinstance(tgt, Obj) and isinstance(tgt.fields.get(("g", "len")), Sym):
                        return tgt.fields[("g", "len")]     # modelled byte buffer (file range)
                raise Unsupported("PtrMetadata of %r" % (a,))
            raise Unsupported("unop " + rv.extra)
        if k == "discriminant":
            v = self.read_place(st, frame, rv.args[0])
            return self.get_discr(st, v, dest_ty)
        if k == "cast":
            a = self.operand(st, frame, rv.args[0])
            ty, kind = rv.extra
            if kind == "IntToInt":
                return self.int_cast(a, ty)
            if kind.startswith("PointerCoercion") or kind in ("PtrToPtr", "Transmute", "Subtype"):
                if isinstance(a, Ref):
                    return Ref(a.cell, a.proj, a.mut, ty)
                if isinstance(a, (Obj, FnItem, FutureV)):
                    return a
                if isinstance(a, Sym) and ty.strip() in INT_W and INT_W[ty.strip()] == a.t.size():
                    return Sym(a.t, ty.strip())
            raise Unsupported("cast %s of %r" % (kind, a))
        if k == "tuple":
            o = Obj(dest_ty if dest_ty != "?" else "tuple")
            for i, a in enumerate(rv.args):
                o.fields[(None, i)] = self.operand(st, frame, a)
            return o
        if k == "array":
            v = VecV("?", max(self.cap, len(rv.args)), Sym(z3.BitVecVal(len(rv.args), 64), "usize"))
            for i, a in enumerate(rv.args):
                v.elems[i] = self.operand(st, frame, a)
            return v
        if k == "adt_struct":
            path, names = rv.extra
            o = Obj(path)
            for i, a in enumerate(rv.args):
                o.fields[(None, i)] = self.operand(st, frame, a)
            o.tag = ("names", names)
            if path.startswith("{async") or path.startswith("{coroutine"):
                o.discr = Sym(z3.BitVecVal(0, 64), "isize")
                o.tag = ("coroutine_of", frame.body.name)
            return o
        if k in ("adt_tuple", "adt_unit"):
            path = rv.extra
            if path.startswith("{") :
                return FnItem(path)
            variant = last_seg(path)
            # enum variant or tuple struct?
            enum_ty = path.rsplit("::", 1)[0] if "::" in path else (dest_ty or "?")
            ebt = base_type(enum_ty).split("::")[-1]
            dbt = base_type(dest_ty).split("::")[-1] if dest_ty and dest_ty != "?" else ""
            if ebt in self.enums and variant in self.enums[ebt]:
                o = Obj(dest_ty if dest_ty != "?" else enum_ty)
                o.discr = Sym(z3.BitVecVal(self.enums[ebt][variant], 64), "isize")
                for i, a in enumerate(rv.args):
                    o.fields[(variant, i)] = self.operand(st, frame, a)
                return o
            if dbt in self.enums and variant in self.enums[dbt]:
                o = Obj(dest_ty)
                o.discr = Sym(z3.BitVecVal(self.enums[dbt][variant], 64), "isize")
                for i, a in enumerate(rv.args):
                    o.fields[(variant, i)] = self.operand(st, frame, a)
                return o
            if k == "adt_unit" and not rv.args:
                # unit struct / fn item / constant path
                return FnItem(path)
            o = Obj(path)
            for i, a in enumerate(rv.args):
                o.fields[(None, i)] = self.operand(st, frame, a)
            return o
        if k == "len":
            v = self.read_place(st, frame, rv.args[0])
            if isinstance(v, VecV):
                return v.len
            raise Unsupported("Len of %r" % (v,))
        raise Unsupported("rvalue kind " + k)

    def get_discr(self, st, v, dest_ty="isize"):
        if isinstance(v, Ref):
            v = self.read_path(st, v.cell, v.proj)
        if not isinstance(v, Obj):
            raise Unsupported("discriminant of %r" % (v,))
        if v.discr is None:
            mk = (v.oid, "discr")
            if mk in st.lazy:
                v.discr = st.lazy[mk]
            else:
                bt = base_type(v.ty).split("::")[-1]
                d = z3.BitVec(fresh_name("discr_" + bt), 64)
                v.discr = Sym(d, "isize")
                st.lazy[mk] = v.discr
                if bt in self.enums:
                    vals = sorted(set(self.enums[bt].values()))
                    st.pc.append(z3.Or([d == z3.BitVecVal(x, 64) for x in vals]))
        w = INT_W.get((dest_ty or "isize").strip(), 64)
        t = v.discr.t
        if t.size() != w:
            t = z3.SignExt(w - t.size(), t) if t.size() < w else z3.Extract(w - 1, 0, t)
        return Sym(t, (dest_ty or "isize").strip())

    def int_cast(self, a, ty):
        ty = ty.strip()
        if not isinstance(a, Sym):
            raise Unsupported("int cast of %r" % (a,))
        w = INT_W.get(ty)
        if w is None:
            raise Unsupported("int cast to " + ty)
        t = a.t
        if a.ty == "bool":
            return Sym(z3.If(t, z3.BitVecVal(1, w), z3.BitVecVal(0, w)), ty)
        sw = t.size()
        if sw == w:
            return Sym(t, ty)
        if sw > w:
            return Sym(z3.Extract(w - 1, 0, t), ty)
        if a.ty in SIGNED:
            return Sym(z3.SignExt(w - sw, t), ty)
        return Sym(z3.ZeroExt(w - sw, t), ty)

    def binop(self, st, op, a, b):
        if not (isinstance(a, Sym) and isinstance(b, Sym)):
            if op in ("Eq", "Ne") and isinstance(a, Unit):
                return Sym(z3.BoolVal(op == "Eq"), "bool")
            raise Unsupported("binop %s on %r, %r" % (op, a, b))
        signed = a.ty in SIGNED
        x, y = a.t, b.t
        if a.ty == "bool":
            if op == "Eq":
                return Sym(x == y, "bool")
            if op == "Ne":
                return Sym(x != y, "bool")
            if op == "BitAnd":
                return Sym(z3.And(x, y), "bool")
            if op == "BitOr":
                return Sym(z3.Or(x, y), "bool")
            if op == "BitXor":
                return Sym(z3.Xor(x, y), "bool")
            raise Unsupported("bool binop " + op)
        if op in ("Shl", "Shr", "ShlUnchecked", "ShrUnchecked") and y.size() != x.size():
            y = z3.ZeroExt(x.size() - y.size(), y) if y.size() < x.size() else z3.Extract(x.size() - 1, 0, y)
        cmpops = {"Eq": lambda: x == y, "Ne": lambda: x != y,
                  "Lt": lambda: (x < y) if signed else z3.ULT(x, y),
                  "Le": lambda: (x <= y) if signed else z3.ULE(x, y),
                  "Gt": lambda: (x > y) if signed else z3.UGT(x, y),
                  "Ge": lambda: (x >= y) if signed else z3.UGE(x, y)}
        if op in cmpops:
            return Sym(cmpops[op](), "bool")
        ar = {"Add": lambda: x + y, "Sub": lambda: x - y, "Mul": lambda: x * y,
              "AddUnchecked": lambda: x + y, "SubUnchecked": lambda: x - y, "MulUnchecked": lambda: x * y,
              "BitAnd": lambda: x & y, "BitOr": lambda: x | y, "BitXor": lambda: x ^ y,
              "Shl": lambda: x << y, "ShlUnchecked": lambda: x << y,
              "Shr": lambda: (x >> y) if signed else z3.LShR(x, y),
              "ShrUnchecked": lambda: (x >> y) if signed else z3.LShR(x, y),
              "Div": lambda: (x / y) if signed else z3.UDiv(x, y),
              "Rem": lambda: z3.SRem(x, y) if signed else z3.URem(x, y)}
        if op in ar:
            return Sym(ar[op](), a.ty)
        if op in ("AddWithOverflow", "SubWithOverflow", "MulWithOverflow"):
            w = x.size()
            if op == "AddWithOverflow":
                r = x + y
                ov = z3.Not(z3.BVAddNoOverflow(x, y, signed)) if not signed else \
                    z3.Or(z3.Not(z3.BVAddNoOverflow(x, y, True)), z3.Not(z3.BVAddNoUnderflow(x, y)))
            elif op == "SubWithOverflow":
                r = x - y
                ov = z3.ULT(x, y) if not signed else \
                    z3.Or(z3.Not(z3.BVSubNoOverflow(x, y)), z3.Not(z3.BVSubNoUnderflow(x, y, True)))
            else:
                r = x * y
                # standard SMT-LIB only (z3's bvumul_noovfl is not understood by cvc5): multiply in double width
                if signed:
                    wide = z3.SignExt(w, x) * z3.SignExt(w, y)
                    ov = wide != z3.SignExt(w, r)
                else:
                    wide = z3.ZeroExt(w, x) * z3.ZeroExt(w, y)
                    ov = z3.Extract(2 * w - 1, w, wide) != z3.BitVecVal(0, w)
            o = Obj("(%s, bool)" % a.ty)
            o.fields[(None, 0)] = Sym(r, a.ty)
            o.fields[(None, 1)] = Sym(ov, "bool")
            return o
        if op == "Cmp":
            lt = (x < y) if signed else z3.ULT(x, y)
            d = z3.If(lt, z3.BitVecVal(-1, 64), z3.If(x == y, z3.BitVecVal(0, 64), z3.BitVecVal(1, 64)))
            o = Obj("std::cmp::Ordering")
            o.discr = Sym(d, "isize")
            return o
        raise Unsupported("binop " + op)

    # ---- running -------------------------------------------------------------------------------
    def push_frame(self, st, body, args, ret_dest, ret_block):
        MP.parse_body(body)
        f = Frame(st.next_frame, body, ret_dest, ret_block)
        st.next_frame += 1
        if len(args) != len(body.args):
            raise Unsupported("arity mismatch calling %s (%d vs %d)" % (body.name[:60], len(args), len(body.args)))
        for (loc, ty), a in zip(body.args, args):
            st.mem[self.local_cell(f, loc)] = a
        st.frames.append(f)
        return f

    def run(self, st):
        """Run `st` (with at least one frame) to completion of its *bottom* frame on all paths.
        Returns list of terminal states."""
        work = [st]
        done = []
        while work:
            s = work.pop()
            try:
                succ = self.step_path(s)
            except PathEnd:
                succ = []
                done.append(s)
            except Unsupported as e:
                # inside a callee that was executed only because it is outside the frame assumptions: go back to the
                # call and treat it as opaque WITH havoc of everything it can reach (sound, coarser)
                fb = None
                for f in s.frames:
                    if getattr(f, "fallback", None) is not None:
                        fb = f.fallback
                        break
                if fb is None:
                    raise
                self.stats.setdefault("auto_inline_fallbacks", {})
                k = str(e)[:100]
                self.stats["auto_inline_fallbacks"][k] = self.stats["auto_inline_fallbacks"].get(k, 0) + 1
                if getattr(fb, "fallback_used", False):
                    succ = []
                else:
                    fb.fallback_used = True
                    succ = [fb]
            for x in succ:
                if x.status == "running":
                    work.append(x)
                else:
                    done.append(x)
            if len(done) + len(work) > self.max_paths:
                raise Unsupported("path budget exceeded (%d)" % self.max_paths)
        self.stats["paths"] += len(done)
        return done

    def step_path(self, st):
        """Advance one path until it forks or terminates. Returns successor states."""
        while True:
            frame = st.frames[-1]
            blk = frame.body.blocks.get(frame.block)
            if blk is None:
                raise Unsupported("no block %s in %s" % (frame.block, frame.body.name[:60]))
            if getattr(frame, "resume_term", False):
                frame.resume_term = False
                res = self.exec_term(st, frame, blk.term)
                if res is not None:
                    return res
                continue
            n = frame.visits.get(frame.block, 0) + 1
            frame.visits[frame.block] = n
            if n > self.loop_bound:
                # unwinding assertion: this path must be infeasible, else the bound is too small
                if getattr(self, "unwind_assume", False):
                    # stated bound: deeper iterations are outside the claim (recorded in the obligation's bounds)
                    st.status = "infeasible"
                    return []
                if self.feasible(st):
                    self.unwind_hits.append((frame.body.name, frame.block))
                    st.status = "unwind"
                    return [st]
                st.status = "infeasible"
                return []
            for s in blk.stmts:
                self.exec_stmt(st, frame, s)
            res = self.exec_term(st, frame, blk.term)
            if res is not None:
                return res

    def exec_stmt(self, st, frame, s):
        if s.kind == "nop":
            return
        if s.kind == "assign":
            dty = self.place_ty(frame, s.place)
            v = self.rvalue(st, frame, s.rv, dty)
            cell, proj = self.resolve(st, frame, s.place)
            self.write_path(st, cell, proj, v)
            return
        if s.kind == "setdiscr":
            cell, proj = self.resolve(st, frame, s.place)
            v = self.read_path(st, cell, proj, self._cell_ty(frame, cell))
            if not isinstance(v, Obj):
                raise Unsupported("SetDiscriminant on %r" % (v,))
            v.discr = Sym(z3.BitVecVal(s.extra, 64), "isize")
            return
        if s.kind == "assume":
            c = self.operand(st, frame, s.rv.args[0])
            st.pc.append(c.t)
            return
        raise Unsupported("statement " + s.kind)

    def goto(self, st, frame, bb):
        frame.block = bb

    def do_return(self, st, frame, val):
        st.frames.pop()
        if frame.ret_wrap is not None:
            val = frame.ret_wrap(self, st, val)
        if not st.frames:
            st.result = val
            st.status = "returned"
            return [st]
        caller = st.frames[-1]
        if frame.ret_dest is not None:
            cell, proj = self.resolve(st, caller, frame.ret_dest)
            self.write_path(st, cell, proj, val)
        if frame.ret_block is None:
            st.status = "diverged"
            return [st]
        caller.block = frame.ret_block
        return None

    def exec_term(self, st, frame, t):
        k = t.kind
        if k == "goto":
            frame.block = t.targets["goto"]
            return None
        if k == "return":
            rv = st.mem.get(self.local_cell(frame, 0))
            if rv is None:
                rv = self.fresh(frame.body.ret_ty, st, "ret") if frame.body.ret_ty != "()" else UNIT
            return self.do_return(st, frame, rv)
        if k == "unreachable":
            st.status = "unreachable"
            return [st]
        if k == "resume":
            st.status = "panic"
            st.note = "resume"
            return [st]
        if k == "drop":
            body = self.drop_body(frame, t.args[0])
            if body is not None:
                # a type of this crate with `impl Drop`: run the destructor (guards that restore state on every exit path)
                cell, proj = self.resolve(st, frame, t.args[0])
                st.events.append(("drop", self.canon(body), None, None))
                self.push_frame(st, body, [Ref(cell, proj, True, "&mut ?")], None, t.targets["return"])
                return None
            frame.block = t.targets["return"]
            return None
        if k == "assert":
            c = self.operand(st, frame, t.args[0])
            neg, msg = t.extra
            ok = z3.Not(c.t) if neg else c.t
            out = []
            ok_s = z3.simplify(ok)
            if z3.is_true(ok_s):
                frame.block = t.targets["success"]
                return None
            if self.feasible(st, z3.Not(ok)):
                s2 = st.fork()
                s2.pc.append(z3.Not(ok))
                s2.status = "panic"
                s2.note = "assert failed: " + msg[:80]
                s2.events.append(("panic", msg[:80], None))
                out.append(s2)
            if self.feasible(st, ok):
                st.pc.append(ok)
                frame.block = t.targets["success"]
                if not out:
                    return None
                out.append(st)
            self.stats["forks"] += 1
            return out
        if k == "switch":
            v = self.operand(st, frame, t.args[0])
            if not isinstance(v, Sym):
                raise Unsupported("switch on %r" % (v,))
            term = v.t
            if z3.is_bool(term):
                term_bv = None
            cases = []
            others = []
            for key, bb in t.targets.items():
                if key == "otherwise":
                    continue
                val = int(key)
                if z3.is_bool(term):
                    cond = term if val != 0 else z3.Not(term)
                else:
                    cond = term == z3.BitVecVal(val, term.size())
                cases.append((cond, bb))
                others.append(z3.Not(cond))
            if "otherwise" in t.targets:
                cases.append((z3.And(others) if others else z3.BoolVal(True), t.targets["otherwise"]))
            feas = []
            for cond, bb in cases:
                cs = z3.simplify(cond)
                if z3.is_false(cs):
                    continue
                if z3.is_true(cs):
                    feas = [(None, bb)]
                    break
                if self.feasible(st, cond):
                    feas.append((cond, bb))
            if not feas:
                st.status = "infeasible"
                return []
            if len(feas) == 1:
                if feas[0][0] is not None:
                    st.pc.append(feas[0][0])
                frame.block = feas[0][1]
                return None
            out = []
            self.stats["forks"] += 1
            for i, (cond, bb) in enumerate(feas):
                s2 = st if i == len(feas) - 1 else st.fork()
                s2.pc.append(cond)
                s2.frames[-1].block = bb
                out.append(s2)
            return out
        if k == "call":
            return self.exec_call(st, frame, t)
        raise Unsupported("terminator " + k)

    def drop_body(self, frame, place):
        table = getattr(self, "drop_impls", None)
        if not table:
            return None
        ty = self.place_ty(frame, place)
        if ty in (None, "?"):
            return None
        bt = base_type(ty).split("::")[-1]
        return table.get(bt)

    def canon(self, body):
        io = getattr(body, "impl_of", None)
        if io is None:
            return body.name
        rest = body.name.rsplit(">::", 1)[1]
        return ("<%s as %s>::%s" % (io[0], io[1], rest)) if io[1] else "%s::%s" % (io[0], rest)

    def set_dest_and_goto(self, st, t, val):
        """helper for handlers that fork themselves: store the call result and continue after the call"""
        f = st.frames[-1]
        if t.dest is not None:
            cell, proj = self.resolve(st, f, t.dest)
            self.write_path(st, cell, proj, val)
        rb = t.targets.get("return")
        if rb is None:
            st.status = "panic"
            return
        f.block = rb

    # ---- calls ---------------------------------------------------------------------------------
    def find_body(self, func):
        """Resolve a callee path to a MIR body of this crate (exact, generics-insensitive)."""
        if func in self.bodies:
            return self.bodies[func]
        key = strip_generics(func)
        idx = getattr(self, "_body_index", None)
        if idx is None:
            idx = {}
            for name, b in self.bodies.items():
                idx.setdefault(strip_generics(name), []).append(b)
            self._body_index = idx
        c = idx.get(key)
        if c and len(c) == 1:
            return c[0]
        return None

    def exec_call(self, st, frame, t):
        func = t.func
        args = [self.operand(st, frame, a) for a in t.args]
        dest_ty = self.place_ty(frame, t.dest) if t.dest is not None else "()"
        ret_bb = t.targets.get("return")
        nf = norm_callee(func) if not re.match(r"^(move|copy) ", func) else func
        # 1. functions of this crate on the obligation's inline list (and constructor shims) are executed
        body = self.find_body(func)
        if body is not None and (self.inline(body) or ("<impl at" not in body.name and re.search(r"::[A-Z]\w*$", body.name))):
            self.stats["calls_inlined"][body.name] = self.stats["calls_inlined"].get(body.name, 0) + 1
            if ret_bb is None:
                raise Unsupported("inlining diverging call " + func[:60])
            self.push_frame(st, body, args, t.dest, ret_bb)
            return None
        # 2. summaries (std and modelled callees)
        for rx, handler in self.summaries:
            if rx.search(nf):
                self.stats["calls_summarised"][nf] = self.stats["calls_summarised"].get(nf, 0) + 1
                res = handler(self, st, frame, t, nf, args, dest_ty)
                return self.finish_call(st, frame, t, res, ret_bb)
        # 3. any other function of this crate: opaque. Futures become FutureV (decided at poll), plain calls return an
        #    arbitrary value of their type; both are logged as events.
        if body is not None:
            cname = self.canon(body)
            runners = getattr(self, "closure_runners", None)
            if runners and any(r.search(cname) for r in runners):
                # the callee only runs its closure argument (blocking-pool / in-place boundary): run the closure
                from . import summaries as _S
                rt0 = body.ret_ty
                if "{async fn body" in rt0 or "{async block" in rt0:
                    fut = FutureV(cname, [args[0]], None, "closure_future")
                    return self.finish_call(st, frame, t, [(fut, None)], ret_bb)
                st.events.append(("run_closure", cname, None, None))
                return self.finish_call(st, frame, t, _S.call_value(self, st, frame, args[0], [], t.dest, ret_bb), ret_bb)
            # frame assumptions: an opaque crate callee is assumed not to modify the state the obligation's claims talk
            # about.  That assumption is made per obligation for an explicit list of callees (frame_assumptions.json);
            # any other crate callee reaching this point (a new helper, a call that was not there) is executed instead.
            seen = getattr(self, "opaque_seen", None)
            if seen is not None:
                seen.add(cname)
            exp = getattr(self, "opaque_expected", None)
            forced = cname in getattr(st, "force_opaque", ())
            if exp is not None and cname not in exp and any(_reaches_memory(a) for a in args) and not forced:
                depth = sum(1 for f in st.frames if getattr(f, "auto", False))
                if depth >= 3 or ret_bb is None:
                    raise Unsupported("crate callee %s is not among this obligation's frame assumptions and cannot be inlined (depth %d)" % (cname[:80], depth))
                self.stats["calls_inlined"]["auto:" + cname] = self.stats["calls_inlined"].get("auto:" + cname, 0) + 1
                if not hasattr(self, "auto_inlined"):
                    self.auto_inlined = set()
                self.auto_inlined.add(body.name)
                snap = None
                if depth == 0:
                    snap = st.fork()
                    snap.frames[-1].resume_term = True
                    snap.force_opaque = set(getattr(st, "force_opaque", ())) | {cname}
                self.push_frame(st, body, args, t.dest, ret_bb)
                st.frames[-1].auto = True
                st.frames[-1].fallback = snap
                return None
            if forced:
                self.havoc_reachable(st, args)
                self.stats["calls_havoc"]["havoc-all:" + cname] = self.stats["calls_havoc"].get("havoc-all:" + cname, 0) + 1
            self.stats["calls_havoc"][cname] = self.stats["calls_havoc"].get(cname, 0) + 1
            rt = body.ret_ty
            if "{async fn body" in rt or "{async block" in rt or "dyn futures::Future" in rt or "dyn Future" in rt \
                    or "dyn std::future::Future" in rt:
                fut = FutureV(cname, args, None, "async_fn")
                return self.finish_call(st, frame, t, [(fut, None)], ret_bb)
            hook = getattr(self, "call_hook", None)
            if hook is not None:
                r = hook(self, st, cname, args, dest_ty)
                if r is not None:
                    return self.finish_call(st, frame, t, r, ret_bb)
            if ret_bb is None:
                st.events.append(("call", cname, args, None))
                st.status = "panic"
                st.note = "diverging call " + cname[:60]
                return [st]
            v = self.fresh(dest_ty, st, "hv") if dest_ty != "?" else Obj("?")
            st.events.append(("call", cname, args, v))
            return self.finish_call(st, frame, t, [(v, None)], ret_bb)
        # 4. havoc list (non-crate callees whose value no obligation inspects)
        if self.havoc(nf):
            self.stats["calls_havoc"][nf] = self.stats["calls_havoc"].get(nf, 0) + 1
            if "dyn Future" in dest_ty or "dyn futures::Future" in dest_ty or "impl Future" in dest_ty:
                fut = FutureV(nf, args, None, "havoc")
                return self.finish_call(st, frame, t, [(fut, None)], ret_bb)
            if ret_bb is None:
                st.status = "panic"
                st.note = "diverging call " + nf[:60]
                return [st]
            v = self.fresh(dest_ty, st, "hv") if dest_ty != "?" else Obj("?")
            st.events.append(("call", nf, args, v))
            return self.finish_call(st, frame, t, [(v, None)], ret_bb)
        raise Unsupported("call to %s" % nf[:160])

    def havoc_reachable(self, st, args, depth=0):
        """an opaque callee outside the frame assumptions that could not be executed: everything it may write through
        its arguments becomes arbitrary (targets of `&mut`, and atomics / lock payloads reachable through any reference)"""
        seen = set()

        def walk(v, mutable, d):
            if d > 6 or v is None:
                return
            if isinstance(v, Ref):
                key = (v.cell, tuple(map(str, v.proj)))
                if key in seen:
                    return
                seen.add(key)
                try:
                    tgt = self.read_path(st, v.cell, v.proj)
                except Unsupported:
                    return
                if v.mut or mutable:
                    ty = pointee(v.ty) if v.ty else "?"
                    fresh = self.fresh(ty, st, "hvm") if ty not in ("?", "") else Obj("?")
                    try:
                        self.write_path(st, v.cell, v.proj, fresh)
                    except Unsupported:
                        pass
                    return
                walk(tgt, False, d + 1)
            elif isinstance(v, Obj):
                for k in list(v.fields.keys()):
                    x = v.fields[k]
                    if k == (None, 7002) and isinstance(x, Sym):
                        v.fields[k] = self.fresh(x.ty, st, "hva")
                    elif k == (None, 7000):
                        ty = getattr(x, "ty", "?") or "?"
                        v.fields[k] = self.fresh(ty, st, "hvl") if isinstance(x, Obj) and ty not in ("?", "") else Obj("?")
                    else:
                        walk(x, mutable, d + 1)
            elif isinstance(v, VecV):
                for x in v.elems:
                    walk(x, mutable, d + 1)
        for a in args:
            walk(a, False, 0)

    def finish_call(self, st, frame, t, res, ret_bb):
        """res: list of (value, cond|None) alternatives, or the string 'panic', or None (handler did control flow)"""
        if res is None:
            return None
        if res == "panic":
            st.status = "panic"
            st.note = "panic in " + t.func[:60]
            st.events.append(("panic", t.func[:80], None))
            return [st]
        if res == "pushed":
            return None
        if isinstance(res, tuple) and res and res[0] == "states":
            outs = [x for x in res[1]]
            if len(outs) == 1 and outs[0] is st and st.status == "running":
                return None
            return outs
        out = []
        feas = []
        for val, cond in res:
            if cond is None or z3.is_true(z3.simplify(cond)):
                feas.append((val, None))
            elif z3.is_false(z3.simplify(cond)):
                continue
            elif self.feasible(st, cond):
                feas.append((val, cond))
        if not feas:
            st.status = "infeasible"
            return []
        for i, (val, cond) in enumerate(feas):
            s2 = st if i == len(feas) - 1 else st.fork()
            f2 = s2.frames[-1]
            if cond is not None:
                s2.pc.append(cond)
            if isinstance(val, tuple) and val and val[0] == "panic":
                s2.status = "panic"
                s2.note = val[1]
                s2.events.append(("panic", val[1], None))
                out.append(s2)
                continue
            if ret_bb is None:
                s2.status = "panic"
                s2.note = "diverging " + t.func[:60]
                out.append(s2)
                continue
            if isinstance(val, tuple) and val and val[0] == "event_then":
                s2.events.append(val[1])
                val = val[2]
            if isinstance(val, tuple) and val and val[0] == "write_then":
                self.write_path(s2, val[1].cell, val[1].proj, val[2])
                val = val[3]
            if isinstance(val, tuple) and val and val[0] == "write":
                wv = val[2] if i == len(feas) - 1 else copy.deepcopy(val[2])
                self.write_path(s2, val[1].cell, val[1].proj, wv)
                val = UNIT
            if t.dest is not None:
                v = val if i == len(feas) - 1 else copy.deepcopy(val)
                cell, proj = self.resolve(s2, f2, t.dest)
                self.write_path(s2, cell, proj, v)
            f2.block = ret_bb
            out.append(s2)
        if len(out) == 1 and out[0].status == "running":
            return None
        if len(out) > 1:
            self.stats["forks"] += 1
        return out
