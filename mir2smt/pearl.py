"""pearl-specific layer of Engine M: source scanners (enum variant numbering), models for the per-key header map,
shared helpers for obligations, obligation runner."""
import os, re, time, copy, subprocess, json
import z3
from . import mirparse as MP
from .symex import (Executor, State, Sym, Obj, VecV, Ref, FnItem, FutureV, UNIT, Unsupported, fresh_name,
                    base_type, generic_args, norm_callee, pointee)
from . import summaries as S
from . import iters as IT

BV64 = S.BV64


def scan_enums(src_root):
    """enum name -> {variant: discriminant} from the crate's sources (declaration order, explicit `= n` honoured)."""
    enums = {}
    for base, _, files in os.walk(src_root):
        for f in files:
            if not f.endswith(".rs"):
                continue
            txt = open(os.path.join(base, f)).read()
            txt = re.sub(r"//[^\n]*", "", txt)
            for m in re.finditer(r"\benum\s+(\w+)\s*(?:<[^{]*>)?\s*(?:where[^{]*)?\{", txt):
                name = m.group(1)
                i = m.end()
                depth = 1
                j = i
                while j < len(txt) and depth:
                    if txt[j] in "{(":
                        depth += 1
                    elif txt[j] in "})":
                        depth -= 1
                    j += 1
                body = txt[i:j - 1]
                variants = {}
                nxt = 0
                for part in MP.split_top(body):
                    part = re.sub(r"#\[[^\]]*\]", "", part).strip()
                    part = re.sub(r"^///.*$", "", part, flags=re.M).strip()
                    mm = re.match(r"^(\w+)", part)
                    if not mm:
                        continue
                    mv = re.search(r"=\s*(-?\d+)\s*$", part)
                    if mv:
                        nxt = int(mv.group(1))
                    variants[mm.group(1)] = nxt
                    nxt += 1
                if variants and name not in enums:
                    enums[name] = variants
    return enums


def scan_struct_fields(src_root):
    """struct name -> [field names] (declaration order) for named-field structs of the crate."""
    structs = {}
    for base, _, files in os.walk(src_root):
        for f in files:
            if not f.endswith(".rs"):
                continue
            txt = open(os.path.join(base, f)).read()
            txt = re.sub(r"//[^\n]*", "", txt)
            for m in re.finditer(r"\bstruct\s+(\w+)\s*(?:<[^{;(]*>)?\s*(?:where[^{;]*)?\{", txt):
                name = m.group(1)
                i = m.end()
                depth = 1
                j = i
                while j < len(txt) and depth:
                    if txt[j] == "{":
                        depth += 1
                    elif txt[j] == "}":
                        depth -= 1
                    j += 1
                body = txt[i:j - 1]
                fields = []
                for part in MP.split_top(body):
                    part = re.sub(r"#\[[^\]]*\]", "", part).strip()
                    mm = re.match(r"^(?:pub(?:\([^)]*\))?\s+)?(\w+)\s*:", part)
                    if mm:
                        fields.append(mm.group(1))
                structs.setdefault(name, fields)
    return structs


class Crate:
    """MIR bodies + source-derived tables for one scratch copy."""

    def __init__(self, mir_text, src_root):
        self.bodies = MP.parse_bodies(mir_text)
        self.consts = MP.parse_consts(mir_text)
        self.enums = scan_enums(os.path.join(src_root, "src"))
        self.structs = scan_struct_fields(os.path.join(src_root, "src"))
        self.src_root = src_root

    def build_impl_index(self):
        """(TypeName, TraitName|None, method) -> [bodies], from `<impl at file:line...>` + the source line."""
        idx = {}
        cache = {}
        for name, b in self.bodies.items():
            m = re.match(r"^(.*?)<impl at ([^:>]+):(\d+):(\d+): (\d+):(\d+)>::(.+)$", name)
            if not m:
                continue
            path, line, rest = m.group(2), int(m.group(3)), m.group(7)
            c1, c2 = int(m.group(4)), int(m.group(6))
            key = (path, line, c1)
            if key not in cache:
                try:
                    lines = open(os.path.join(self.src_root, path)).read().split("\n")
                except OSError:
                    cache[key] = None
                    continue
                first = lines[line - 1] if line - 1 < len(lines) else ""
                if first.lstrip().startswith("#[derive"):
                    trait = first[c1 - 1:c2 - 1].strip()
                    tyname = None
                    for l in lines[line: line + 8]:
                        mm2 = re.search(r"\b(?:struct|enum)\s+(\w+)", l)
                        if mm2:
                            tyname = mm2.group(1)
                            break
                    cache[key] = (tyname, trait, tyname) if tyname and re.fullmatch(r"\w+", trait or "") else None
                    if cache[key] is None:
                        continue
                    ty, tr, selfty = cache[key]
                    idx.setdefault((ty, tr, rest), []).append(b)
                    b.impl_of = (ty, tr)
                    b.impl_self = selfty
                    continue
                hdr_txt = ""
                for l in lines[line - 1: line + 12]:
                    hdr_txt += " " + l.strip()
                    if "{" in l:
                        break
                hdr_txt = hdr_txt.split("{")[0]
                hdr_txt = re.sub(r"\bwhere\b.*$", "", hdr_txt).strip()
                mm = re.match(r"^(?:unsafe\s+)?impl\b", hdr_txt)
                if not mm:
                    cache[key] = None
                    continue
                restt = hdr_txt[hdr_txt.index("impl") + 4:].strip()
                if restt.startswith("<"):
                    restt = restt[MP.match_close(restt, 0) + 1:].strip()
                trait = None
                pos = MP._top_level_find(restt, " for ")
                if pos is not None:
                    trait = restt[:pos].strip()
                    restt = restt[pos + 5:].strip()
                ty = base_type(restt).split("::")[-1]
                tr = base_type(trait).split("::")[-1] if trait else None
                cache[key] = (ty, tr, restt)
            if cache[key] is None:
                continue
            ty, tr, selfty = cache[key]
            idx.setdefault((ty, tr, rest), []).append(b)
            b.impl_of = (ty, tr)
            b.impl_self = selfty
        self.impl_index = idx

    def resolve_callee(self, func):
        """Find the crate body a MIR callee path refers to (None if not a function of this crate)."""
        if not hasattr(self, "impl_index"):
            self.build_impl_index()
        f = func.strip()
        from .symex import strip_generics
        if f.startswith("<"):
            j = MP.match_close(f, 0)
            inner, rest = f[1:j], strip_generics(f[j + 1:]).lstrip(":")
            pos = MP._top_level_find(inner, " as ")
            if pos is not None:
                ty = base_type(inner[:pos]).split("::")[-1]
                tr = base_type(inner[pos + 4:]).split("::")[-1]
                c = self.impl_index.get((ty, tr, rest))
                return c[0] if c and len(c) == 1 else None
            ty = base_type(inner).split("::")[-1]
            c = self.impl_index.get((ty, None, rest))
            return c[0] if c and len(c) == 1 else None
        m_impl = re.match(r"^(.*?)<impl ([^>]+)>::(\w+)$", f)
        if m_impl:
            # `module::<impl path::Type>::method` (inherent impl written in another module than the type)
            ty = base_type(m_impl.group(2)).split("::")[-1]
            c = self.impl_index.get((ty, None, m_impl.group(3)))
            if c and len(c) > 1:
                pre = m_impl.group(1).rstrip(":")
                c = [b for b in c if b.name.split("<impl at")[0].rstrip(":").endswith(pre)]
            if c and len(c) == 1:
                return c[0]
        g = strip_generics(f)
        if g in self.bodies:
            return self.bodies[g]
        parts = g.split("::")
        if len(parts) >= 2:
            ty, meth = parts[-2], parts[-1]
            c = self.impl_index.get((ty, None, meth))
            if c and len(c) == 1:
                return c[0]
            if c and len(c) > 1:
                # same type name, several impls: match the generic arguments of the self type
                m_t = re.search(r"(\w+)::<(.*)>::\w+$", f)
                if m_t:
                    want = [a.split("::")[-1] for a in MP.split_top(m_t.group(2))]
                    best = [b for b in c if [a.split("::")[-1] for a in generic_args(getattr(b, "impl_self", ""))] == want]
                    if len(best) == 1:
                        return best[0]
                mod = "::".join(parts[:-2])
                best = []
                for b in c:
                    pre = b.name.split("<impl at")[0].rstrip(":")
                    if mod and (mod.endswith(pre) or pre.endswith(mod)):
                        best.append(b)
                if len(best) == 1:
                    return best[0]
            # trait method called through the type path
            cands = [bs for (t2, tr, m2), bs in self.impl_index.items() if t2 == ty and m2 == meth]
            if len(cands) == 1 and len(cands[0]) == 1:
                return cands[0][0]
        # free function by suffix
        hits = [b for n, b in self.bodies.items() if n == g or n.endswith("::" + g)]
        if len(hits) == 1:
            return hits[0]
        return None

    def method(self, ty, name, trait=None):
        """body of `impl [trait for] ty { fn name }` located through the impl headers in the source"""
        if not hasattr(self, "impl_index"):
            self.build_impl_index()
        c = self.impl_index.get((ty, trait, name))
        if not c or len(c) != 1:
            raise Unsupported("method lookup %s::%s (trait %s): %d hits" % (ty, name, trait, len(c or [])))
        return c[0]

    def closure0(self, body):
        b = self.bodies.get(body.name + "::{closure#0}")
        if b is None:
            raise Unsupported("no {closure#0} for " + body.name[-60:])
        return b

    def field_index(self, struct, field):
        fs = self.structs.get(struct)
        if not fs or field not in fs:
            raise Unsupported("struct field %s.%s not found in source" % (struct, field))
        return fs.index(field)

    def find(self, pattern):
        """unique body whose name matches regex `pattern`"""
        rx = re.compile(pattern)
        hits = [b for n, b in self.bodies.items() if rx.search(n)]
        if len(hits) != 1:
            raise Unsupported("body lookup %r: %d hits" % (pattern, len(hits)))
        return hits[0]


# ---------------------------------------------------------------------------------------------
# RecordHeader model
# ---------------------------------------------------------------------------------------------
HEADER_TY = "record::record::Header"


def header_fields(crate):
    return {f: crate.field_index("Header", f) for f in
            ("magic_byte", "key", "meta_size", "data_size", "flags", "blob_offset", "timestamp",
             "data_checksum", "header_checksum")}


def mk_header(crate, name, ghost=True):
    """Symbolic RecordHeader with scalar fields materialised; ('ghost',0) = identity / append sequence number."""
    hf = record_header_fields(crate)
    o = Obj(HEADER_TY)
    o.fields[(None, hf["timestamp"])] = Sym(z3.BitVec(name + "_ts", 64), "u64")
    o.fields[(None, hf["flags"])] = Sym(z3.BitVec(name + "_flags", 8), "u8")
    o.fields[(None, hf["data_size"])] = Sym(z3.BitVec(name + "_dsz", 64), "u64")
    o.fields[(None, hf["blob_offset"])] = Sym(z3.BitVec(name + "_off", 64), "u64")
    o.fields[("ghost", 0)] = Sym(z3.BitVec(name + "_seq", 64), "u64")
    return o


def record_header_fields(crate):
    """record::record::Header is the struct named Header with a `timestamp` field (blob::header::Header has none)."""
    cache = getattr(crate, "_rhf", None)
    if cache:
        return cache
    # find in source: struct Header containing 'timestamp'
    p = os.path.join(crate.src_root, "src/record/record.rs")
    txt = re.sub(r"//[^\n]*", "", open(p).read())
    m = re.search(r"\bstruct\s+Header\s*\{(.*?)\n\}", txt, re.S)
    if not m:
        raise Unsupported("record header struct not found")
    fields = []
    for part in MP.split_top(m.group(1)):
        mm = re.match(r"^(?:pub(?:\([^)]*\))?\s+)?(\w+)\s*:", part.strip())
        if mm:
            fields.append(mm.group(1))
    crate._rhf = {f: i for i, f in enumerate(fields)}
    return crate._rhf


def hdr(crate, h, field):
    hf = record_header_fields(crate)
    if field == "seq":
        return h.fields[("ghost", 0)].t
    return h.fields[(None, hf[field])].t


def hdrl(crate, ex, st, h, field):
    """like hdr() but materialises the field lazily (memoised per object identity) when the header was not built by mk_header"""
    hf = record_header_fields(crate)
    if field == "seq":
        if ("ghost", 0) not in h.fields:
            return ex._get_field(st, h, "ghost", 0, "u64").t
        return h.fields[("ghost", 0)].t
    ty = {"flags": "u8", "data_checksum": "u32", "header_checksum": "u32"}.get(field, "u64")
    return ex._get_field(st, h, None, hf[field], ty).t


def mk_header_vec(crate, ex, st, name, cap):
    elems = [mk_header(crate, "%s%d" % (name, k)) for k in range(cap)]
    n = z3.BitVec(name + "_len", 64)
    st.pc.append(z3.ULE(n, BV64(cap)))
    return VecV(HEADER_TY, cap, Sym(n, "usize"), elems)


def sorted_inv(crate, v, strict_seq=True):
    """I(v): ascending by (timestamp, seq) on the live prefix."""
    cs = []
    for k in range(v.cap - 1):
        a, b = v.elems[k], v.elems[k + 1]
        le = z3.Or(z3.ULT(hdr(crate, a, "timestamp"), hdr(crate, b, "timestamp")),
                   z3.And(hdr(crate, a, "timestamp") == hdr(crate, b, "timestamp"),
                          z3.ULT(hdr(crate, a, "seq"), hdr(crate, b, "seq"))))
        cs.append(z3.Implies(z3.ULT(BV64(k + 1), v.len.t), le))
    return z3.And(cs) if cs else z3.BoolVal(True)


# ---------------------------------------------------------------------------------------------
# single-key model of InMemoryIndex<K> = BTreeMap<K, Vec<RecordHeader>>
#   the map object carries   ('m','present'): Sym bool,  ('m','val'): VecV,  ('m','others'): Sym usize (other keys)
# Keys are opaque; the obligation decides whether the queried key is "the" key (default: yes).
# ---------------------------------------------------------------------------------------------
def map_obj(ex, st, r):
    m = S.deref_val(ex, st, r)
    if not isinstance(m, Obj):
        raise Unsupported("map model: %r" % (m,))
    if ("m", "present") not in m.fields:
        m.fields[("m", "present")] = Sym(z3.Bool(fresh_name("map_present")), "bool")
        m.fields[("m", "others")] = Sym(z3.BitVec(fresh_name("map_others"), 64), "usize")
    return m


def map_val_ref(ex, st, r):
    rr = S.vec_ref_any(ex, st, r)
    return Ref(rr.cell, tuple(rr.proj) + (("field", "val", HEADER_TY + " vec"),), True, "&mut Vec<%s>" % HEADER_TY)


def _map_val(ex, st, m):
    if ("m", "val") not in m.fields:
        m.fields[("m", "val")] = ex.fresh("Vec<%s>" % HEADER_TY, st, "mapval")
    return m.fields[("m", "val")]


class MapRef(Ref):
    pass


def h_map_get_mut(ex, st, frame, t, nf, args, dty):
    m = map_obj(ex, st, args[0])
    st.events.append(("map_get", nf, None))
    rr = S.vec_ref_any(ex, st, args[0])
    _map_val(ex, st, m)
    ref = Ref(rr.cell, tuple(rr.proj) + (("downcast", "m"), ("field", "val", "Vec<%s>" % HEADER_TY)), True,
              "&mut Vec<%s>" % HEADER_TY)
    p = m.fields[("m", "present")].t
    return [(S.some(ref, dty), p), (S.none(dty), z3.Not(p))]


def h_map_contains_key(ex, st, frame, t, nf, args, dty):
    m = map_obj(ex, st, args[0])
    return [(m.fields[("m", "present")], None)]


def h_map_insert(ex, st, frame, t, nf, args, dty):
    m = map_obj(ex, st, args[0])
    old_p = m.fields[("m", "present")].t
    old_v = m.fields.get(("m", "val"))
    m.fields[("m", "present")] = Sym(z3.BoolVal(True), "bool")
    m.fields[("m", "val")] = args[2]
    st.events.append(("map_insert", nf, None))
    alts = [(S.none(dty), z3.Not(old_p))]
    if old_v is not None:
        alts.append((S.some(old_v, dty), old_p))
    else:
        alts.append((S.some(Obj("Vec"), dty), old_p))
    return alts


def h_map_len(ex, st, frame, t, nf, args, dty):
    m = map_obj(ex, st, args[0])
    p = m.fields[("m", "present")].t
    o = m.fields[("m", "others")].t
    st.pc.append(z3.ULT(o, BV64(1 << 40)))
    return [(Sym(o + z3.If(p, BV64(1), BV64(0)), "usize"), None)]


def _fall_through(ex, st, frame, t, nf, args, dty, me):
    """not a crate type after all: behave as if this summary did not exist (next matching summary, then the havoc list)"""
    for rx, h in ex.summaries:
        if h is me:
            continue
        if rx.search(nf):
            return h(ex, st, frame, t, nf, args, dty)
    if ex.havoc(nf):
        ex.stats["calls_havoc"][nf] = ex.stats["calls_havoc"].get(nf, 0) + 1
        v = ex.fresh(dty, st, "hv") if dty != "?" else Obj("?")
        st.events.append(("call", nf, args, v))
        return [(v, None)]
    raise Unsupported("call to %s" % nf[:160])


def h_ne_via_eq(ex, st, frame, t, nf, args, dty):
    """<T as PartialEq>::ne for a crate type: the provided method, i.e. the negation of the type's own (derived or
    hand-written) eq, which is executed."""
    eqname = t.func[:-2] + "eq" if t.func.endswith("ne") else None
    body = ex.find_body(eqname) if eqname else None
    if body is None:
        return _fall_through(ex, st, frame, t, nf, args, dty, h_ne_via_eq)
    ex.push_frame(st, body, args, t.dest, t.targets.get("return"))

    def w(ex_, st_, val):
        return Sym(z3.Not(val.t), "bool")
    st.frames[-1].ret_wrap = w
    return "pushed"


def h_ord_via_partial_cmp(ex, st, frame, t, nf, args, dty):
    """<T as PartialOrd>::{lt,le,gt,ge} for a crate type: provided methods over the type's own partial_cmp, which is run."""
    op = nf.rsplit("::", 1)[1]
    pname = t.func[:-len(op)] + "partial_cmp"
    body = ex.find_body(pname)
    if body is None:
        return _fall_through(ex, st, frame, t, nf, args, dty, h_ord_via_partial_cmp)
    ex.push_frame(st, body, args, t.dest, t.targets.get("return"))

    def w(ex_, st_, val, _op=op):
        some = ex_.get_discr(st_, val).t == BV64(1)
        o = ex_._get_field(st_, val, "Some", 0, "std::cmp::Ordering")
        d = ex_.get_discr(st_, o).t
        lt, eq, gt = d == BV64(-1), d == BV64(0), d == BV64(1)
        r = {"lt": lt, "le": z3.Or(lt, eq), "gt": gt, "ge": z3.Or(gt, eq)}[_op]
        return Sym(z3.And(some, r), "bool")
    st.frames[-1].ret_wrap = w
    return "pushed"


PEARL_SUMMARIES = [
    (r"^<([a-z_:]*::)?[A-Z]\w* as PartialOrd>::(lt|le|gt|ge)$", h_ord_via_partial_cmp),
    (r"^<(filter::FilterResult|FilterResult|[a-z_:]*::[A-Z]\w*) as PartialEq>::ne$", h_ne_via_eq),
    (r"^(std::collections::)?BTreeMap::get(_mut)?$", h_map_get_mut),
    (r"^(std::collections::)?BTreeMap::contains_key$", h_map_contains_key),
    (r"^(std::collections::)?BTreeMap::insert$", h_map_insert),
    (r"^(std::collections::)?BTreeMap::len$", h_map_len),
]

# callees that are replaced by "arbitrary value of their type + event" in every obligation (error construction,
# formatting, conversions whose values no obligation inspects)
DEFAULT_HAVOC = [
    r"^<.* as ToString>::to_string$", r"^<.* as ToOwned>::to_owned$", r"^<.* as From<.*>>::from$", r"^<.* as Into<.*>>::into$",
    r"^Arguments::", r"^core::fmt::", r"^std::fmt::", r"^log::__private_api::", r"^anyhow::", r"^<.* as anyhow::kind::\w+>::", r"^(anyhow::)?kind::\w+::",
    r"::with_context$", r"::context$", r"^<.* as Clone>::clone$", r"^<.* as Debug>::fmt$", r"^<.* as Display>::fmt$",
    r"^alloc::fmt::format$", r"^std::fmt::format$", r"^format$", r"^alloc::fmt::format::format_inner$",
    r"^<.* as traits::FilterTrait<K>>::add$", r"^<.* as FilterTrait<.*>>::add$",
    r"^error::Error::", r"^Error::",
    r"^(bytes::)?(BytesMut|Bytes)::", r"^bytes::", r"^bincode::", r"^<.* as (bytes::)?(BufMut|Buf)>::",
    r"^<(bytes::)?(BytesMut|Bytes) as .*>::", r"^(bincode::)?(serialize|serialize_into|serialized_size|deserialize)$",
    r"^<\[u8\] as (std::ops::)?Index(Mut)?<.*>>::index(_mut)?$", r"^core::slice::(<impl \[u8\]>::)?(copy_from_slice|split_at|split_at_mut|fill|to_vec)$",
    r"^std::time::", r"^SystemTime::", r"^(tokio::time::)?Instant::", r"^Duration::",
]


def canon_name(body):
    """`Type::method` / `<Type as Trait>::method` / free path"""
    io = getattr(body, "impl_of", None)
    if io is None:
        return body.name
    rest = body.name.rsplit(">::", 1)[1]
    return ("<%s as %s>::%s" % (io[0], io[1], rest)) if io[1] else "%s::%s" % (io[0], rest)


# Frame assumptions (see symex.exec_call step 3): per obligation "module.func", the crate callees that may stay opaque.
CURRENT_OB = None
_FRAME = None
ALL_EXECUTORS = []


def frame_assumptions():
    global _FRAME
    if _FRAME is None:
        import json
        fp = os.path.join(os.path.dirname(os.path.abspath(__file__)), "frame_assumptions.json")
        _FRAME = json.load(open(fp)) if os.path.exists(fp) and not os.environ.get("VERIF_RECORD_FRAME") else {}
    return _FRAME


def mk_executor(crate, cap=8, loop_bound=12, inline=None, extra_summaries=None, havoc=None, max_paths=4000):
    inline_rx = [re.compile(x) for x in (inline or [])]
    havoc_rx = [re.compile(x) for x in DEFAULT_HAVOC + (havoc or [])]
    ex = Executor(crate.bodies, enums=crate.enums, cap=cap, loop_bound=loop_bound,
                  inline=lambda body: any(r.search(canon_name(body)) or r.search(re.sub(r'(::\{closure#\d+\})+$', '', canon_name(body))) for r in inline_rx),
                  summaries=S.compile_summaries((extra_summaries or []) + PEARL_SUMMARIES + IT.ITER_SUMMARIES),
                  havoc=lambda name: any(r.search(name) for r in havoc_rx),
                  max_paths=max_paths)
    if os.environ.get("VERIF_TIER") == "thorough":
        # deeper bounds make single feasibility queries slower; an 'unknown' is inconclusive, so give them more time
        ex.timeout_ms = 180000
        ex.solver.set("timeout", ex.timeout_ms)
        ex.prove_timeout_ms = 900000
    ex.crate = crate
    if not hasattr(crate, "impl_index"):
        crate.build_impl_index()
    ex.drop_impls = {k[0]: v[0] for k, v in crate.impl_index.items() if k[1] == "Drop" and k[2] == "drop" and len(v) == 1}
    ex.named_consts = crate.consts
    ex.find_body = crate.resolve_callee
    ex.opaque_seen = set()
    fa = frame_assumptions()
    ex.opaque_expected = set(fa[CURRENT_OB]) if CURRENT_OB in fa else None
    ALL_EXECUTORS.append(ex)
    return ex


# ---------------------------------------------------------------------------------------------
# obligation results
# ---------------------------------------------------------------------------------------------
class ObResult:
    def __init__(self, name):
        self.name = name
        self.status = "holds"      # holds | violated | inconclusive | vacuous
        self.queries = 0
        self.solver_s = 0.0
        self.paths = 0
        self.detail = ""
        self.model = None
        self.covers = {}
        self.functions = []
        self.bounds = ""
        self.summaries = {}
        self.havoc = {}
        self.inlined = {}
        self.smt2 = []             # (label, smt2 text, expected) for cross-checking with external solvers


def prove(ex, res, st, claim, label):
    """claim must hold on path st: check pc ∧ ¬claim unsat."""
    conds = list(st.pc) + [z3.Not(claim)]
    r = ex.check(conds, timeout_ms=getattr(ex, "prove_timeout_ms", None))
    s = z3.Solver()
    s.add(*conds)
    res.smt2.append((label, s.to_smt2(), "unsat"))
    if r == z3.unsat:
        return True
    if r == z3.sat:
        res.smt2[-1] = (label, res.smt2[-1][1], "sat")
        ex.solver.push()
        for c in conds:
            ex.solver.add(c)
        ex.solver.check()
        res.model = ex.solver.model()
        ex.solver.pop()
        res.status = "violated"
        res.detail = "claim '%s' fails" % label
        return False
    res.status = "inconclusive"
    res.detail = "solver unknown on " + label
    return False


def cover(ex, res, st, cond, label):
    if res.covers.get(label):
        return
    r = ex.check(list(st.pc) + [cond])
    res.covers[label] = res.covers.get(label, False) or (r == z3.sat)


def finish(ex, res, needed_covers):
    res.queries = ex.queries
    res.solver_s = ex.solver_s
    res.summaries = dict(ex.stats["calls_summarised"])
    res.havoc = dict(ex.stats["calls_havoc"])
    res.inlined = dict(ex.stats["calls_inlined"])
    if ex.unwind_hits and res.status == "holds":
        res.status = "inconclusive"
        res.detail = "unwinding bound hit: %s" % (ex.unwind_hits[:3],)
    if res.status == "holds":
        missing = [c for c in needed_covers if not res.covers.get(c)]
        if missing:
            res.status = "vacuous"
            res.detail = "reachability witness missing: %s" % missing
    return res


# ---------------------------------------------------------------------------------------------
# driving coroutine bodies (`async fn` / async_trait blocks) directly
# ---------------------------------------------------------------------------------------------
def start_coroutine(ex, st, closure_body, captures):
    """closure_body: the `...::{closure#0}(_1: Pin<&mut {async ...}>, _2: &mut Context)` body.
    captures: list of values for the coroutine's upvar fields 0..n-1.  Pushes the first poll."""
    MP.parse_body(closure_body)
    cty = closure_body.args[0][1]
    m = re.match(r"^Pin<&mut (.*)>$", cty)
    co = Obj(m.group(1) if m else cty)
    co.discr = Sym(BV64(0), "isize")
    for i, c in enumerate(captures):
        co.fields[(None, i)] = c
    cc = st.new_cell(co)
    pin = Obj(cty)
    pin.fields[(None, 0)] = Ref(cc, (), True, "&mut " + co.ty)
    cx = Obj("&mut std::task::Context<'_>")
    ex.push_frame(st, closure_body, [pin, cx], None, None)
    return cc


def poll_payload(ex, st, poll_val):
    """for a returned Poll<T>: (is_ready term, payload or None)"""
    d = ex.get_discr(st, poll_val).t
    payload = poll_val.fields.get(("Ready", 0))
    return d == BV64(0), payload


def drive_async(ex, st, fn_body, args):
    """Call an `async fn` / async_trait method wrapper with args and poll the resulting future to completion
    (every callee future is Ready at its first poll unless ex.await_hook says otherwise).  Returns terminal states;
    state.result is the Poll value."""
    ex.push_frame(st, fn_body, args, None, None)
    outs0 = [o for o in ex.run(st) if o.status == "returned"]
    if len(outs0) != 1:
        raise Unsupported("async wrapper %s did not return a single future" % fn_body.name[-50:])
    s1 = outs0[0]
    s1.status = "running"
    futv = s1.result
    cell = s1.new_cell(futv)
    fut, where = S.find_future(ex, s1, Ref(cell, (), True, "&mut ?"))
    body = S.coroutine_body(ex, fut.ty, fut)
    if body is None:
        raise Unsupported("no coroutine body for " + fut.ty[:80])
    MP.parse_body(body)
    pin = Obj(body.args[0][1])
    pin.fields[(None, 0)] = where
    cx = Obj("&mut std::task::Context<'_>")
    ex.push_frame(s1, body, [pin, cx], None, None)
    return ex.run(s1)


def events_of(st, kinds=("await", "call")):
    return [e for e in st.events if e[0] in kinds]


def ev_names(st):
    return [e[1] for e in st.events if e[0] in ("await", "call")]


def result_of(ex, st):
    """(is_ok term, ok payload or None) of a returned Poll<Result<..>>"""
    ready, payload = poll_payload(ex, st, st.result)
    d = ex.get_discr(st, payload).t
    return ready, d == BV64(0), payload


def arc_payload(st, arc):
    """payload object of a modelled Arc (pseudo-field 7001), whether still by value or already behind its shared cell"""
    v = arc.fields[(None, 7001)]
    if isinstance(v, Ref):
        v = st.mem[v.cell]
    return v
