"""Obligations on src/blob/index/core.rs (IndexStruct): push_step, get_latest_mem, get_all_marker, dump_failure..."""
import re
import z3
from .symex import State, Sym, Obj, VecV, Ref, FnItem, UNIT, Unsupported
from . import pearl as P
from . import summaries as S
from .pearl import BV64, hdr

INLINE_INDEX = [r"^Header::(timestamp|is_deleted|data_size|blob_offset)$",
                r"^InMemoryData::(register_record_allocation|records_count)$"]


def index_struct_state(crate, ex, st, cap, vec=None, present=None):
    """Symbolic IndexStruct<FileIndex, K> in state InMemory with the single-key map model.
    Returns (ref to index, map obj, mem attrs obj, vec)."""
    fi = crate.field_index("IndexStruct", "inner")
    idx = Obj("blob::index::core::IndexStruct<FileIndex, K>")
    state = Obj("blob::index::core::State<FileIndex, K>")
    state.discr = Sym(BV64(crate.enums["State"]["InMemory"]), "isize")
    lock = Obj("std::sync::RwLock<blob::index::core::InMemoryData<K>>")
    data = Obj("blob::index::core::InMemoryData<K>")
    m = Obj("BTreeMap<K, Vec<Header>>")
    v = vec if vec is not None else P.mk_header_vec(crate, ex, st, "v", cap)
    m.fields[("m", "present")] = present if present is not None else Sym(z3.Bool("key_present"), "bool")
    m.fields[("m", "others")] = Sym(z3.BitVec("other_keys", 64), "usize")
    m.fields[("m", "val")] = v
    mem = Obj("MemoryAttrs<K>")
    mem.fields[(None, crate.field_index("MemoryAttrs", "records_count"))] = Sym(z3.BitVec("records_count", 64), "usize")
    mem.fields[(None, crate.field_index("MemoryAttrs", "records_allocated"))] = Sym(z3.BitVec("records_allocated", 64), "usize")
    data.fields[(None, crate.field_index("InMemoryData", "headers"))] = m
    data.fields[(None, crate.field_index("InMemoryData", "mem"))] = mem
    lock.fields[(None, 7000)] = data
    state.fields[("InMemory", 0)] = lock
    idx.fields[(None, fi)] = state
    c = st.new_cell(idx)
    return Ref(c, (), False, "&IndexStruct<FileIndex, K>"), m, mem, v


def push_step(crate, L=6):
    """C01: one step of IndexStruct::push from an arbitrary I-sorted per-key vector of length <= L."""
    res = P.ObResult("push_step[L<=%d]" % L)
    body = crate.method("IndexStruct", "push", "IndexTrait")
    res.functions = ["IndexStruct::<FileIndex,K>::push (generic MIR)", "push::{closure#0}", "push::{closure#1}",
                     "RecordHeader::timestamp", "InMemoryData::register_record_allocation"]
    res.bounds = "per-key vector length <= %d (capacity %d), loop bound %d" % (L, L + 1, L + 3)
    ex = P.mk_executor(crate, cap=L + 1, loop_bound=L + 3, inline=INLINE_INDEX)
    st = State()
    iref, m, mem, v = index_struct_state(crate, ex, st, L + 1)
    st.pc.append(z3.ULE(v.len.t, BV64(L)))
    st.pc.append(P.sorted_inv(crate, v))
    rc0 = mem.fields[(None, crate.field_index("MemoryAttrs", "records_count"))].t
    st.pc.append(z3.ULT(rc0, BV64(1 << 40)))
    st.pc.append(z3.ULT(mem.fields[(None, crate.field_index("MemoryAttrs", "records_allocated"))].t, BV64(1 << 40)))
    h = P.mk_header(crate, "h")
    for k in range(L + 1):
        st.pc.append(z3.Implies(z3.ULT(BV64(k), v.len.t), z3.ULT(hdr(crate, v.elems[k], "seq"), hdr(crate, h, "seq"))))
    old = [dict(ts=hdr(crate, e, "timestamp"), seq=hdr(crate, e, "seq")) for e in v.elems]
    n0 = v.len.t
    present0 = m.fields[("m", "present")].t
    key = Obj("K")
    kc = st.new_cell(key)
    ex.push_frame(st, body, [iref, Ref(kc, (), False, "&K"), h], None, None)
    outs = ex.run(st)
    res.paths = len(outs)
    for o in outs:
        if o.status in ("infeasible",):
            continue
        if o.status == "unwind":
            continue
        if o.status != "returned":
            # a panic / unreachable on a feasible path is a violation of "push succeeds on in-memory index"
            if not P.prove(ex, res, o, z3.BoolVal(False), "no panic (%s: %s)" % (o.status, o.note)):
                return P.finish(ex, res, [])
            continue
        # locate post-state
        idx = o.mem[iref.cell]
        state = idx.fields[(None, crate.field_index("IndexStruct", "inner"))]
        data = state.fields[("InMemory", 0)].fields[(None, 7000)]
        m2 = data.fields[(None, crate.field_index("InMemoryData", "headers"))]
        mem2 = data.fields[(None, crate.field_index("InMemoryData", "mem"))]
        v2 = m2.fields[("m", "val")]
        if not isinstance(v2, VecV):
            res.status = "inconclusive"; res.detail = "post-state vector missing"; return P.finish(ex, res, [])
        for k in range(v2.cap):
            if v2.elems[k] is None:
                v2.elems[k] = P.mk_header(crate, "junk%d" % k)
        rd = ex.get_discr(o, o.result).t
        if not P.prove(ex, res, o, rd == BV64(0), "returns Ok"):
            break
        if not P.prove(ex, res, o, m2.fields[("m", "present")].t, "key present afterwards"):
            break
        n2 = v2.len.t
        exp_len = z3.If(present0, n0 + 1, BV64(1))
        if not P.prove(ex, res, o, n2 == exp_len, "length +1"):
            break
        if not P.prove(ex, res, o, P.sorted_inv(crate, v2), "I(v') sorted by (timestamp, append order)"):
            break
        # v' = v with h inserted: position p of h, everything else in order
        hs = hdr(crate, h, "seq")
        p = BV64(v2.cap)
        for k in range(v2.cap - 1, -1, -1):
            p = z3.If(hdr(crate, v2.elems[k], "seq") == hs, BV64(k), p)
        cs = [z3.ULT(p, n2)]
        nold = z3.If(present0, n0, BV64(0))
        for k in range(v2.cap):
            e = v2.elems[k]
            inb = z3.ULT(BV64(k), n2)
            same_before = z3.And(hdr(crate, e, "seq") == old[k]["seq"], hdr(crate, e, "timestamp") == old[k]["ts"])
            cs.append(z3.Implies(z3.And(inb, z3.ULT(BV64(k), p)), same_before))
            cs.append(z3.Implies(z3.And(inb, BV64(k) == p),
                                 z3.And(hdr(crate, e, "timestamp") == hdr(crate, h, "timestamp"),
                                        hdr(crate, e, "flags") == hdr(crate, h, "flags"))))
            if k > 0:
                same_after = z3.And(hdr(crate, e, "seq") == old[k - 1]["seq"],
                                    hdr(crate, e, "timestamp") == old[k - 1]["ts"])
                cs.append(z3.Implies(z3.And(inb, z3.UGT(BV64(k), p)), same_after))
        if not P.prove(ex, res, o, z3.And(cs), "v' = v with h inserted once, others in order"):
            break
        rc2 = mem2.fields[(None, crate.field_index("MemoryAttrs", "records_count"))].t
        if not P.prove(ex, res, o, rc2 == rc0 + 1, "records_count + 1"):
            break
        P.cover(ex, res, o, z3.And(present0, z3.UGT(n0, BV64(4))), "binary-search arm (len > 4)")
        P.cover(ex, res, o, z3.And(present0, z3.ULE(n0, BV64(4)), z3.UGE(n0, BV64(2))), "sequential arm")
        P.cover(ex, res, o, z3.Not(present0), "first version of key")
        tie = z3.Or([z3.And(z3.ULT(BV64(k), n0), old[k]["ts"] == hdr(crate, h, "timestamp")) for k in range(L + 1)])
        P.cover(ex, res, o, z3.And(present0, z3.UGT(n0, BV64(4)), tie), "tie in binary-search arm")
        P.cover(ex, res, o, z3.And(present0, z3.ULT(p, n0)), "insert not at end")
    need = ["sequential arm", "first version of key", "insert not at end"]
    if L > 4:
        need += ["binary-search arm (len > 4)", "tie in binary-search arm"]
    return P.finish(ex, res, need)


def _post_vec(crate, o, iref):
    idx = o.mem[iref.cell]
    state = idx.fields[(None, crate.field_index("IndexStruct", "inner"))]
    data = state.fields[("InMemory", 0)].fields[(None, 7000)]
    m2 = data.fields[(None, crate.field_index("InMemoryData", "headers"))]
    return m2, data


def get_latest_mem(crate, L=6):
    """C01: IndexStruct::get_latest on an in-memory index: Found(last) / Deleted(ts(last)) / NotFound iff no vector."""
    res = P.ObResult("get_latest_mem[L<=%d]" % L)
    body = crate.closure0(crate.method("IndexStruct", "get_latest", "IndexTrait"))
    res.functions = ["<IndexStruct as IndexTrait>::get_latest::{closure#0} (async body)", "get_latest::{closure#0}::{closure#0}",
                     "RecordHeader::is_deleted", "RecordHeader::timestamp", "BlobRecordTimestamp::new"]
    res.bounds = "per-key vector length <= %d" % L
    ex = P.mk_executor(crate, cap=L, loop_bound=4, inline=INLINE_INDEX + [r"^BlobRecordTimestamp::new$"])
    st = State()
    iref, m, mem, v = index_struct_state(crate, ex, st, L)
    present0 = m.fields[("m", "present")].t
    n0 = v.len.t
    key = st.new_cell(Obj("K"))
    P.start_coroutine(ex, st, body, [iref, Ref(key, (), False, "&K")])
    outs = ex.run(st)
    res.paths = len(outs)
    RR = crate.enums["ReadResult"]
    for o in outs:
        if o.status in ("infeasible", "unwind"):
            continue
        if o.status != "returned":
            if not P.prove(ex, res, o, z3.BoolVal(False), "no panic (%s: %s)" % (o.status, o.note)):
                break
            continue
        ready, payload = P.poll_payload(ex, o, o.result)
        if not P.prove(ex, res, o, ready, "completes without suspension (in-memory)"):
            break
        rd = ex.get_discr(o, payload).t
        if not P.prove(ex, res, o, rd == BV64(0), "returns Ok"):
            break
        rr = payload.fields[("Ok", 0)]
        d = ex.get_discr(o, rr).t
        has = z3.And(present0, z3.UGT(n0, BV64(0)))
        last_ts, last_del, last_seq = None, None, None
        for k in range(L - 1, -1, -1):
            e = v.elems[k]
            c = n0 - 1 == BV64(k)
            ts, fl, sq = hdr(crate, e, "timestamp"), hdr(crate, e, "flags"), hdr(crate, e, "seq")
            last_ts = ts if last_ts is None else z3.If(c, ts, last_ts)
            last_del = (fl & 1 == 1) if last_del is None else z3.If(c, fl & 1 == 1, last_del)
            last_seq = sq if last_seq is None else z3.If(c, sq, last_seq)
        claims = [z3.Implies(z3.Not(has), d == BV64(RR["NotFound"])),
                  z3.Implies(z3.And(has, last_del), d == BV64(RR["Deleted"])),
                  z3.Implies(z3.And(has, z3.Not(last_del)), d == BV64(RR["Found"]))]
        if not P.prove(ex, res, o, z3.And(claims), "classification = f(last element)"):
            break
        if ("Found", 0) in rr.fields and isinstance(rr.fields[("Found", 0)], Obj) and ("ghost", 0) in rr.fields[("Found", 0)].fields:
            fh = rr.fields[("Found", 0)]
            if not P.prove(ex, res, o, z3.Implies(d == BV64(RR["Found"]),
                                                  z3.And(hdr(crate, fh, "seq") == last_seq, hdr(crate, fh, "timestamp") == last_ts)),
                           "Found carries the last header"):
                break
            P.cover(ex, res, o, z3.And(d == BV64(RR["Found"]), z3.UGT(n0, BV64(2))), "found, several versions")
        if ("Deleted", 0) in rr.fields:
            dt = rr.fields[("Deleted", 0)]
            tsf = dt.fields.get((None, 0)) if isinstance(dt, Obj) else dt
            if isinstance(tsf, Sym):
                if not P.prove(ex, res, o, z3.Implies(d == BV64(RR["Deleted"]), tsf.t == last_ts), "Deleted carries the marker's timestamp"):
                    break
                P.cover(ex, res, o, d == BV64(RR["Deleted"]), "deleted")
        P.cover(ex, res, o, d == BV64(RR["NotFound"]), "not found")
    return P.finish(ex, res, ["found, several versions", "deleted", "not found"])


INLINE_GET_ALL = INLINE_INDEX + [r"^<IndexStruct as IndexTrait>::get_all_with_deletion_marker(::\{closure#0\}.*)?$"]


def _expected_cut(crate, v, L):
    """reference: reverse(v) cut after the first marker.  Returns (len_term, [elem selector per output position])."""
    n = v.len.t
    dels = [hdr(crate, e, "flags") & 1 == 1 for e in v.elems]
    # output position j corresponds to input index n-1-j ; first marker position in output order
    first = BV64(L)  # L = none
    for j in range(L - 1, -1, -1):
        # is output j a marker?
        isdel = z3.BoolVal(False)
        for k in range(L):
            isdel = z3.If(n - 1 - BV64(j) == BV64(k), dels[k], isdel)
        first = z3.If(z3.And(z3.ULT(BV64(j), n), isdel), BV64(j), first)
    exp_len = z3.If(first == BV64(L), n, first + 1)
    return exp_len, first


def get_all_marker(crate, L=6, strip=False):
    """C02: get_all_with_deletion_marker (strip=False) / get_all (strip=True) on an in-memory index:
    result = newest-first list cut right after the first deletion marker (get_all: without that marker)."""
    fn = "get_all" if strip else "get_all_with_deletion_marker"
    res = P.ObResult("%s_mem[L<=%d]" % (fn, L))
    body = crate.closure0(crate.method("IndexStruct", fn, "IndexTrait"))
    res.functions = ["<IndexStruct as IndexTrait>::%s::{closure#0}" % fn, "get_all_with_deletion_marker::{closure#0} + closures",
                     "RecordHeader::is_deleted"]
    res.bounds = "per-key vector length <= %d" % L
    ex = P.mk_executor(crate, cap=L, loop_bound=4, inline=INLINE_GET_ALL)
    st = State()
    iref, m, mem, v = index_struct_state(crate, ex, st, L)
    present0 = m.fields[("m", "present")].t
    n0 = v.len.t
    olds = [(hdr(crate, e, "seq"), hdr(crate, e, "timestamp"), hdr(crate, e, "flags")) for e in v.elems]
    key = st.new_cell(Obj("K"))
    P.start_coroutine(ex, st, body, [iref, Ref(key, (), False, "&K")])
    outs = ex.run(st)
    res.paths = len(outs)
    exp_len, first = _expected_cut(crate, v, L)
    for o in outs:
        if o.status in ("infeasible", "unwind"):
            continue
        if o.status != "returned":
            if not P.prove(ex, res, o, z3.BoolVal(False), "no panic (%s: %s)" % (o.status, o.note)):
                break
            continue
        ready, payload = P.poll_payload(ex, o, o.result)
        if not P.prove(ex, res, o, ready, "completes without suspension (in-memory)"):
            break
        if not P.prove(ex, res, o, ex.get_discr(o, payload).t == BV64(0), "returns Ok"):
            break
        out = payload.fields[("Ok", 0)]
        if not isinstance(out, VecV):
            res.status = "inconclusive"; res.detail = "result is not a vector: %r" % (out,); break
        for k in range(out.cap):
            if out.elems[k] is None:
                out.elems[k] = P.mk_header(crate, "junk%d" % k)
        has_marker = first != BV64(L)
        want_len = exp_len
        if strip:
            want_len = z3.If(has_marker, exp_len - 1, exp_len)
        want_len = z3.If(present0, want_len, BV64(0))
        if not P.prove(ex, res, o, out.len.t == want_len, "length = cut after first marker%s" % (" minus marker" if strip else "")):
            break
        cs = []
        for j in range(min(L, out.cap)):
            e = out.elems[j]
            for k in range(L):
                cs.append(z3.Implies(z3.And(present0, z3.ULT(BV64(j), out.len.t), n0 - 1 - BV64(j) == BV64(k)),
                                     z3.And(hdr(crate, e, "seq") == olds[k][0], hdr(crate, e, "timestamp") == olds[k][1],
                                            hdr(crate, e, "flags") == olds[k][2])))
        if not P.prove(ex, res, o, z3.And(cs), "element j = j-th newest header"):
            break
        P.cover(ex, res, o, z3.And(present0, has_marker, z3.UGT(first, BV64(0)), z3.ULT(first + 1, n0)), "marker in the middle")
        P.cover(ex, res, o, z3.And(present0, z3.Not(has_marker), z3.UGE(n0, BV64(2))), "no marker")
        P.cover(ex, res, o, z3.Not(present0), "absent key")
        two = z3.Or([z3.And(z3.ULT(BV64(a), n0), z3.ULT(BV64(b), n0), olds[a][2] & 1 == 1, olds[b][2] & 1 == 1)
                     for a in range(L) for b in range(a + 1, L)]) if L > 1 else z3.BoolVal(False)
        P.cover(ex, res, o, z3.And(present0, two), "two markers")
    return P.finish(ex, res, ["marker in the middle", "no marker", "absent key", "two markers"])


def get_all_mem(crate, L=6):
    return get_all_marker(crate, L=L, strip=True)


def _default_hook(crate):
    def hook(ex, st, like, ty):
        t = getattr(like, "ty", ty) or ty
        if "InMemoryData" in t:
            data = Obj(t)
            m = Obj("BTreeMap<K, Vec<Header>>")
            m.fields[("m", "present")] = Sym(z3.BoolVal(False), "bool")
            m.fields[("m", "others")] = Sym(BV64(0), "usize")
            m.fields[("m", "val")] = VecV(P.HEADER_TY, ex.cap, Sym(BV64(0), "usize"))
            mem = Obj("MemoryAttrs<K>")
            mem.fields[(None, crate.field_index("MemoryAttrs", "records_count"))] = Sym(BV64(0), "usize")
            mem.fields[(None, crate.field_index("MemoryAttrs", "records_allocated"))] = Sym(BV64(0), "usize")
            data.fields[(None, crate.field_index("InMemoryData", "headers"))] = m
            data.fields[(None, crate.field_index("InMemoryData", "mem"))] = mem
            return data
        return None
    return hook


def dump_failure_keeps_headers(crate, L=3):
    """C11: IndexStruct::dump_in_memory: if building the index file fails, the in-memory headers (the only copy of the
    index) are still in place afterwards; on success the index is OnDisk."""
    res = P.ObResult("dump_failure_keeps_headers")
    res.finding_key = "dump_in_memory-loses-headers-on-error"
    fn = crate.method("IndexStruct", "dump_in_memory")
    res.functions = ["IndexStruct::dump_in_memory (async body)"]
    res.bounds = "per-key vector length <= %d, every outcome of serialize_filters / from_records" % L
    ex = P.mk_executor(crate, cap=L, loop_bound=4, inline=INLINE_INDEX,
                       havoc=[r"^<FileIndex as .*FileIndexTrait<K>>::"])
    ex.default_hook = _default_hook(crate)
    st = State()
    iref, m, mem, v = index_struct_state(crate, ex, st, L)
    present0 = m.fields[("m", "present")].t
    others0 = m.fields[("m", "others")].t
    n0 = v.len.t
    olds = [(hdr(crate, e, "seq"), hdr(crate, e, "timestamp")) for e in v.elems]
    st.pc.append(z3.Implies(present0, z3.UGT(n0, BV64(0))))
    iref_mut = Ref(iref.cell, (), True, "&mut IndexStruct<FileIndex, K>")
    outs = P.drive_async(ex, st, fn, [iref_mut, Sym(z3.BitVec("blob_size", 64), "u64")])
    res.paths = len(outs)
    ST = crate.enums["State"]
    for o in outs:
        if o.status in ("infeasible", "unwind"):
            continue
        if o.status != "returned":
            if not P.prove(ex, res, o, z3.BoolVal(False), "no panic (%s: %s)" % (o.status, o.note)):
                break
            continue
        ready, isok, payload = P.result_of(ex, o)
        idx_o = o.mem[iref.cell]
        state = idx_o.fields[(None, crate.field_index("IndexStruct", "inner"))]
        sd = ex.get_discr(o, state).t
        nonempty = z3.Or(present0, others0 != BV64(0))
        if not P.prove(ex, res, o, z3.Implies(z3.And(isok, nonempty), sd == BV64(ST["OnDisk"])), "Ok on a non-empty index => index is on disk"):
            break
        if ("InMemory", 0) in state.fields:
            data = state.fields[("InMemory", 0)].fields.get((None, 7000))
            m2 = data.fields.get((None, crate.field_index("InMemoryData", "headers"))) if data is not None else None
            if m2 is None or ("m", "present") not in m2.fields:
                res.status = "violated"; res.detail = "in-memory map missing after the call"; break
            p2 = m2.fields[("m", "present")].t
            v2 = m2.fields[("m", "val")]
            keep = [p2 == present0]
            if isinstance(v2, VecV):
                keep.append(z3.Implies(present0, v2.len.t == n0))
                for k in range(min(L, v2.cap)):
                    e = v2.elems[k]
                    if e is None:
                        keep.append(z3.Not(z3.And(present0, z3.ULT(BV64(k), n0))))
                        continue
                    keep.append(z3.Implies(z3.And(present0, z3.ULT(BV64(k), n0)),
                                           z3.And(hdr(crate, e, "seq") == olds[k][0], hdr(crate, e, "timestamp") == olds[k][1])))
            if not P.prove(ex, res, o, z3.Implies(z3.And(z3.Not(isok), sd == BV64(ST["InMemory"])), z3.And(keep)),
                           "Err => in-memory headers unchanged"):
                res.replay = {"kind": "native", "test": "c11_failed_index_dump_keeps_records_readable"}
                break
        if not P.prove(ex, res, o, z3.Implies(z3.Not(isok), sd == BV64(ST["InMemory"])), "Err => index still in memory"):
            break
        P.cover(ex, res, o, z3.And(z3.Not(isok), present0), "dump failed with headers present")
        P.cover(ex, res, o, z3.And(isok, present0), "dump succeeded")
        P.cover(ex, res, o, z3.And(isok, z3.Not(nonempty)), "empty index: nothing dumped")
    return P.finish(ex, res, ["dump failed with headers present", "dump succeeded", "empty index: nothing dumped"])


def filter_offsets_agree(crate):
    """C10: the bloom buffer position recorded for on-file probing is where the bloom bytes really are:
    serialize_filters returns 8 + len(range bytes) and lays the section out as [range_len u64 | range | bloom];
    deserialize_filters hands Bloom::from_raw exactly the bytes from 8 + range_len on and returns that same offset.
    (read_byte adds this offset to the index inside the bloom image.)"""
    from .ob_record import BYTES_SUMMARIES, mk_buf, _buf
    res = P.ObResult("filter_offsets_agree")
    de = crate.method("IndexStruct", "deserialize_filters")
    se = crate.method("IndexStruct", "serialize_filters")
    res.functions = ["IndexStruct::deserialize_filters", "IndexStruct::serialize_filters"]
    res.bounds = "arbitrary section length / range length (< 2^32), every outcome of the decoders"

    def h_split_at(ex_, st_, frame, t, nf, args, dty):
        b = S.deref_val(ex_, st_, args[0])
        if not (isinstance(b, Obj) and ("g", "len") in b.fields):
            raise Unsupported("split_at on an unmodelled slice")
        at = args[1].t
        ln, off = b.fields[("g", "len")].t, b.fields[("g", "off")].t
        a, c = mk_buf(at, off), mk_buf(ln - at, off + at)
        tup = Obj(dty)
        tup.fields[(None, 0)] = Ref(st_.new_cell(a), (), False, "&[u8]")
        tup.fields[(None, 1)] = Ref(st_.new_cell(c), (), False, "&[u8]")
        inb = z3.ULE(at, ln)
        return [(tup, inb), (("panic", "split_at out of bounds"), z3.Not(inb))]

    def h_slice_len(ex_, st_, frame, t, nf, args, dty):
        b = S.deref_val(ex_, st_, args[0])
        if isinstance(b, Obj) and ("g", "len") in b.fields:
            return [(b.fields[("g", "len")], None)]
        return S.h_vec_len(ex_, st_, frame, t, nf, args, dty)

    extra = [(r"^core::slice::(<impl[^>]*>::)?split_at$", h_split_at), (r"^core::slice::(<impl[^>]*>::)?len$", h_slice_len)] + BYTES_SUMMARIES
    # ---- decoder
    ex = P.mk_executor(crate, cap=2, loop_bound=4, inline=[], extra_summaries=extra)
    range_size = z3.BitVec("range_size", 64)

    def de_ser(ex_, st_, frame, t, nf, args, dty):
        r = S.ok(Sym(range_size, "usize"), dty)
        okv = z3.Bool("range_size_parses")
        r.discr = Sym(z3.If(okv, BV64(0), BV64(1)), "isize")
        st_.events.append(("call", "bincode::deserialize", [S.deref_val(ex_, st_, args[0])], r))
        return [(r, None)]
    ex.summaries.insert(0, (re.compile(r"^bincode::deserialize$"), de_ser))
    st = State()
    total = z3.BitVec("section_len", 64)
    st.pc.append(z3.And(z3.ULT(total, BV64(1 << 32)), z3.ULT(range_size, BV64(1 << 32))))
    buf = mk_buf(total, BV64(0))
    bc = st.new_cell(buf)
    ex.push_frame(st, de, [Ref(bc, (), False, "&[u8]")], None, None)
    outs = ex.run(st)
    res.paths = len(outs)
    ok_all = True
    for o in outs:
        if o.status in ("infeasible", "unwind"):
            continue
        if o.status == "panic":
            # split_at panics on a too-short section: the caller (from_file) would have failed validation earlier; record only
            P.cover(ex, res, o, z3.BoolVal(True), "section too short (panic in split_at)")
            continue
        if o.status != "returned":
            continue
        isok = ex.get_discr(o, o.result).t == BV64(0)
        evs = [e for e in o.events if e[0] == "call"]
        blooms = [e for e in evs if "Bloom::from_raw" in e[1]]
        if not blooms:
            if not P.prove(ex, res, o, z3.Not(isok), "Ok => the bloom image was decoded"):
                ok_all = False
                break
            continue
        bb = S.deref_val(ex, o, blooms[0][2][0])
        if not (isinstance(bb, Obj) and ("g", "off") in bb.fields):
            res.status = "violated"; res.detail = "bloom decoder is not given a sub-slice of the section"; ok_all = False; break
        boff, blen = bb.fields[("g", "off")].t, bb.fields[("g", "len")].t
        if not P.prove(ex, res, o, z3.And(boff == BV64(8) + range_size, boff + blen == total), "bloom image = section[8 + range_len ..]"):
            ok_all = False
            break
        tup = o.result.fields.get(("Ok", 0))
        if tup is not None:
            ret_off = ex._get_field(o, tup, None, 2, "usize")
            if not P.prove(ex, res, o, z3.Implies(isok, ret_off.t == boff), "returned bloom offset = where the bloom image starts"):
                ok_all = False
                break
            P.cover(ex, res, o, z3.And(isok, z3.UGT(range_size, BV64(0))), "decoded, non-empty range part")
    if ok_all and res.status == "holds":
        # ---- encoder
        ex2 = P.mk_executor(crate, cap=2, loop_bound=4, inline=[], extra_summaries=extra)
        rl, bl = z3.BitVec("range_raw_len", 64), z3.BitVec("bloom_raw_len", 64)

        def call_hook(ex_, st_, cname, args, dty):
            if cname in ("RangeFilter::to_raw", "Bloom::to_raw"):
                n = rl if cname.startswith("Range") else bl
                v = VecV("u8", 1, Sym(n, "usize"), [None])
                v.tagname = cname
                r = S.ok(v, dty)
                r.discr = Sym(z3.If(z3.Bool(cname + "_ok"), BV64(0), BV64(1)), "isize")
                st_.events.append(("call", cname, args, r))
                return [(r, None)]
            return None
        ex2.call_hook = call_hook
        appended = []

        def h_ext(ex_, st_, frame, t, nf, args, dty):
            src = S.deref_val(ex_, st_, args[1])
            st_.events.append(("append", getattr(src, "tagname", "other"), [src.len.t if isinstance(src, VecV) else None], None))
            return [(UNIT, None)]

        def h_ser(ex_, st_, frame, t, nf, args, dty):
            v = VecV("u8", 1, Sym(BV64(8), "usize"), [None])
            v.tagname = "range_len_prefix"
            a = S.deref_val(ex_, st_, args[0])
            st_.events.append(("call", "bincode::serialize", [a], None))
            return [(S.ok(v, dty), None)]
        ex2.summaries.insert(0, (re.compile(r"^Vec::extend_from_slice$"), h_ext))
        ex2.summaries.insert(0, (re.compile(r"^bincode::serialize$"), h_ser))
        st2 = State()
        st2.pc.append(z3.And(z3.ULT(rl, BV64(1 << 32)), z3.ULT(bl, BV64(1 << 32))))
        idxo = Obj("blob::index::core::IndexStruct<FileIndex, K>")
        ic = st2.new_cell(idxo)
        ex2.push_frame(st2, se, [Ref(ic, (), False, "&IndexStruct<FileIndex, K>")], None, None)
        for o in ex2.run(st2):
            if o.status != "returned":
                if o.status not in ("infeasible", "unwind") and not P.prove(ex2, res, o, z3.BoolVal(False), "no panic in serialize_filters (%s)" % o.note):
                    break
                continue
            isok = ex2.get_discr(o, o.result).t == BV64(0)
            apps = [e[1] for e in o.events if e[0] == "append"]
            if not P.prove(ex2, res, o, z3.Implies(isok, z3.BoolVal(apps == ["range_len_prefix", "RangeFilter::to_raw", "Bloom::to_raw"])),
                           "section = [range_len | range | bloom] in this order"):
                break
            sers = [e for e in o.events if e[0] == "call" and e[1] == "bincode::serialize"]
            if sers and isinstance(sers[0][2][0], Sym):
                if not P.prove(ex2, res, o, z3.Implies(isok, sers[0][2][0].t == rl), "length prefix = length of the range bytes"):
                    break
            tup = o.result.fields.get(("Ok", 0))
            if tup is not None:
                off = ex2._get_field(o, tup, None, 1, "usize")
                if not P.prove(ex2, res, o, z3.Implies(isok, off.t == BV64(8) + rl), "returned bloom offset = 8 + len(range bytes)"):
                    break
                P.cover(ex2, res, o, isok, "encoded")
        res.paths += 1
        ex.queries += ex2.queries
        ex.solver_s += ex2.solver_s
        for k in ("calls_summarised", "calls_havoc", "calls_inlined"):
            ex.stats[k].update(ex2.stats[k])
    return P.finish(ex, res, ["decoded, non-empty range part", "encoded"])


def index_load_cancel_safe(crate):
    """C14/C04: IndexStruct::load (reached from Blob::load_index: delete into a closed blob, restore of the active blob):
    at every suspension point inside the load the index is either still OnDisk (a dropped future changed nothing) or
    already InMemory holding the map that was read from the file - never an empty in-memory placeholder, which a dropped
    future would leave behind (every key of the blob NotFound until restart)."""
    return load_in_memory_count(crate, which="load")


def load_in_memory_count(crate, which="load_in_memory"):
    """C15: IndexStruct::load_in_memory (with InMemoryData::new): after a successful load the in-memory record count is
    the count reported by FileIndex::get_records_headers (= records_count of the index file header = number of record
    headers stored), and the loaded map is the one installed; a failed load leaves the index on disk."""
    res = P.ObResult("load_in_memory_count" if which == "load_in_memory" else "index_load_cancel_safe")
    fn = crate.method("IndexStruct", which) if which == "load_in_memory" else crate.method("IndexStruct", "load", trait="IndexTrait")
    res.functions = ["IndexStruct::%s (async body)" % which, "InMemoryData::new"] + (["IndexStruct::load_in_memory (async body)"] if which == "load" else [])
    res.bounds = "one load, arbitrary count (< 2^40) and map (single-key model: queried key present or not, arbitrary number of other keys), every outcome of the callees"
    from . import iters as IT

    def h_values_fold(ex_, st_, frame, t, nf, args, dty):
        v = args[0]
        if isinstance(v, Obj) and "btree_map::Values" in (v.ty or ""):
            # capacity bookkeeping over all per-key vectors: an arbitrary usize (records_allocated is not part of the claim)
            return [(ex_.fresh(dty, st_, "alloc"), None)]
        return IT.h_fold(ex_, st_, frame, t, nf, args, dty)
    ex = P.mk_executor(crate, cap=3, loop_bound=4, inline=[r"^InMemoryData::new$", r"^IndexStruct::(load_in_memory|on_disk)$"] if which == "load" else [r"^InMemoryData::new$"],
                       extra_summaries=[(r"(^|::)fold$", h_values_fold)],
                       havoc=[r"^<FileIndex as (\S*::)?FileIndexTrait<K>>::", r"^(std::collections::)?BTreeMap::values$", r"^(std::collections::btree_map::)?Values<.*>::fold$", r"^<.*Values<.*> as Iterator>::fold$"])
    st = State()
    fi = crate.field_index("IndexStruct", "inner")
    idx = Obj("blob::index::core::IndexStruct<FileIndex, K>")
    state = Obj("blob::index::core::State<FileIndex, K>")
    state.discr = Sym(BV64(crate.enums["State"]["OnDisk"]), "isize")
    idx.fields[(None, fi)] = state
    ic = st.new_cell(idx)
    count = z3.BitVec("file_records_count", 64)
    st.pc.append(z3.ULT(count, BV64(1 << 40)))
    the_map = {}

    def probe(ex_, st_, name):
        """state of the index at a suspension point"""
        inner = st_.mem[ic].fields[(None, fi)]
        d = ex_.get_discr(st_, inner).t
        mp_ok = None
        lock = inner.fields.get(("InMemory", 0)) if isinstance(inner, Obj) else None
        data = lock.fields.get((None, 7000)) if isinstance(lock, Obj) else None
        if isinstance(data, Obj):
            mp = data.fields.get((None, crate.field_index("InMemoryData", "headers")))
            mp_ok = isinstance(mp, Obj) and mp.oid == the_map.get("oid")
        st_.events.append(("suspend", name, d, mp_ok))

    def hook(ex_, st_, name, fargs, out_ty, dty):
        if which == "load" and ("get_records_headers" in name or name.endswith("read_meta")):
            probe(ex_, st_, name)
        if "get_records_headers" in name:
            r = ex_.fresh(out_ty, st_, "loaded")
            tup = r.fields[("Ok", 0)]
            m = Obj("BTreeMap<K, Vec<Header>>")
            m.fields[("m", "present")] = Sym(z3.Bool("key_present"), "bool")
            m.fields[("m", "others")] = Sym(z3.BitVec("other_keys", 64), "usize")
            m.fields[("ghost", "id")] = Sym(BV64(4242), "u64")
            tup.fields[(None, 0)] = m
            tup.fields[(None, 1)] = Sym(count, "usize")
            the_map["oid"] = m.oid
            st_.events.append(("await", name, fargs, r))
            return [(S.poll_ready(dty, r), None)]
        return S.tag_reads_hook(ex_, st_, name, fargs, out_ty, dty)      # read_meta: tagged raw error (classification check)
    ex.await_hook = hook
    if which == "load":
        state.fields[("OnDisk", 0)] = Obj("FileIndex")
        outs = P.drive_async(ex, st, fn, [Ref(ic, (), True, "&mut IndexStruct<FileIndex, K>"), Sym(z3.BitVec("blob_size", 64), "u64")])
    else:
        outs = P.drive_async(ex, st, fn, [Ref(ic, (), True, "&mut IndexStruct<FileIndex, K>"), Obj("FileIndex"), Sym(z3.BitVec("blob_size", 64), "u64")])
    res.paths = len(outs)
    ST = crate.enums["State"]
    if which == "load":
        from .ob_blob import _check_paths as _cp

        def per_path_load(o, isok, payload):
            sus = [e for e in o.events if e[0] == "suspend"]
            if not sus:
                res.status = "violated"; res.detail = "an on-disk index is reported loaded without reading the file"; return False
            for e in sus:
                on_disk = e[2] == BV64(ST["OnDisk"])
                if e[3] is True:
                    P.cover(ex, res, o, z3.Not(on_disk), "suspended with the loaded map installed")
                    continue
                if not P.prove(ex, res, o, on_disk, "at the suspension point '%s' the index is still on disk or already holds the loaded map (a dropped future loses nothing)" % e[1].rsplit("::", 1)[-1]):
                    return False
                P.cover(ex, res, o, on_disk, "suspended while still on disk")
            return True
        _cp(ex, res, outs, per_path_load)
        return P.finish(ex, res, ["suspended while still on disk", "suspended with the loaded map installed"])

    def per_path(o, isok, payload):
        evs = P.events_of(o)
        loads = [e for e in evs if e[0] == "await" and "get_records_headers" in e[1]]
        inner = o.mem[ic].fields[(None, fi)]
        d = ex.get_discr(o, inner).t
        if not loads:
            return P.prove(ex, res, o, z3.Not(isok), "Ok => the headers were read from the index file")
        lok = _ok(ex, o, loads[0][3])
        if not P.prove(ex, res, o, z3.Implies(isok, lok), "Ok => get_records_headers succeeded"):
            return False
        if not P.prove(ex, res, o, z3.Implies(z3.Not(lok), z3.And(z3.Not(isok), d == BV64(ST["OnDisk"]))), "failed read: Err, index stays on disk"):
            return False
        lock = inner.fields.get(("InMemory", 0))
        if lock is None:
            return P.prove(ex, res, o, z3.Not(isok), "Ok => index is in memory")
        data = lock.fields.get((None, 7000)) if isinstance(lock, Obj) else None
        if data is None:
            res.status = "inconclusive"; res.detail = "lock payload not modelled"; return False
        mem = data.fields[(None, crate.field_index("InMemoryData", "mem"))]
        rc = ex._get_field(o, mem, None, crate.field_index("MemoryAttrs", "records_count"), "usize").t
        mp = data.fields[(None, crate.field_index("InMemoryData", "headers"))]
        if not P.prove(ex, res, o, z3.Implies(isok, z3.And(d == BV64(ST["InMemory"]), rc == count)),
                       "Ok => in memory with records_count = count stored in the index file"):
            return False
        if not P.prove(ex, res, o, z3.BoolVal(isinstance(mp, Obj) and mp.oid == the_map.get("oid")), "the installed map is the loaded one"):
            return False
        # the filters are re-read from the index file (a reloaded index must not keep an off-loaded / stale filter: its next dump
        # serialises the filter it holds)
        metas = [e for e in o.events if e[0] == "await" and e[1].endswith("read_meta")]
        if not P.prove(ex, res, o, z3.Implies(isok, z3.BoolVal(len(metas) >= 1)),
                       "Ok => the filter bytes were read back from the index file (read_meta)"):
            return False
        P.cover(ex, res, o, z3.And(isok, z3.UGT(count, BV64(2))), "loaded")
        P.cover(ex, res, o, z3.And(z3.Not(isok), lok), "filters unreadable after the headers were loaded")
        return True

    from .ob_blob import _check_paths
    _check_paths(ex, res, outs, per_path)
    return P.finish(ex, res, ["loaded", "filters unreadable after the headers were loaded"])


def _ok(ex, st, r):
    return ex.get_discr(st, r).t == BV64(0)
