"""Obligation on the storage-level filter check (Storage::check_filters) — C10."""
import re, itertools
import z3
from .symex import State, Sym, Obj, VecV, Ref, FutureV, Unsupported, fresh_name
from . import pearl as P
from . import summaries as S
from . import iters as IT
from .pearl import BV64


def storage_check_filters(crate, B=2):
    """C10: Storage::check_filters never gives a false negative at storage level: it answers Some(false) only if the active
    blob (when there is one) answered NotContains, every closed blob with an in-memory filter answered NotContains to the
    fast check and every closed blob with an off-loaded filter answered NotContains to the full (file) check; as soon as
    one of them says 'maybe' the answer is Some(true).  Each closed blob is consulted through exactly one of the two ways."""
    res = P.ObResult("storage_check_filters[B<=%d]" % B)
    fn = crate.method("Storage", "check_filters")
    res.functions = ["Storage::check_filters (async body) + closures", "<FilterResult as PartialEq>::eq"]
    res.bounds = "active blob present/absent, 0..%d closed blobs, every split into off-loaded / in-memory filters (one run per split), every filter answer" % B
    FR = crate.enums["FilterResult"]
    need = BV64(FR["NeedAdditionalCheck"])
    tq = ts = 0.0
    paths = 0
    for n in range(B + 1):
        for offs in itertools.product([False, True], repeat=n):
            ex = P.mk_executor(crate, cap=B + 1, loop_bound=B + 3, inline=[r"^<FilterResult as PartialEq>::eq$"])
            st = State()
            storage = Obj("storage::core::Storage<K>")
            inner = Obj("storage::core::Inner<K>")
            safe = Obj("storage::core::Safe<K>")
            ab = Obj("std::option::Option<std::boxed::Box<async_lock::RwLock<blob::core::Blob<K>>>>")
            act = z3.BitVec("active_present", 64)
            st.pc.append(z3.Or(act == BV64(0), act == BV64(1)))
            ab.discr = Sym(act, "isize")
            alock = Obj("async_lock::RwLock<blob::core::Blob<K>>")
            ablob = Obj("blob::core::Blob<K>"); ablob.fields[("g", "id")] = Sym(BV64(100), "u64")
            alock.fields[(None, 7000)] = ablob
            ab.fields[("Some", 0)] = Ref(st.new_cell(alock), (), True, "Box<async_lock::RwLock<blob::core::Blob<K>>>")
            safe.fields[(None, crate.field_index("Safe", "active_blob"))] = ab
            slock = Obj("tokio::sync::RwLock<storage::core::Safe<K>>")
            slock.fields[(None, 7000)] = safe
            inner.fields[(None, crate.field_index("Inner", "safe"))] = slock
            arc = Obj("std::sync::Arc<storage::core::Inner<K>>")
            arc.fields[(None, 7001)] = Ref(st.new_cell(inner), (), True, "&storage::core::Inner<K>")
            storage.fields[(None, crate.field_index("Storage", "inner"))] = arc
            sc = st.new_cell(storage)
            cells = []
            for k in range(n):
                b = Obj("blob::core::Blob<K>"); b.fields[("g", "id")] = Sym(BV64(k), "u64")
                cells.append(st.new_cell(b))
            answers = {}

            def blob_id(ex_, st_, v):
                for _ in range(4):
                    if isinstance(v, Ref):
                        v = ex_.read_path(st_, v.cell, v.proj)
                t = v.fields.get(("g", "id")) if isinstance(v, Obj) else None
                if t is None:
                    raise Unsupported("blob without identity")
                return z3.simplify(t.t).as_long()

            def answer(kind, bid):
                key = (kind, bid)
                if key not in answers:
                    d = z3.BitVec("%s_answer_%d" % (kind, bid), 64)
                    answers[key] = d
                return answers[key]

            def mk_fr(d, st_):
                o = Obj("filter::FilterResult")
                st_.pc.append(z3.Or([d == BV64(v) for v in FR.values()]))
                o.discr = Sym(d, "isize")
                return o

            def call_hook(ex_, st_, cname, args, dty, _cells=cells, _offs=offs):
                if cname == "HierarchicalFilters::iter":
                    slots = [(z3.BoolVal(True), Ref(c, (), False, "&blob::core::Blob<K>")) for c in _cells]
                    return [(IT.IterV(slots, "&Blob<K>", True, BV64(len(_cells))), None)]
                if cname.endswith("check_filter_fast"):
                    bid = blob_id(ex_, st_, args[0])
                    st_.events.append(("fast", cname, bid, None))
                    return [(mk_fr(answer("fast", bid), st_), None)]
                return None
            ex.call_hook = call_hook

            def h_partition(ex_, st_, frame, t, nf, args, dty, _cells=cells, _offs=offs):
                it, _ = IT._get_iter(ex_, st_, args[0])
                a = [x for (g, x), off in zip(it.slots, _offs) if off]
                b = [x for (g, x), off in zip(it.slots, _offs) if not off]
                tup = Obj(dty)
                tup.fields[(None, 0)] = VecV("&blob::core::Blob<K>", B + 1, Sym(BV64(len(a)), "usize"), a + [None] * (B + 1 - len(a)))
                tup.fields[(None, 1)] = VecV("&blob::core::Blob<K>", B + 1, Sym(BV64(len(b)), "usize"), b + [None] * (B + 1 - len(b)))
                st_.events.append(("partition", nf, None, None))
                return [(tup, None)]

            def h_stream_any(ex_, st_, frame, t, nf, args, dty):
                return [(FutureV("stream_any", [args[0], args[1]], None, "stream_any"), None)]
            ex.summaries.insert(0, (re.compile(r"^<.* as (\S*::)?Iterator>::partition$"), h_partition))
            ex.summaries.insert(0, (re.compile(r"^<.* as tokio_stream::StreamExt>::any$"), h_stream_any))

            def await_hook(ex_, st_, name, fargs, out_ty, dty):
                if name == "stream_any":
                    sref, f = fargs
                    sobj = S.deref_val(ex_, st_, sref) if isinstance(sref, Ref) else sref
                    if not (isinstance(sobj, Obj) and sobj.tag and sobj.tag[0] == "stream"):
                        raise Unsupported("any over %r" % (sobj,))
                    acc = z3.BoolVal(False)
                    from .ob_delete import eval_multi
                    for g, fut in sobj.tag[1].slots:
                        if not isinstance(fut, FutureV):
                            raise Unsupported("stream item %r" % (fut,))
                        bid = blob_id(ex_, st_, fut.args[0])
                        st_.events.append(("full", fut.callee, bid, None))
                        v = mk_fr(answer("full", bid), st_)
                        r = eval_multi(ex_, st_, f, [v], 1)
                        acc = z3.Or(acc, r)
                    return [(S.poll_ready(dty, Sym(acc, "bool")), None)]
                if name.endswith("check_filter"):
                    bid = blob_id(ex_, st_, fargs[0])
                    st_.events.append(("full", name, bid, None))
                    return [(S.poll_ready(dty, mk_fr(answer("full", bid), st_)), None)]
                return None
            ex.await_hook = await_hook
            key = Obj("impl AsRef<K>")
            outs = P.drive_async(ex, st, fn, [Ref(sc, (), False, "&storage::core::Storage<K>"), key])
            paths += len(outs)
            for o in outs:
                if o.status in ("infeasible", "unwind"):
                    continue
                if o.status != "returned":
                    if not P.prove(ex, res, o, z3.BoolVal(False), "no panic (%s)" % o.note):
                        return P.finish(ex, res, [])
                    continue
                ready, payload = P.poll_payload(ex, o, o.result)
                if not P.prove(ex, res, o, z3.And(ready, ex.get_discr(o, payload).t == BV64(1)), "answers Some(..)"):
                    return P.finish(ex, res, [])
                r = payload.fields[("Some", 0)].t
                maybe = []
                act_full = answers.get(("full", 100))
                maybe.append(z3.And(act == BV64(1), act_full == need) if act_full is not None else z3.BoolVal(False))
                for k in range(n):
                    a = answers.get(("full" if offs[k] else "fast", k))
                    maybe.append(a == need if a is not None else z3.BoolVal(False))
                any_maybe = z3.Or(maybe)
                # every blob that could say 'maybe' has a modelled answer: one not consulted counts as possibly 'maybe'
                consulted = [e for e in o.events if e[0] in ("fast", "full")]
                ids = [(e[0], e[2]) for e in consulted]
                if len(set(ids)) != len(ids):
                    res.status = "violated"; res.detail = "a blob is consulted twice: %s" % ids; return P.finish(ex, res, [])
                if not P.prove(ex, res, o, z3.Implies(z3.Not(r), z3.Not(any_maybe)), "Some(false) only if nobody said 'maybe'"):
                    return P.finish(ex, res, [])
                if not P.prove(ex, res, o, z3.Implies(r, any_maybe), "Some(true) only if somebody said 'maybe'"):
                    return P.finish(ex, res, [])
                # Some(false) requires that everyone was actually asked, each closed blob in the way its filter state needs
                want = ([("full", 100)] if True else []) + [("full" if offs[k] else "fast", k) for k in range(n)]
                for w in want:
                    if w == ("full", 100):
                        cond = z3.And(z3.Not(r), act == BV64(1))
                    else:
                        cond = z3.Not(r)
                    if w not in ids and w not in answers and not P.prove(ex, res, o, z3.Not(cond), "Some(false) only after %s check of blob %s" % w):
                        return P.finish(ex, res, [])
                if n == B:
                    P.cover(ex, res, o, z3.Not(r), "definitely absent (n=%d, off-loaded=%s)" % (n, list(offs)) if False else "definitely absent with %d closed blobs" % B)
                    P.cover(ex, res, o, z3.And(r, z3.BoolVal(any(offs)), z3.BoolVal(("full", [k for k in range(n) if offs[k]][0]) in ids if any(offs) else False)), "an off-loaded filter says maybe")
                if n == 0:
                    P.cover(ex, res, o, z3.And(z3.Not(r), act == BV64(0)), "empty storage: absent")
            tq += ex.queries; ts += ex.solver_s
    res.paths = paths
    r = P.finish(ex, res, ["definitely absent with %d closed blobs" % B, "an off-loaded filter says maybe", "empty storage: absent"])
    r.queries, r.solver_s = int(tq), ts
    return r


def option_filter_merge(crate):
    """C10: `impl FilterTrait for Option<T>` (the `bloom: Option<Bloom>` half of a CombinedFilter; None = "unknown, needs an
    additional check"): checked_add_assign answers true - the promise "every key of `other` is covered by `self` now" - only
    when both sides are absent or both are present and the inner merge ran and answered true; a present filter merged
    with an absent one must answer false (the caller then drops the node filter).  contains_fast of an absent filter never
    answers NotContains."""
    res = P.ObResult("option_filter_merge")
    fn = crate.find(r"traits::<impl at src/filter/traits\.rs[^>]*>::checked_add_assign$")
    fc = crate.find(r"traits::<impl at src/filter/traits\.rs[^>]*>::contains_fast$")
    res.functions = ["<Option<T> as FilterTrait<K>>::checked_add_assign", "<Option<T> as FilterTrait<K>>::contains_fast"]
    res.bounds = "loop-free; both discriminants symbolic; inner T::checked_add_assign / contains_fast arbitrary"
    from . import mirparse as MP
    MP.parse_body(fn); MP.parse_body(fc)

    def h_inner(ex_, st_, frame, t, nf, args, dty):
        v = z3.Bool(fresh_name("inner_merge_ok"))
        st_.events.append(("inner_merge", nf, args, Sym(v, "bool")))
        return [(Sym(v, "bool"), None)]

    def h_inner_c(ex_, st_, frame, t, nf, args, dty):
        r = ex_.fresh(dty, st_, "inner_contains")
        st_.events.append(("inner_contains", nf, args, r))
        return [(r, None)]
    ex = P.mk_executor(crate, cap=1, loop_bound=2, inline=[],
                       extra_summaries=[(r"^<T as (\S*::)?FilterTrait<K>>::checked_add_assign$", h_inner),
                                        (r"^<T as (\S*::)?FilterTrait<K>>::contains_fast$", h_inner_c)])
    st = State()
    da, db = z3.BitVec("dest_is_some", 64), z3.BitVec("other_is_some", 64)
    st.pc.append(z3.And(z3.ULE(da, BV64(1)), z3.ULE(db, BV64(1))))
    a = Obj("std::option::Option<T>"); a.discr = Sym(da, "isize"); a.fields[("Some", 0)] = Obj("T")
    b = Obj("std::option::Option<T>"); b.discr = Sym(db, "isize"); b.fields[("Some", 0)] = Obj("T")
    ac, bc = st.new_cell(a), st.new_cell(b)
    s0 = st.fork()
    ex.push_frame(st, fn, [Ref(ac, (), True, "&mut std::option::Option<T>"), Ref(bc, (), False, "&std::option::Option<T>")], None, None)
    outs = ex.run(st)
    res.paths = len(outs)
    for o in outs:
        if o.status in ("infeasible", "unwind"):
            continue
        if o.status != "returned":
            if not P.prove(ex, res, o, z3.BoolVal(False), "no panic (%s)" % o.note):
                return P.finish(ex, res, [])
            continue
        r = o.result.t
        im = [e for e in o.events if e[0] == "inner_merge"]
        inner_ok = im[0][3].t if len(im) == 1 else z3.BoolVal(False)
        both_none = z3.And(da == BV64(0), db == BV64(0))
        both_some = z3.And(da == BV64(1), db == BV64(1))
        if not P.prove(ex, res, o, z3.Implies(r, z3.Or(both_none, z3.And(both_some, inner_ok))),
                       "true only if both absent, or both present and the inner merge succeeded"):
            return P.finish(ex, res, [])
        if not P.prove(ex, res, o, z3.Implies(both_none, r), "absent + absent merges"):
            return P.finish(ex, res, [])
        if not P.prove(ex, res, o, z3.Implies(z3.And(both_some, inner_ok), r), "present + present follows the inner merge"):
            return P.finish(ex, res, [])
        if len(im) > 1:
            res.status = "violated"; res.detail = "inner merge called %d times" % len(im); return P.finish(ex, res, [])
        P.cover(ex, res, o, z3.And(da == BV64(1), db == BV64(0), z3.Not(r)), "present + absent refused")
        P.cover(ex, res, o, z3.And(both_some, r), "present + present merged")
        P.cover(ex, res, o, z3.And(both_none, r), "absent + absent")
    FR = crate.enums["FilterResult"]
    k = s0.new_cell(Obj("K"))
    ex.push_frame(s0, fc, [Ref(ac, (), False, "&std::option::Option<T>"), Ref(k, (), False, "&K")], None, None)
    for o in ex.run(s0):
        if o.status in ("infeasible", "unwind"):
            continue
        if o.status != "returned":
            if not P.prove(ex, res, o, z3.BoolVal(False), "no panic (%s)" % o.note):
                return P.finish(ex, res, [])
            continue
        res.paths += 1
        d = ex.get_discr(o, o.result).t
        ic = [e for e in o.events if e[0] == "inner_contains"]
        if not P.prove(ex, res, o, z3.Implies(da == BV64(0), d == BV64(FR["NeedAdditionalCheck"])), "absent filter: needs an additional check"):
            return P.finish(ex, res, [])
        if ic:
            if not P.prove(ex, res, o, z3.And(da == BV64(1), d == ex.get_discr(o, ic[0][3]).t), "present filter: the inner answer"):
                return P.finish(ex, res, [])
        P.cover(ex, res, o, da == BV64(0), "absent probed")
    return P.finish(ex, res, ["present + absent refused", "present + present merged", "absent + absent", "absent probed"])


def combined_filter_merge(crate):
    """C10: CombinedFilter::checked_add_assign answers true only if the range merge and the bloom merge both ran and both
    answered true."""
    res = P.ObResult("combined_filter_merge")
    fn = crate.find(r"combined::<impl at src/filter/combined\.rs[^>]*>::checked_add_assign$")
    res.functions = ["<CombinedFilter<K> as FilterTrait<K>>::checked_add_assign"]
    res.bounds = "loop-free; the two component merges arbitrary"
    from . import mirparse as MP
    MP.parse_body(fn)

    def h_part(ex_, st_, frame, t, nf, args, dty):
        v = z3.Bool(fresh_name("part_ok"))
        st_.events.append(("part", nf, args, Sym(v, "bool")))
        return [(Sym(v, "bool"), None)]
    ex = P.mk_executor(crate, cap=1, loop_bound=2, inline=[],
                       extra_summaries=[(r"^<.* as (\S*::)?FilterTrait<.*>>::checked_add_assign$", h_part)])
    st = State()
    ac, bc = st.new_cell(Obj("filter::combined::CombinedFilter<K>")), st.new_cell(Obj("filter::combined::CombinedFilter<K>"))
    ex.push_frame(st, fn, [Ref(ac, (), True, "&mut filter::combined::CombinedFilter<K>"), Ref(bc, (), False, "&filter::combined::CombinedFilter<K>")], None, None)
    outs = ex.run(st)
    res.paths = len(outs)
    for o in outs:
        if o.status in ("infeasible", "unwind"):
            continue
        if o.status != "returned":
            if not P.prove(ex, res, o, z3.BoolVal(False), "no panic (%s)" % o.note):
                return P.finish(ex, res, [])
            continue
        parts = [e for e in o.events if e[0] == "part"]
        kinds = sorted(("range" if "Range" in e[1] else "bloom" if ("Option" in e[1] or "Bloom" in e[1]) else e[1]) for e in parts)
        allok = z3.And([e[3].t for e in parts]) if parts else z3.BoolVal(True)
        r = o.result.t
        if not P.prove(ex, res, o, z3.Implies(r, z3.And(z3.BoolVal(kinds == ["bloom", "range"]), allok)),
                       "true only if both the range and the bloom merge ran and succeeded (ran: %s)" % kinds):
            return P.finish(ex, res, [])
        if not P.prove(ex, res, o, z3.Implies(z3.And(z3.BoolVal(len(parts) == 2), allok), r), "both succeeded: true"):
            return P.finish(ex, res, [])
        P.cover(ex, res, o, r, "merged")
        P.cover(ex, res, o, z3.Not(r), "refused")
    return P.finish(ex, res, ["merged", "refused"])
