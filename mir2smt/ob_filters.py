"""Obligation on the storage-level filter check (Storage::check_filters) — C10."""
import re, itertools
import z3
from .symex import State, Sym, Obj, VecV, Ref, FutureV, Unsupported, fresh_name
from . import pearl as P
from . import summaries as S
from . import iters as IT
from .pearl import BV64


def storage_check_filters(crate, B=2):
    """C10: Storage::check_filters never gives a false negative at storage level: it answers Some(false) only if the active
    blob (when there is one) answered NotContains, every closed blob with an in-memory filter answered NotContains to the
    fast check and every closed blob with an off-loaded filter answered NotContains to the full (file) check; as soon as
    one of them says 'maybe' the answer is Some(true).  Each closed blob is consulted through exactly one of the two ways."""
    res = P.ObResult("storage_check_filters[B<=%d]" % B)
    fn = crate.method("Storage", "check_filters")
    res.functions = ["Storage::check_filters (async body) + closures", "<FilterResult as PartialEq>::eq"]
    res.bounds = "active blob present/absent, 0..%d closed blobs, every split into off-loaded / in-memory filters (one run per split), every filter answer" % B
    FR = crate.enums["FilterResult"]
    need = BV64(FR["NeedAdditionalCheck"])
    tq = ts = 0.0
    paths = 0
    for n in range(B + 1):
        for offs in itertools.product([False, True], repeat=n):
            ex = P.mk_executor(crate, cap=B + 1, loop_bound=B + 3, inline=[r"^<FilterResult as PartialEq>::eq$"])
            st = State()
            storage = Obj("storage::core::Storage<K>")
            inner = Obj("storage::core::Inner<K>")
            safe = Obj("storage::core::Safe<K>")
            ab = Obj("std::option::Option<std::boxed::Box<async_lock::RwLock<blob::core::Blob<K>>>>")
            act = z3.BitVec("active_present", 64)
            st.pc.append(z3.Or(act == BV64(0), act == BV64(1)))
            ab.discr = Sym(act, "isize")
            alock = Obj("async_lock::RwLock<blob::core::Blob<K>>")
            ablob = Obj("blob::core::Blob<K>"); ablob.fields[("g", "id")] = Sym(BV64(100), "u64")
            alock.fields[(None, 7000)] = ablob
            ab.fields[("Some", 0)] = Ref(st.new_cell(alock), (), True, "Box<async_lock::RwLock<blob::core::Blob<K>>>")
            safe.fields[(None, crate.field_index("Safe", "active_blob"))] = ab
            slock = Obj("tokio::sync::RwLock<storage::core::Safe<K>>")
            slock.fields[(None, 7000)] = safe
            inner.fields[(None, crate.field_index("Inner", "safe"))] = slock
            arc = Obj("std::sync::Arc<storage::core::Inner<K>>")
            arc.fields[(None, 7001)] = Ref(st.new_cell(inner), (), True, "&storage::core::Inner<K>")
            storage.fields[(None, crate.field_index("Storage", "inner"))] = arc
            sc = st.new_cell(storage)
            cells = []
            for k in range(n):
                b = Obj("blob::core::Blob<K>"); b.fields[("g", "id")] = Sym(BV64(k), "u64")
                cells.append(st.new_cell(b))
            answers = {}

            def blob_id(ex_, st_, v):
                for _ in range(4):
                    if isinstance(v, Ref):
                        v = ex_.read_path(st_, v.cell, v.proj)
                t = v.fields.get(("g", "id")) if isinstance(v, Obj) else None
                if t is None:
                    raise Unsupported("blob without identity")
                return z3.simplify(t.t).as_long()

            def answer(kind, bid):
                key = (kind, bid)
                if key not in answers:
                    d = z3.BitVec("%s_answer_%d" % (kind, bid), 64)
                    answers[key] = d
                return answers[key]

            def mk_fr(d, st_):
                o = Obj("filter::FilterResult")
                st_.pc.append(z3.Or([d == BV64(v) for v in FR.values()]))
                o.discr = Sym(d, "isize")
                return o

            def call_hook(ex_, st_, cname, args, dty, _cells=cells, _offs=offs):
                if cname == "HierarchicalFilters::iter":
                    slots = [(z3.BoolVal(True), Ref(c, (), False, "&blob::core::Blob<K>")) for c in _cells]
                    return [(IT.IterV(slots, "&Blob<K>", True, BV64(len(_cells))), None)]
                if cname.endswith("check_filter_fast"):
                    bid = blob_id(ex_, st_, args[0])
                    st_.events.append(("fast", cname, bid, None))
                    return [(mk_fr(answer("fast", bid), st_), None)]
                return None
            ex.call_hook = call_hook

            def h_partition(ex_, st_, frame, t, nf, args, dty, _cells=cells, _offs=offs):
                it, _ = IT._get_iter(ex_, st_, args[0])
                a = [x for (g, x), off in zip(it.slots, _offs) if off]
                b = [x for (g, x), off in zip(it.slots, _offs) if not off]
                tup = Obj(dty)
                tup.fields[(None, 0)] = VecV("&blob::core::Blob<K>", B + 1, Sym(BV64(len(a)), "usize"), a + [None] * (B + 1 - len(a)))
                tup.fields[(None, 1)] = VecV("&blob::core::Blob<K>", B + 1, Sym(BV64(len(b)), "usize"), b + [None] * (B + 1 - len(b)))
                st_.events.append(("partition", nf, None, None))
                return [(tup, None)]

            def h_stream_any(ex_, st_, frame, t, nf, args, dty):
                return [(FutureV("stream_any", [args[0], args[1]], None, "stream_any"), None)]
            ex.summaries.insert(0, (re.compile(r"^<.* as (\S*::)?Iterator>::partition$"), h_partition))
            ex.summaries.insert(0, (re.compile(r"^<.* as tokio_stream::StreamExt>::any$"), h_stream_any))

            def await_hook(ex_, st_, name, fargs, out_ty, dty):
                if name == "stream_any":
                    sref, f = fargs
                    sobj = S.deref_val(ex_, st_, sref) if isinstance(sref, Ref) else sref
                    if not (isinstance(sobj, Obj) and sobj.tag and sobj.tag[0] == "stream"):
                        raise Unsupported("any over %r" % (sobj,))
                    acc = z3.BoolVal(False)
                    from .ob_delete import eval_multi
                    for g, fut in sobj.tag[1].slots:
                        if not isinstance(fut, FutureV):
                            raise Unsupported("stream item %r" % (fut,))
                        bid = blob_id(ex_, st_, fut.args[0])
                        st_.events.append(("full", fut.callee, bid, None))
                        v = mk_fr(answer("full", bid), st_)
                        r = eval_multi(ex_, st_, f, [v], 1)
                        acc = z3.Or(acc, r)
                    return [(S.poll_ready(dty, Sym(acc, "bool")), None)]
                if name.endswith("check_filter"):
                    bid = blob_id(ex_, st_, fargs[0])
                    st_.events.append(("full", name, bid, None))
                    return [(S.poll_ready(dty, mk_fr(answer("full", bid), st_)), None)]
                return None
            ex.await_hook = await_hook
            key = Obj("impl AsRef<K>")
            outs = P.drive_async(ex, st, fn, [Ref(sc, (), False, "&storage::core::Storage<K>"), key])
            paths += len(outs)
            for o in outs:
                if o.status in ("infeasible", "unwind"):
                    continue
                if o.status != "returned":
                    if not P.prove(ex, res, o, z3.BoolVal(False), "no panic (%s)" % o.note):
                        return P.finish(ex, res, [])
                    continue
                ready, payload = P.poll_payload(ex, o, o.result)
                if not P.prove(ex, res, o, z3.And(ready, ex.get_discr(o, payload).t == BV64(1)), "answers Some(..)"):
                    return P.finish(ex, res, [])
                r = payload.fields[("Some", 0)].t
                maybe = []
                act_full = answers.get(("full", 100))
                maybe.append(z3.And(act == BV64(1), act_full == need) if act_full is not None else z3.BoolVal(False))
                for k in range(n):
                    a = answers.get(("full" if offs[k] else "fast", k))
                    maybe.append(a == need if a is not None else z3.BoolVal(False))
                any_maybe = z3.Or(maybe)
                # every blob that could say 'maybe' has a modelled answer: one not consulted counts as possibly 'maybe'
                consulted = [e for e in o.events if e[0] in ("fast", "full")]
                ids = [(e[0], e[2]) for e in consulted]
                if len(set(ids)) != len(ids):
                    res.status = "violated"; res.detail = "a blob is consulted twice: %s" % ids; return P.finish(ex, res, [])
                if not P.prove(ex, res, o, z3.Implies(z3.Not(r), z3.Not(any_maybe)), "Some(false) only if nobody said 'maybe'"):
                    return P.finish(ex, res, [])
                if not P.prove(ex, res, o, z3.Implies(r, any_maybe), "Some(true) only if somebody said 'maybe'"):
                    return P.finish(ex, res, [])
                # Some(false) requires that everyone was actually asked, each closed blob in the way its filter state needs
                want = ([("full", 100)] if True else []) + [("full" if offs[k] else "fast", k) for k in range(n)]
                for w in want:
                    if w == ("full", 100):
                        cond = z3.And(z3.Not(r), act == BV64(1))
                    else:
                        cond = z3.Not(r)
                    if w not in ids and w not in answers and not P.prove(ex, res, o, z3.Not(cond), "Some(false) only after %s check of blob %s" % w):
                        return P.finish(ex, res, [])
                if n == B:
                    P.cover(ex, res, o, z3.Not(r), "definitely absent (n=%d, off-loaded=%s)" % (n, list(offs)) if False else "definitely absent with %d closed blobs" % B)
                    P.cover(ex, res, o, z3.And(r, z3.BoolVal(any(offs)), z3.BoolVal(("full", [k for k in range(n) if offs[k]][0]) in ids if any(offs) else False)), "an off-loaded filter says maybe")
                if n == 0:
                    P.cover(ex, res, o, z3.And(z3.Not(r), act == BV64(0)), "empty storage: absent")
            tq += ex.queries; ts += ex.solver_s
    res.paths = paths
    r = P.finish(ex, res, ["definitely absent with %d closed blobs" % B, "an off-loaded filter says maybe", "empty storage: absent"])
    r.queries, r.solver_s = int(tq), ts
    return r
