"""Obligations on src/blob/index/bptree/serializer.rs: leaf packing (C09)."""
import re
import z3
from .symex import State, Sym, Obj, VecV, Ref, FnItem, UNIT, Unsupported, fresh_name
from . import pearl as P
from . import summaries as S
from . import iters as IT
from .pearl import BV64


def leaf_packing(crate, N=3):
    """C09: HeaderStage::serialize_bptree: the (min key, offset) list handed to build_tree describes the leaves array
    correctly for lookups: the list starts at (first key, 0); every entry is (some key of the map, offset of that key's
    first record header in the leaves array); entries are strictly ascending; and for EVERY key of the map the first
    (newest) record header of the key lies entirely inside the 4 KiB window that starts at the offset of the entry the
    tree routes the key to (the last entry whose key is <= the key) — so the in-leaf binary search of read_headers
    sees at least one record of every stored key."""
    res = P.ObResult("leaf_packing[N<=%d]" % N)
    fn = crate.method("HeaderStage", "serialize_bptree")
    res.functions = ["HeaderStage::serialize_bptree"]
    res.bounds = "<= %d keys (abstract strictly ascending keys), 1..2^12 versions per key, record header size 1..4096, BLOCK_SIZE from the source" % N
    block = None
    for k, v in crate.consts.items():
        if k.split("::")[-1] == "BLOCK_SIZE" and v[0] == "lit":
            m = re.match(r"^(?:const )?(\d+)", str(v[2]))
            if m:
                block = int(m.group(1).replace("_", ""))
    if block is None:
        raise Unsupported("BLOCK_SIZE constant not found")
    n = z3.BitVec("n_keys", 64)
    rhs = z3.BitVec("record_header_size", 64)
    cnt = [z3.BitVec("versions_%d" % i, 64) for i in range(N)]
    kid = [z3.BitVec("key_%d" % i, 16) for i in range(N)]
    keys = []
    entries = []
    for i in range(N):
        k = Obj("K"); k.fields[("g", "kid")] = Sym(kid[i], "u16"); k.fields[("g", "ix")] = Sym(BV64(i), "usize")
        keys.append(k)
        v = VecV(P.HEADER_TY, 1, Sym(cnt[i], "usize"), [None])
        entries.append((k, v))

    st = State()
    st.pc.append(z3.And(z3.UGE(n, BV64(1)), z3.ULE(n, BV64(N)), z3.UGE(rhs, BV64(1)), z3.ULE(rhs, BV64(block))))
    for i in range(N):
        st.pc.append(z3.And(z3.UGE(cnt[i], BV64(1)), z3.ULT(cnt[i], BV64(1 << 12))))
        if i:
            st.pc.append(z3.ULT(kid[i - 1], kid[i]))
    key_cells = [st.new_cell(k) for k, _ in entries]
    vec_cells = [st.new_cell(v) for _, v in entries]
    the_map = Obj("BTreeMap<K, Vec<Header>>")
    mc = st.new_cell(the_map)

    def h_keys(ex_, st_, frame, t, nf, args, dty):
        slots = [(z3.ULT(BV64(i), n), Ref(key_cells[i], (), False, "&K")) for i in range(N)]
        return [(IT.IterV(slots, "&K", True, n), None)]

    def h_iter(ex_, st_, frame, t, nf, args, dty):
        slots = []
        for i in range(N):
            tup = Obj("(&K, &Vec<Header>)")
            tup.fields[(None, 0)] = Ref(key_cells[i], (), False, "&K")
            tup.fields[(None, 1)] = Ref(vec_cells[i], (), False, "&Vec<%s>" % P.HEADER_TY)
            slots.append((z3.ULT(BV64(i), n), tup))
        return [(IT.IterV(slots, "(&K, &Vec)", True, n), None)]

    def h_to_vec(ex_, st_, frame, t, nf, args, dty):
        k = S.deref_val(ex_, st_, args[0])
        o = Obj("Vec<u8>")
        o.fields[("g", "kid")] = k.fields[("g", "kid")]
        o.fields[("g", "ix")] = k.fields[("g", "ix")]
        return [(o, None)]

    def h_clone(ex_, st_, frame, t, nf, args, dty):
        import copy
        return [(copy.copy(S.deref_val(ex_, st_, args[0])), None)]
    captured = {}

    def call_hook(ex_, st_, cname, args, dty):
        if cname.endswith("build_tree"):
            captured["nodes"] = args[0]
            captured["tree_offset"] = args[1]
            r = ex_.fresh(dty, st_, "built")
            st_.events.append(("call", cname, args, r))
            return [(r, None)]
        return None
    extra = [(r"^(std::collections::)?BTreeMap::<.*>::keys$|^(std::collections::)?BTreeMap::keys$", h_keys),
             (r"^(std::collections::)?BTreeMap::<.*>::iter$|^(std::collections::)?BTreeMap::iter$", h_iter),
             (r"^<K as (\S*::)?Key<'_>>::to_vec$", h_to_vec), (r"^<K as Clone>::clone$", h_clone)]
    ex = P.mk_executor(crate, cap=N + 1, loop_bound=N + 2, inline=[], extra_summaries=extra)
    ex.call_hook = call_hook
    ex.push_frame(st, fn, [Ref(mc, (), False, "&BTreeMap<K, Vec<Header>>"), Sym(z3.BitVec("tree_offset", 64), "u64"), Sym(rhs, "u64")], None, None)
    outs = ex.run(st)
    res.paths = len(outs)
    start = [BV64(0)]
    for i in range(1, N):
        start.append(start[i - 1] + cnt[i - 1] * rhs)
    for o in outs:
        if o.status in ("infeasible", "unwind"):
            continue
        if o.status != "returned":
            if not P.prove(ex, res, o, z3.BoolVal(False), "no panic in serialize_bptree (%s)" % o.note):
                break
            continue
        calls = [e for e in o.events if e[0] == "call" and e[1].endswith("build_tree")]
        if len(calls) != 1:
            res.status = "violated"; res.detail = "build_tree called %d times" % len(calls); break
        nodes = calls[0][2][0]
        if isinstance(nodes, Ref):
            nodes = ex.read_path(o, nodes.cell, nodes.proj)
        if not isinstance(nodes, VecV):
            res.status = "inconclusive"; res.detail = "leaf node list not a vector: %r" % (nodes,); break
        ln = z3.simplify(nodes.len.t)
        if not z3.is_bv_value(ln):
            res.status = "inconclusive"; res.detail = "symbolic leaf count"; break
        m = ln.as_long()
        ents = []
        for j in range(m):
            e = nodes.elems[j]
            kv, off = e.fields[(None, 0)], e.fields[(None, 1)]
            ents.append((kv.fields[("g", "kid")].t, kv.fields[("g", "ix")].t, off.t))
        ok = True
        ok = ok and P.prove(ex, res, o, z3.BoolVal(m >= 1), "at least one leaf")
        if not ok:
            break
        ok = P.prove(ex, res, o, z3.And(ents[0][1] == BV64(0), ents[0][2] == BV64(0)), "first leaf = (first key, offset 0)")
        for j in range(m):
            if not ok:
                break
            sel = z3.Or([z3.And(z3.ULT(BV64(i), n), ents[j][1] == BV64(i), ents[j][0] == kid[i], ents[j][2] == start[i]) for i in range(N)])
            ok = P.prove(ex, res, o, sel, "leaf %d = (a key of the map, offset of that key's first record)" % j)
            if ok and j:
                ok = P.prove(ex, res, o, z3.And(z3.ULT(ents[j - 1][0], ents[j][0]), z3.ULT(ents[j - 1][2], ents[j][2])), "leaves strictly ascending in key and offset")
        if not ok:
            break
        # routing: for key i the tree selects the last leaf with min key <= key i
        for i in range(N):
            route = ents[0][2]
            for j in range(1, m):
                route = z3.If(z3.ULE(ents[j][0], kid[i]), ents[j][2], route)
            ok = P.prove(ex, res, o, z3.Implies(z3.ULT(BV64(i), n), z3.And(z3.ULE(route, start[i]), z3.ULE(start[i] + rhs, route + BV64(block)))),
                         "first record of key %d lies inside the 4 KiB window of the leaf it is routed to" % i)
            if not ok:
                break
        if not ok:
            break
        P.cover(ex, res, o, z3.BoolVal(m >= 2), "two or more leaves")
        P.cover(ex, res, o, z3.And(z3.BoolVal(m == 1), n == BV64(N)), "all keys in one leaf")
        if m >= 2:
            P.cover(ex, res, o, z3.UGT(ents[1][2] - ents[0][2], BV64(block)), "a key group longer than one block")
    return P.finish(ex, res, ["two or more leaves", "all keys in one leaf", "a key group longer than one block"])
