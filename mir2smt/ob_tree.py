"""Obligations on src/blob/index/bptree/serializer.rs: leaf packing (C09)."""
import re
import z3
from .symex import State, Sym, Obj, VecV, Ref, FnItem, UNIT, Unsupported, fresh_name
from . import pearl as P
from . import summaries as S
from . import iters as IT
from .pearl import BV64


def leaf_packing(crate, N=3):
    """C09: HeaderStage::serialize_bptree: the (min key, offset) list handed to build_tree describes the leaves array
    correctly for lookups: the list starts at (first key, 0); every entry is (some key of the map, offset of that key's
    first record header in the leaves array); entries are strictly ascending; and for EVERY key of the map the first
    (newest) record header of the key lies entirely inside the 4 KiB window that starts at the offset of the entry the
    tree routes the key to (the last entry whose key is <= the key) — so the in-leaf binary search of read_headers
    sees at least one record of every stored key."""
    res = P.ObResult("leaf_packing[N<=%d]" % N)
    fn = crate.method("HeaderStage", "serialize_bptree")
    res.functions = ["HeaderStage::serialize_bptree"]
    res.bounds = "<= %d keys (abstract strictly ascending keys), 1..2^12 versions per key, record header size 1..4096, BLOCK_SIZE from the source" % N
    block = None
    for k, v in crate.consts.items():
        if k.split("::")[-1] == "BLOCK_SIZE" and v[0] == "lit":
            m = re.match(r"^(?:const )?(\d+)", str(v[2]))
            if m:
                block = int(m.group(1).replace("_", ""))
    if block is None:
        raise Unsupported("BLOCK_SIZE constant not found")
    n = z3.BitVec("n_keys", 64)
    rhs = z3.BitVec("record_header_size", 64)
    cnt = [z3.BitVec("versions_%d" % i, 64) for i in range(N)]
    kid = [z3.BitVec("key_%d" % i, 16) for i in range(N)]
    keys = []
    entries = []
    for i in range(N):
        k = Obj("K"); k.fields[("g", "kid")] = Sym(kid[i], "u16"); k.fields[("g", "ix")] = Sym(BV64(i), "usize")
        keys.append(k)
        v = VecV(P.HEADER_TY, 1, Sym(cnt[i], "usize"), [None])
        entries.append((k, v))

    st = State()
    st.pc.append(z3.And(z3.UGE(n, BV64(1)), z3.ULE(n, BV64(N)), z3.UGE(rhs, BV64(1)), z3.ULE(rhs, BV64(block))))
    for i in range(N):
        st.pc.append(z3.And(z3.UGE(cnt[i], BV64(1)), z3.ULT(cnt[i], BV64(1 << 12))))
        if i:
            st.pc.append(z3.ULT(kid[i - 1], kid[i]))
    key_cells = [st.new_cell(k) for k, _ in entries]
    vec_cells = [st.new_cell(v) for _, v in entries]
    the_map = Obj("BTreeMap<K, Vec<Header>>")
    mc = st.new_cell(the_map)

    def h_keys(ex_, st_, frame, t, nf, args, dty):
        slots = [(z3.ULT(BV64(i), n), Ref(key_cells[i], (), False, "&K")) for i in range(N)]
        return [(IT.IterV(slots, "&K", True, n), None)]

    def h_iter(ex_, st_, frame, t, nf, args, dty):
        slots = []
        for i in range(N):
            tup = Obj("(&K, &Vec<Header>)")
            tup.fields[(None, 0)] = Ref(key_cells[i], (), False, "&K")
            tup.fields[(None, 1)] = Ref(vec_cells[i], (), False, "&Vec<%s>" % P.HEADER_TY)
            slots.append((z3.ULT(BV64(i), n), tup))
        return [(IT.IterV(slots, "(&K, &Vec)", True, n), None)]

    def h_to_vec(ex_, st_, frame, t, nf, args, dty):
        k = S.deref_val(ex_, st_, args[0])
        o = Obj("Vec<u8>")
        o.fields[("g", "kid")] = k.fields[("g", "kid")]
        o.fields[("g", "ix")] = k.fields[("g", "ix")]
        return [(o, None)]

    def h_clone(ex_, st_, frame, t, nf, args, dty):
        import copy
        return [(copy.copy(S.deref_val(ex_, st_, args[0])), None)]
    captured = {}

    def call_hook(ex_, st_, cname, args, dty):
        if cname.endswith("build_tree"):
            captured["nodes"] = args[0]
            captured["tree_offset"] = args[1]
            r = ex_.fresh(dty, st_, "built")
            st_.events.append(("call", cname, args, r))
            return [(r, None)]
        return None
    extra = [(r"^(std::collections::)?BTreeMap::<.*>::keys$|^(std::collections::)?BTreeMap::keys$", h_keys),
             (r"^(std::collections::)?BTreeMap::<.*>::iter$|^(std::collections::)?BTreeMap::iter$", h_iter),
             (r"^<K as (\S*::)?Key<'_>>::to_vec$", h_to_vec), (r"^<K as Clone>::clone$", h_clone)]
    ex = P.mk_executor(crate, cap=N + 1, loop_bound=N + 2, inline=[], extra_summaries=extra)
    ex.call_hook = call_hook
    ex.push_frame(st, fn, [Ref(mc, (), False, "&BTreeMap<K, Vec<Header>>"), Sym(z3.BitVec("tree_offset", 64), "u64"), Sym(rhs, "u64")], None, None)
    outs = ex.run(st)
    res.paths = len(outs)
    start = [BV64(0)]
    for i in range(1, N):
        start.append(start[i - 1] + cnt[i - 1] * rhs)
    for o in outs:
        if o.status in ("infeasible", "unwind"):
            continue
        if o.status != "returned":
            if not P.prove(ex, res, o, z3.BoolVal(False), "no panic in serialize_bptree (%s)" % o.note):
                break
            continue
        calls = [e for e in o.events if e[0] == "call" and e[1].endswith("build_tree")]
        if len(calls) != 1:
            res.status = "violated"; res.detail = "build_tree called %d times" % len(calls); break
        nodes = calls[0][2][0]
        if isinstance(nodes, Ref):
            nodes = ex.read_path(o, nodes.cell, nodes.proj)
        if not isinstance(nodes, VecV):
            res.status = "inconclusive"; res.detail = "leaf node list not a vector: %r" % (nodes,); break
        ln = z3.simplify(nodes.len.t)
        if not z3.is_bv_value(ln):
            res.status = "inconclusive"; res.detail = "symbolic leaf count"; break
        m = ln.as_long()
        ents = []
        for j in range(m):
            e = nodes.elems[j]
            kv, off = e.fields[(None, 0)], e.fields[(None, 1)]
            ents.append((kv.fields[("g", "kid")].t, kv.fields[("g", "ix")].t, off.t))
        ok = True
        ok = ok and P.prove(ex, res, o, z3.BoolVal(m >= 1), "at least one leaf")
        if not ok:
            break
        ok = P.prove(ex, res, o, z3.And(ents[0][1] == BV64(0), ents[0][2] == BV64(0)), "first leaf = (first key, offset 0)")
        for j in range(m):
            if not ok:
                break
            sel = z3.Or([z3.And(z3.ULT(BV64(i), n), ents[j][1] == BV64(i), ents[j][0] == kid[i], ents[j][2] == start[i]) for i in range(N)])
            ok = P.prove(ex, res, o, sel, "leaf %d = (a key of the map, offset of that key's first record)" % j)
            if ok and j:
                ok = P.prove(ex, res, o, z3.And(z3.ULT(ents[j - 1][0], ents[j][0]), z3.ULT(ents[j - 1][2], ents[j][2])), "leaves strictly ascending in key and offset")
        if not ok:
            break
        # routing: for key i the tree selects the last leaf with min key <= key i
        for i in range(N):
            route = ents[0][2]
            for j in range(1, m):
                route = z3.If(z3.ULE(ents[j][0], kid[i]), ents[j][2], route)
            ok = P.prove(ex, res, o, z3.Implies(z3.ULT(BV64(i), n), z3.And(z3.ULE(route, start[i]), z3.ULE(start[i] + rhs, route + BV64(block)))),
                         "first record of key %d lies inside the 4 KiB window of the leaf it is routed to" % i)
            if not ok:
                break
        if not ok:
            break
        P.cover(ex, res, o, z3.BoolVal(m >= 2), "two or more leaves")
        P.cover(ex, res, o, z3.And(z3.BoolVal(m == 1), n == BV64(N)), "all keys in one leaf")
        if m >= 2:
            P.cover(ex, res, o, z3.UGT(ents[1][2] - ents[0][2], BV64(block)), "a key group longer than one block")
    return P.finish(ex, res, ["two or more leaves", "all keys in one leaf", "a key group longer than one block"])


def find_leaf_descent(crate, D=3):
    """C09: BPTreeFileIndex::find_leaf_node: the descent follows the offsets the nodes give (root node from memory exactly
    when the offset is tree_offset, any other node read from the file at that offset) and stops at the FIRST offset that is
    not below leaves_offset, which is returned — a leaf offset is never interpreted as a tree node and the descent never
    stops inside the tree; node decoding / read errors are returned."""
    res = P.ObResult("find_leaf_descent[depth<=%d]" % D)
    fn = crate.method("BPTreeFileIndex", "find_leaf_node")
    res.functions = ["BPTreeFileIndex::find_leaf_node (async body)"]
    res.bounds = "<= %d levels (loop unwound %d times, deeper descents dropped), arbitrary offsets, every outcome of node search / file read" % (D, D + 1)
    ex = P.mk_executor(crate, cap=2, loop_bound=D + 1, inline=[], havoc=[r"^<BytesMut as Deref>::deref$"])
    ex.unwind_assume = True
    st = State()
    me = Obj("bptree::core::BPTreeFileIndex<K>")
    meta = Obj("bptree::meta::TreeMeta")
    leaves, tree = z3.BitVec("leaves_offset", 64), z3.BitVec("tree_offset", 64)
    meta.fields[(None, crate.field_index("TreeMeta", "leaves_offset"))] = Sym(leaves, "u64")
    meta.fields[(None, crate.field_index("TreeMeta", "tree_offset"))] = Sym(tree, "u64")
    me.fields[(None, crate.field_index("BPTreeFileIndex", "metadata"))] = meta
    root = Obj("bytes::BytesMut"); root.fields[("g", "which")] = Sym(BV64(1), "u64")
    me.fields[(None, crate.field_index("BPTreeFileIndex", "root_node"))] = root
    mc = st.new_cell(me)
    start = z3.BitVec("start_offset", 64)
    st.pc.append(z3.ULE(tree, leaves))
    buf = Obj("bytes::BytesMut"); buf.fields[("g", "which")] = Sym(BV64(2), "u64")
    key = Ref(st.new_cell(Obj("K")), (), False, "&K")

    def await_hook(ex_, st_, name, fargs, out_ty, dty):
        if "read_exact_at" in name:
            r = ex_.fresh(out_ty, st_, "node")
            b = Obj("bytes::BytesMut"); b.fields[("g", "which")] = Sym(BV64(2), "u64"); b.fields[("g", "from")] = fargs[2]
            r.fields[("Ok", 0)] = b
            r.fields[("Err", 0)] = S.raw_io_error(st_)
            st_.events.append(("await", name, fargs, r))
            return [(S.poll_ready(dty, r), None)]
        return None
    ex.await_hook = await_hook
    outs = P.drive_async(ex, st, fn, [Ref(mc, (), False, "&BPTreeFileIndex<K>"), key, Sym(start, "u64"), buf])
    res.paths = len(outs)
    from .ob_blob import _check_paths

    def per_path(o, isok, payload):
        steps = [e for e in o.events if (e[0] == "call" and e[1].endswith("key_offset_serialized")) or (e[0] == "await" and "read_exact_at" in e[1])]
        cur = start
        i = 0
        while i < len(steps):
            e = steps[i]
            # a step is taken only from an offset inside the tree
            if not P.prove(ex, res, o, z3.ULT(cur, leaves), "a node is visited only at an offset below leaves_offset"):
                return False
            if e[0] == "await":
                if not P.prove(ex, res, o, z3.And(cur != tree, e[2][2].t == cur), "a non-root node is read from the file at the current offset"):
                    return False
                r_ok = ex.get_discr(o, e[3]).t == BV64(0)
                if i + 1 >= len(steps) or steps[i + 1][0] != "call":
                    if not P.prove(ex, res, o, z3.And(z3.Not(r_ok), z3.Not(isok)), "descent ends after a read only because the read failed; error returned"):
                        return False
                    P.cover(ex, res, o, z3.Not(r_ok), "node read failed")
                    return True
                if not P.prove(ex, res, o, r_ok, "a node is searched only after it was read"):
                    return False
                srch = steps[i + 1]
                i += 2
            else:
                if not P.prove(ex, res, o, cur == tree, "the in-memory root node is used exactly at tree_offset"):
                    return False
                srch = e
                i += 1
            s_ok = ex.get_discr(o, srch[3]).t == BV64(0)
            if i >= len(steps):
                # last step on this path
                nxt = ex._get_field(o, srch[3], "Ok", 0, "u64").t
                if not P.prove(ex, res, o, z3.Implies(z3.Not(s_ok), z3.Not(isok)), "node search error is returned"):
                    return False
                if not P.prove(ex, res, o, z3.Implies(isok, z3.And(s_ok, z3.UGE(nxt, leaves))), "the descent stops only at an offset that is not below leaves_offset"):
                    return False
                roff = payload.fields[("Ok", 0)].fields[(None, 1)].t if ("Ok", 0) in payload.fields else None
                if roff is not None and not P.prove(ex, res, o, z3.Implies(isok, roff == nxt), "the offset returned is the one the last node gave"):
                    return False
                P.cover(ex, res, o, z3.And(isok, nxt == leaves, z3.BoolVal(len(steps) >= 3)), "two levels, ends exactly at the first leaf")
                return True
            if not P.prove(ex, res, o, s_ok, "the descent goes on only after a successful node search"):
                return False
            cur = ex._get_field(o, srch[3], "Ok", 0, "u64").t
        # no step at all
        roff = payload.fields[("Ok", 0)].fields[(None, 1)].t if ("Ok", 0) in payload.fields else None
        if not P.prove(ex, res, o, z3.And(isok, z3.UGE(start, leaves), roff == start if roff is not None else z3.BoolVal(True)), "no node visited only when the start offset already is a leaf offset"):
            return False
        P.cover(ex, res, o, isok, "start offset is already a leaf")
        return True

    _check_paths(ex, res, outs, per_path)
    return P.finish(ex, res, ["two levels, ends exactly at the first leaf", "node read failed", "start offset is already a leaf"])


def go_right_file_run(crate, R=3):
    """C09: BPTreeFileIndex::go_right_file: record headers are read one by one from the given file offset, each whole
    record inside the leaves region; the ones carrying the run's key are collected in file order; the scan stops at the
    first record of another key or at the end of the leaves region (never beyond it); read / decode errors are returned."""
    res = P.ObResult("go_right_file_run[<=%d records]" % R)
    fn = crate.method("BPTreeFileIndex", "go_right_file")
    res.functions = ["BPTreeFileIndex::go_right_file (async body)"]
    RHS = 60
    res.bounds = "record header size %d (concrete), <= %d records read (loop unwound %d times, longer runs dropped), arbitrary offsets / records count (< 2^32)" % (RHS, R, R + 1)
    from .ob_blob import _check_paths

    def h_keycmp(ex_, st_, frame, t, nf, args, dty):
        i = len([e for e in st_.events if e[0] == "keycmp"])
        same = z3.Bool("same_key_%d" % i)
        st_.events.append(("keycmp", nf, same, None))
        return [(Sym(same if nf.endswith("::eq") else z3.Not(same), "bool"), None)]

    def h_deser(ex_, st_, frame, t, nf, args, dty):
        r = ex_.fresh(dty, st_, "hdr")
        st_.events.append(("decode", "bincode::deserialize", None, r))
        return [(r, None)]
    def h_chunks_exact(ex_, st_, frame, t, nf, args, dty):
        """[u8]::chunks_exact(n) over a modelled byte buffer (file range): consecutive n-byte sub-ranges"""
        from .ob_record import mk_buf
        from . import iters as IT
        b = S.deref_val(ex_, st_, args[0])
        n = z3.simplify(args[1].t)
        if not (isinstance(b, Obj) and ("g", "len") in b.fields and z3.is_bv_value(n) and n.as_long() > 0):
            raise Unsupported("chunks_exact on an unmodelled slice / symbolic chunk size")
        n = n.as_long()
        ln, off = b.fields[("g", "len")].t, b.fields[("g", "off")].t
        slots = []
        for k in range(0, 4096 // n + 1):
            sub = mk_buf(BV64(n), off + BV64(k * n))
            slots.append((z3.ULE(BV64((k + 1) * n), ln), Ref(st_.new_cell(sub), (), False, "&[u8]")))
        return [(IT.IterV(slots, "&[u8]", True, z3.UDiv(ln, BV64(n))), None)]
    ex = P.mk_executor(crate, cap=R + 2, loop_bound=R + 1, inline=[],
                       extra_summaries=[(r"^<\[u8\] as PartialEq>::(eq|ne)$", h_keycmp), (r"^bincode::deserialize$", h_deser),
                                        (r"^core::slice::(<impl[^>]*>::)?chunks_exact$", h_chunks_exact)],
                       havoc=[r"^(bytes::)?BytesMut::zeroed$", r"^<BytesMut as Deref>::deref$"])
    ex.unwind_assume = True
    ex.await_hook = S.tag_reads_hook
    st = State()
    me = Obj("bptree::core::BPTreeFileIndex<K>")
    hdr = Obj("blob::index::header::IndexHeader")
    rc = z3.BitVec("records_count", 64)
    hdr.fields[(None, crate.field_index("IndexHeader", "record_header_size"))] = Sym(BV64(RHS), "usize")
    hdr.fields[(None, crate.field_index("IndexHeader", "records_count"))] = Sym(rc, "usize")
    me.fields[(None, crate.field_index("BPTreeFileIndex", "header"))] = hdr
    meta = Obj("bptree::meta::TreeMeta")
    leaves = z3.BitVec("leaves_offset", 64)
    meta.fields[(None, crate.field_index("TreeMeta", "leaves_offset"))] = Sym(leaves, "u64")
    me.fields[(None, crate.field_index("BPTreeFileIndex", "metadata"))] = meta
    mc = st.new_cell(me)
    off0 = z3.BitVec("start_offset", 64)
    st.pc.append(z3.And(z3.ULT(rc, BV64(1 << 20)), z3.ULT(leaves, BV64(1 << 32)), z3.ULT(off0, BV64(1 << 34))))
    headers = VecV(P.HEADER_TY, R + 2, Sym(BV64(1), "usize"), [P.mk_header(crate, "hit")] + [None] * (R + 1))
    hc = st.new_cell(headers)
    outs = P.drive_async(ex, st, fn, [Ref(mc, (), False, "&BPTreeFileIndex<K>"), Ref(hc, (), True, "&mut Vec<Header>"), Sym(off0, "u64")])
    res.paths = len(outs)
    end = leaves + BV64(RHS) * rc

    def per_path(o, isok, payload):
        reads = [e for e in o.events if e[0] == "await" and "read_exact_at" in e[1]]
        cmps = [e[2] for e in o.events if e[0] == "keycmp"]
        for j, e in enumerate(reads):
            off = e[2][2].t
            if not P.prove(ex, res, o, z3.And(off == off0 + BV64(RHS * j), z3.ULE(off + BV64(RHS), end)), "read %d: the next whole record, inside the leaves region" % j):
                return False
        for j in range(len(cmps) - 1):
            if not P.prove(ex, res, o, cmps[j], "the scan goes on only past records of the run's key"):
                return False
        hv = o.mem[hc]
        npush = sum([z3.If(c, BV64(1), BV64(0)) for c in cmps], BV64(0)) if cmps else BV64(0)
        if not P.prove(ex, res, o, z3.Implies(isok, hv.len.t == BV64(1) + npush), "every record of the run's key is collected, the first other key is not"):
            return False
        if len(cmps) == len(reads):
            # ended normally: by another key, or because the next record would not fit in the leaves region
            last_other = z3.Not(cmps[-1]) if cmps else z3.BoolVal(False)
            fits = z3.ULE(off0 + BV64(RHS * (len(reads) + 1)), end)
            if not P.prove(ex, res, o, z3.Implies(isok, z3.Or(last_other, z3.Not(fits))), "the scan ends only at another key or at the end of the leaves region"):
                return False
        P.cover(ex, res, o, z3.And(isok, z3.BoolVal(len(reads) >= 2), z3.And(cmps) if cmps else z3.BoolVal(False)), "run reaches the end of the leaves region")
        P.cover(ex, res, o, z3.And(isok, z3.BoolVal(len(reads) >= 2), z3.Not(cmps[-1]) if cmps else z3.BoolVal(False)), "run ends at another key")
        P.cover(ex, res, o, z3.Not(isok), "read or decode error")
        return True

    _check_paths(ex, res, outs, per_path)
    return P.finish(ex, res, ["run reaches the end of the leaves region", "run ends at another key", "read or decode error"])


def node_fits_block(crate):
    """C09: the fan-out limit of inner nodes (HeaderStage::max_nonleaf_node_capacity) never lets a serialized node exceed
    BLOCK_SIZE: Node::serialized_size_with_keys(key_size, capacity - 1) <= BLOCK_SIZE for every key size — the reader
    fetches exactly one block per node, a longer node would be cut (out-of-range panic or garbage offsets on lookups)."""
    res = P.ObResult("node_fits_block")
    cap_fn = crate.method("HeaderStage", "max_nonleaf_node_capacity")
    size_fn = crate.method("Node", "serialized_size_with_keys")
    res.functions = ["HeaderStage::max_nonleaf_node_capacity", "Node::serialized_size_with_keys"]
    res.bounds = "key size 1..=2048 bytes (symbolic), NodeMeta size from bincode taken as its actual value 8 (one u64 field), BLOCK_SIZE from the source"
    block = None
    for k, v in crate.consts.items():
        if k.split("::")[-1] == "BLOCK_SIZE" and v[0] == "lit":
            m = re.match(r"^(?:const )?(\d+)", str(v[2]))
            if m:
                block = int(m.group(1).replace("_", ""))
    if block is None:
        raise Unsupported("BLOCK_SIZE constant not found")
    ks = z3.BitVec("key_size", 64)

    def call_hook(ex_, st_, cname, args, dty):
        if cname == "NodeMeta::serialized_size_default":
            r = Obj(dty); r.discr = Sym(BV64(0), "isize"); r.fields[("Ok", 0)] = Sym(BV64(8), "u64")
            return [(r, None)]
        return None
    ex = P.mk_executor(crate, cap=2, loop_bound=4, inline=[])
    ex.call_hook = call_hook
    st = State()
    st.pc.append(z3.And(z3.UGE(ks, BV64(1)), z3.ULE(ks, BV64(2048))))
    ex.push_frame(st, cap_fn, [Sym(ks, "usize")], None, None)
    outs = ex.run(st)
    res.paths = len(outs)
    for o in outs:
        if o.status in ("infeasible", "unwind"):
            continue
        if o.status != "returned":
            if not P.prove(ex, res, o, z3.BoolVal(False), "no panic in max_nonleaf_node_capacity (%s)" % o.note):
                return P.finish(ex, res, [])
            continue
        cap = o.result.t
        o.status = "running"
        if not P.prove(ex, res, o, z3.UGE(cap, BV64(2)), "an inner node can hold at least two children"):
            return P.finish(ex, res, [])
        ex.push_frame(o, size_fn, [Sym(ks, "usize"), Sym(cap - 1, "usize")], None, None)
        for o2 in ex.run(o):
            if o2.status in ("infeasible", "unwind"):
                continue
            if o2.status != "returned":
                if not P.prove(ex, res, o2, z3.BoolVal(False), "no panic in serialized_size_with_keys (%s)" % o2.note):
                    return P.finish(ex, res, [])
                continue
            r = o2.result
            ok = ex.get_discr(o2, r).t == BV64(0)
            sz = ex._get_field(o2, r, "Ok", 0, "u64").t
            if not P.prove(ex, res, o2, z3.And(ok, z3.ULE(sz, BV64(block))), "a node with the maximal number of children fits into one block"):
                return P.finish(ex, res, [])
            # and the limit is tight: one more child would not fit (the capacity is not needlessly small)
            P.cover(ex, res, o2, z3.UGT(sz + ks + BV64(8), BV64(block)), "capacity is maximal for some key size")
            P.cover(ex, res, o2, sz == BV64(block), "a full node fills the block exactly for some key size")
    return P.finish(ex, res, ["capacity is maximal for some key size"])


def read_headers_file_order(crate, NL=2, NR=2):
    """C09/C02: BPTreeFileIndex::read_headers (all versions of a key from the index file): the result is the run of the
    key's records in FILE order - the records go_left collected (walking backwards from the hit) reversed, then the hit,
    then what go_right collected - the order the in-memory index gives (from_records_order, get_all_mem); None iff the key
    is not in the leaf; errors of the read and of the walks are returned."""
    res = P.ObResult("read_headers_file_order[<=%d left, <=%d right]" % (NL, NR))
    fn = crate.method("BPTreeFileIndex", "read_headers")
    res.functions = ["BPTreeFileIndex::read_headers (async body)"]
    res.bounds = "0..%d records found to the left and 0..%d to the right of the hit (one run per pair); read_header_buf / go_left / go_right replaced by their contracts (leaf_search, go_right_continues, go_right_file_run)" % (NL, NR)
    from .ob_blob import _check_paths
    from .ob_record import BYTES_SUMMARIES, mk_buf

    IDS = {"hit": 100}
    for k in range(1, NL + 1):
        IDS["l%d" % k] = 100 - k          # ids = position in the file relative to the hit
    for k in range(1, NR + 1):
        IDS["r%d" % k] = 100 + k
    NAMES = {v: k for k, v in IDS.items()}
    hfi = P.record_header_fields(crate)

    def hdr(tag):
        h = P.mk_header(crate, "rec_" + tag)
        h.fields[("ghost", "pos")] = Sym(BV64(IDS[tag]), "u64")
        return h

    def ts_of(tag):
        return z3.BitVec("rec_%s_ts" % tag, 64)
    tq = ts = 0
    for nl in range(NL + 1):
        for nr in range(NR + 1):
            ex = P.mk_executor(crate, cap=NL + NR + 3, loop_bound=NL + NR + 3, inline=[], extra_summaries=BYTES_SUMMARIES,
                               havoc=[r"^BPTreeFileIndex::leaf_node_buf_size$", r"^Header::key$", r"^<K as AsRef<\[u8\]>>::as_ref$"])
            st = State()
            me = Obj("bptree::core::BPTreeFileIndex<K>")
            mc = st.new_cell(me)
            st.pc.append(z3.ULE(z3.BitVec("hv_leaf_buf", 64), BV64(4096)))
            order = ["l%d" % k for k in range(nl, 0, -1)] + ["hit"] + ["r%d" % k for k in range(1, nr + 1)]
            for a_, b_ in zip(order, order[1:]):      # the run is stored in rank order (from_records_order): newest first
                st.pc.append(z3.UGE(ts_of(a_), ts_of(b_)))

            def call_hook(ex_, st_, cname, args, dty):
                if cname == "BPTreeFileIndex::leaf_node_buf_size":
                    return [(Sym(z3.BitVec("hv_leaf_buf", 64), "usize"), None)]
                if cname == "BPTreeFileIndex::read_header_buf":
                    r = Obj(dty)
                    r.discr = Sym(z3.If(z3.Bool("search_ok"), BV64(0), BV64(1)), "isize")
                    opt = Obj(S.generic_args(dty)[0])
                    opt.discr = Sym(z3.If(z3.Bool("key_in_leaf"), BV64(1), BV64(0)), "isize")
                    tup = Obj("(Header, usize)")
                    tup.fields[(None, 0)] = hdr("hit")
                    tup.fields[(None, 1)] = Sym(z3.BitVec("hit_offset", 64), "usize")
                    opt.fields[("Some", 0)] = tup
                    r.fields[("Ok", 0)] = opt
                    st_.events.append(("call", cname, args, r))
                    return [(r, None)]
                return None
            ex.call_hook = call_hook

            def await_hook(ex_, st_, name, fargs, out_ty, dty, _nl=nl, _nr=nr):
                if "read_exact_at" in name:
                    okv = z3.Bool(fresh_name("read_ok"))
                    r = Obj(out_ty); r.discr = Sym(z3.If(okv, BV64(0), BV64(1)), "isize")
                    r.fields[("Ok", 0)] = mk_buf(z3.BitVec("hv_leaf_buf", 64), fargs[2].t, "leaf")
                    r.fields[("Err", 0)] = S.raw_io_error(st_)
                    st_.events.append(("await", name, fargs, r))
                    return [(S.poll_ready(dty, r), None)]
                walk = "left" if name.endswith("go_left") else "right" if name.endswith("go_right") else None
                if walk:
                    vr = [a for a in fargs if isinstance(a, Ref) and "Vec" in (a.ty or "")]
                    if len(vr) != 1:
                        raise Unsupported("%s: result vector argument" % name)
                    r = S.vec_ref(ex_, st_, vr[0]); v = S.as_vec(ex_, st_, r)
                    n0 = z3.simplify(v.len.t)
                    if not z3.is_bv_value(n0):
                        raise Unsupported("walk over a vector of symbolic length")
                    n0 = n0.as_long()
                    st_.events.append(("walk", walk, [True if isinstance(hh, Obj) and ("ghost", "pos") in hh.fields else None for hh in v.elems[:n0]], None))
                    new = list(v.elems)
                    for k in range(_nl if walk == "left" else _nr):
                        new[n0 + k] = hdr("%s%d" % (walk[0], k + 1))
                    ex_.write_path(st_, r.cell, r.proj, VecV(v.elem_ty, v.cap, Sym(BV64(n0 + (_nl if walk == "left" else _nr)), "usize"), new))
                    okv = z3.Bool("%s_ok" % walk)
                    rr = Obj(out_ty); rr.discr = Sym(z3.If(okv, BV64(0), BV64(1)), "isize"); rr.fields[("Ok", 0)] = UNIT
                    st_.events.append(("await", name, fargs, rr))
                    return [(S.poll_ready(dty, rr), None)]
                return None
            ex.await_hook = await_hook
            key = Ref(st.new_cell(Obj("K")), (), False, "&K")
            outs = P.drive_async(ex, st, fn, [Ref(mc, (), False, "&BPTreeFileIndex<K>"), Sym(z3.BitVec("leaf_offset", 64), "u64"), key, mk_buf(BV64(0), None, "scratch")])
            res.paths += len(outs)
            want = ["l%d" % k for k in range(nl, 0, -1)] + ["hit"] + ["r%d" % k for k in range(1, nr + 1)]

            def per_path(o, isok, payload):
                found = z3.And(z3.Bool("search_ok"), z3.Bool("key_in_leaf"))
                opt = payload.fields.get(("Ok", 0)) if isinstance(payload, Obj) else None
                if opt is None:
                    return True
                some = ex.get_discr(o, opt).t == BV64(1)
                if not P.prove(ex, res, o, z3.Implies(isok, some == z3.Bool("key_in_leaf")), "Some iff the key is in the leaf"):
                    return False
                if not ex.feasible(o, z3.And(isok, some)):
                    P.cover(ex, res, o, z3.And(isok, z3.Not(some)), "key absent")
                    return True
                v = opt.fields.get(("Some", 0))
                if isinstance(v, Ref):
                    v = S.deref_val(ex, o, v)
                if not isinstance(v, VecV):
                    res.status = "inconclusive"; res.detail = "result vector not modelled"; return False
                if not P.prove(ex, res, o, z3.Implies(z3.And(isok, some), v.len.t == BV64(len(want))), "all %d collected records are returned" % len(want)):
                    return False
                for i, w in enumerate(want):
                    e = v.elems[i]
                    g = e.fields.get(("ghost", "pos")) if isinstance(e, Obj) else None
                    if g is None:
                        res.status = "violated"; res.detail = "entry %d of the result is not a record of the run" % i; return False
                    if not P.prove(ex, res, o, z3.Implies(z3.And(isok, some), g.t == BV64(IDS[w])),
                                   "entry %d of the result is %s (file order %s, %d left / %d right of the hit)" % (i, w, want, nl, nr)):
                        return False
                for w in [e for e in o.events if e[0] == "walk" and e[1] == "right"]:
                    if not w[2] or w[2][0] is None:
                        res.status = "violated"; res.detail = "go_right starts from an empty vector (it compares with headers[0])"; return False
                P.cover(ex, res, o, z3.And(isok, some), "run of %d+1+%d" % (nl, nr))
                return True
            if not _check_paths(ex, res, outs, per_path):
                res.queries, res.solver_s = tq + ex.queries, ts + ex.solver_s
                return P.finish(ex, res, [])
            tq += ex.queries; ts += ex.solver_s
    r = P.finish(ex, res, ["key absent", "run of %d+1+%d" % (NL, NR), "run of 0+1+0"])
    r.queries, r.solver_s = tq, ts
    return r
