"""Obligations on the delete fan-out (Storage::delete_in_closed / delete_in_active / delete_core) — C02."""
import re, copy
import z3
from .symex import State, Sym, Obj, VecV, Ref, FnItem, FutureV, UNIT, Unsupported, fresh_name
from . import pearl as P
from . import summaries as S
from . import iters as IT
from .pearl import BV64
from .ob_blob import _check_paths, _ev_result_ok, idx


def eval_multi(ex, st, f, call_args, width):
    """Evaluate closure `f` on args on a scratch copy of the state, all returning paths; integer result merged into one
    term (ite over the paths' own conditions).  Panicking paths must be infeasible (checked by the caller's claims)."""
    s2 = st.fork()
    s2.frames = []
    body, is_closure = S.closure_body(ex, f)
    from . import mirparse as MP
    MP.parse_body(body)
    args = [copy.deepcopy(a) for a in call_args]
    if is_closure:
        env_ty = body.args[0][1]
        fv = copy.deepcopy(f)
        if env_ty.startswith("&"):
            args = [Ref(s2.new_cell(fv), (), True, env_ty)] + args
        else:
            args = [fv] + args
    ex.push_frame(s2, body, args, None, None)
    outs = ex.run(s2)
    val = None
    for o in outs:
        if o.status in ("infeasible", "unwind"):
            continue
        extra = z3.And(list(o.pc[len(st.pc):])) if len(o.pc) > len(st.pc) else z3.BoolVal(True)
        if o.status != "returned":
            if ex.feasible(st, extra):
                raise Unsupported("closure %s can panic (%s)" % (body.name[-40:], o.note))
            continue
        t = o.result.t
        val = t if val is None else z3.If(extra, t, val)
    if val is None:
        raise Unsupported("closure %s has no returning path" % body.name[-40:])
    return val


def delete_in_closed_counts(crate, B=3):
    """C02: Storage::delete_in_closed: every closed blob is asked exactly once to delete the key with
    only_if_presented = true (a marker goes only where the key is live), with the caller's timestamp; the result is the
    number of blobs whose delete reported `deleted`; a blob whose delete failed counts 0 and does not fail the call."""
    res = P.ObResult("delete_in_closed_counts[B<=%d]" % B)
    fn = crate.method("Storage", "delete_in_closed")
    res.functions = ["Storage::delete_in_closed (async body) + its three closures"]
    res.bounds = "0..%d closed blobs (one run per count), every outcome of each blob's delete" % B
    DR = None
    total_paths = 0
    for n in range(B + 1):
        ex = P.mk_executor(crate, cap=B + 1, loop_bound=B + 3, inline=[])
        st = State()
        safe = Obj("storage::core::Safe<K>")
        sc = st.new_cell(safe)
        blob_cells = [st.new_cell(Obj("blob::core::Blob<K>")) for _ in range(n)]
        ts_arg = z3.BitVec("delete_timestamp", 64)
        ts = Obj("storage::core::BlobRecordTimestamp"); ts.fields[(None, 0)] = Sym(ts_arg, "u64")

        def call_hook(ex_, st_, cname, args, dty, _cells=blob_cells):
            if cname == "HierarchicalFilters::iter_mut":
                slots = [(z3.BoolVal(True), Ref(c, (), True, "&mut blob::core::Blob<K>")) for c in _cells]
                it = IT.IterV(slots, "&mut Blob<K>", True, BV64(len(_cells)))
                st_.events.append(("call", cname, args, it))
                return [(it, None)]
            return None
        ex.call_hook = call_hook

        def h_stream_map(ex_, st_, frame, t, nf, args, dty):
            o = Obj(dty); o.tag = ("stream_map", args[0], args[1])
            return [(o, None)]

        def h_stream_fold(ex_, st_, frame, t, nf, args, dty):
            return [(FutureV("stream_fold", [args[0], args[1], args[2]], None, "stream_fold"), None)]
        ex.summaries.insert(0, (re.compile(r"^<.* as tokio_stream::StreamExt>::map$"), h_stream_map))
        ex.summaries.insert(0, (re.compile(r"^<.* as tokio_stream::StreamExt>::fold$"), h_stream_fold))
        results = []

        def await_hook(ex_, st_, name, fargs, out_ty, dty):
            if name != "stream_fold":
                return None
            mapped, init, fold_f = fargs
            if not (isinstance(mapped, Obj) and mapped.tag and mapped.tag[0] == "stream_map"):
                raise Unsupported("fold over %r" % (mapped,))
            sobj, map_f = mapped.tag[1], mapped.tag[2]
            sobj = S.deref_val(ex_, st_, sobj) if isinstance(sobj, Ref) else sobj
            if not (isinstance(sobj, Obj) and sobj.tag and sobj.tag[0] == "stream"):
                raise Unsupported("map over %r" % (sobj,))
            it = sobj.tag[1]
            acc = init.t
            for g, fut in it.slots:
                if not isinstance(fut, FutureV):
                    raise Unsupported("stream item %r" % (fut,))
                r = ex_.fresh("std::result::Result<blob::core::DeleteResult, anyhow::Error>", st_, "del")
                # materialise what the closures look at before they get (deep) copies of the value
                dres0 = ex_._get_field(st_, r, "Ok", 0, "blob::core::DeleteResult")
                ex_._get_field(st_, dres0, None, crate.field_index("DeleteResult", "deleted"), "bool")
                st_.events.append(("await", fut.callee, fut.args, r))
                results.append(r)
                m = eval_multi(ex_, st_, map_f, [r], 32)
                acc = eval_multi(ex_, st_, fold_f, [Sym(acc, "i32"), Sym(m, "i32")], 32)
            return [(S.poll_ready(dty, Sym(acc, "i32")), None)]
        ex.await_hook = await_hook
        key = Ref(st.new_cell(Obj("K")), (), False, "&K")
        meta = Obj("std::option::Option<record::record::Meta>")
        outs = P.drive_async(ex, st, fn, [Ref(sc, (), False, "&storage::core::Safe<K>"), key, ts, meta])
        total_paths += len(outs)

        def per_path(o, isok, payload, _n=n):
            dels = [e for e in o.events if e[0] == "await" and e[1].endswith("Blob::delete")]
            if len(dels) != _n:
                res.status = "violated"; res.detail = "%d closed blobs, %d delete calls awaited" % (_n, len(dels)); return False
            seen = set()
            for e in dels:
                a = e[2]
                target = a[0]
                if not isinstance(target, Ref) or target.cell in seen:
                    res.status = "violated"; res.detail = "a closed blob is asked twice (or not by reference)"; return False
                seen.add(target.cell)
                oip = a[4]
                if not P.prove(ex, res, o, oip.t == z3.BoolVal(True) if z3.is_bool(oip.t) else oip.t != 0,
                               "closed blobs are deleted from only if the key is present there (only_if_presented = true)"):
                    return False
                tsv = a[2]
                tsv = tsv.fields[(None, 0)] if isinstance(tsv, Obj) else tsv
                if not P.prove(ex, res, o, tsv.t == ts_arg, "the caller's timestamp is passed to every blob"):
                    return False
            if not P.prove(ex, res, o, isok, "per-blob failures do not fail the call"):
                return False
            tot = payload.fields[("Ok", 0)].t
            exp = BV64(0)
            any_fail = z3.BoolVal(False)
            for e in dels:
                r = e[3]
                r_ok = ex.get_discr(o, r).t == BV64(0)
                dres = ex._get_field(o, r, "Ok", 0, "blob::core::DeleteResult")
                deleted = ex._get_field(o, dres, None, crate.field_index("DeleteResult", "deleted"), "bool").t
                exp = exp + z3.If(z3.And(r_ok, deleted), BV64(1), BV64(0))
                any_fail = z3.Or(any_fail, z3.Not(r_ok))
            if not P.prove(ex, res, o, tot == exp, "result = number of blobs that reported a deletion"):
                return False
            if _n >= 2:
                P.cover(ex, res, o, z3.And(tot == BV64(1), any_fail), "one blob marked, another failed")
            if _n == B:
                P.cover(ex, res, o, tot == BV64(B), "every blob marked")
            if _n == 0:
                P.cover(ex, res, o, tot == BV64(0), "no closed blobs")
            return True
        _check_paths(ex, res, outs, per_path)
        if res.status != "holds":
            break
        if n < B:
            res.queries_acc = getattr(res, "queries_acc", 0) + ex.queries
            res.solver_acc = getattr(res, "solver_acc", 0.0) + ex.solver_s
    res.paths = total_paths
    r = P.finish(ex, res, ["one blob marked, another failed", "every blob marked", "no closed blobs"])
    r.queries += getattr(res, "queries_acc", 0)
    r.solver_s += getattr(res, "solver_acc", 0.0)
    return r


def delete_core_sum(crate):
    """C02: Storage::delete_core: result = (1 if the active blob reported a deletion) + (number reported by the closed
    blobs); the active blob is handled first and its error fails the call before any closed blob is touched; the
    caller's only_if_presented flag goes to the active blob only; when closed blobs were marked a deferred index dump
    is requested."""
    res = P.ObResult("delete_core_sum")
    fn = crate.method("Storage", "delete_core")
    res.functions = ["Storage::delete_core (async body) + closure"]
    res.bounds = "single call, every outcome of delete_in_active / delete_in_closed, arbitrary counts (< 2^40)"
    ex = P.mk_executor(crate, cap=2, loop_bound=4, inline=[], havoc=[r"^<.* as Clone>::clone$"])
    st = State()
    storage = Obj("storage::core::Storage<K>")
    sc = st.new_cell(storage)
    safe = Ref(st.new_cell(Obj("storage::core::Safe<K>")), (), False, "&storage::core::Safe<K>")
    key = Ref(st.new_cell(Obj("K")), (), False, "&K")
    ts = Obj("storage::core::BlobRecordTimestamp"); ts.fields[(None, 0)] = Sym(z3.BitVec("delete_timestamp", 64), "u64")
    oip = z3.Bool("only_if_presented")

    def hook(ex_, st_, name, fargs, out_ty, dty):
        if name.endswith("delete_in_closed"):
            r = ex_.fresh(out_ty, st_, "closed")
            st_.pc.append(z3.ULT(ex_._get_field(st_, r, "Ok", 0, "u64").t, BV64(1 << 40)))
            st_.events.append(("await", name, fargs, r))
            return [(S.poll_ready(dty, r), None)]
        if name.endswith("delete_in_active"):
            r = ex_.fresh(out_ty, st_, "active")
            opt = ex_._get_field(st_, r, "Ok", 0, "Option<DeleteResult>")
            dr = ex_._get_field(st_, opt, "Some", 0, "blob::core::DeleteResult")
            ex_._get_field(st_, dr, None, crate.field_index("DeleteResult", "deleted"), "bool")
            st_.events.append(("await", name, fargs, r))
            return [(S.poll_ready(dty, r), None)]
        return None
    ex.await_hook = hook
    meta = Obj("std::option::Option<record::record::Meta>")
    outs = P.drive_async(ex, st, fn, [Ref(sc, (), False, "&storage::core::Storage<K>"), safe, key, ts, meta, Sym(oip, "bool")])
    res.paths = len(outs)

    def per_path(o, isok, payload):
        evs = P.events_of(o)
        names = [e[1] for e in evs]
        ia = idx(names, "delete_in_active")
        ic = idx(names, "delete_in_closed")
        idump = idx(names, "defer_dump_old_blob_indexes")
        if ia is None:
            return P.prove(ex, res, o, z3.Not(isok), "Ok => the active blob was handled")
        a = evs[ia][3]
        a_ok = ex.get_discr(o, a).t == BV64(0)
        flag = evs[ia][2][4]
        if not P.prove(ex, res, o, flag.t == oip, "the caller's only_if_presented flag is passed to the active blob"):
            return False
        if ic is None:
            if not P.prove(ex, res, o, z3.And(z3.Not(a_ok), z3.Not(isok)), "closed blobs skipped only because the active blob's delete failed; error returned"):
                return False
            P.cover(ex, res, o, z3.Not(a_ok), "active blob failed")
            return True
        if not (ia < ic):
            res.status = "violated"; res.detail = "closed blobs are handled before the active blob"; return False
        c = evs[ic][3]
        c_ok = ex.get_discr(o, c).t == BV64(0)
        if not P.prove(ex, res, o, a_ok, "closed blobs are touched only after the active blob succeeded"):
            return False
        if not P.prove(ex, res, o, isok == c_ok, "Ok iff the closed-blob pass succeeded"):
            return False
        opt = ex._get_field(o, a, "Ok", 0, "Option<DeleteResult>")
        some = ex.get_discr(o, opt).t == BV64(1)
        dr = ex._get_field(o, opt, "Some", 0, "blob::core::DeleteResult")
        deleted = ex._get_field(o, dr, None, crate.field_index("DeleteResult", "deleted"), "bool").t
        nclosed = ex._get_field(o, c, "Ok", 0, "u64").t
        tot = payload.fields[("Ok", 0)].t if ("Ok", 0) in payload.fields else None
        if tot is not None:
            if not P.prove(ex, res, o, z3.Implies(isok, tot == nclosed + z3.If(z3.And(some, deleted), BV64(1), BV64(0))),
                           "result = markers in the active blob (0/1) + markers in closed blobs"):
                return False
            P.cover(ex, res, o, z3.And(isok, some, deleted, z3.UGT(nclosed, BV64(1))), "active and several closed blobs marked")
            P.cover(ex, res, o, z3.And(isok, z3.Not(some), nclosed == BV64(0)), "nothing marked, no active blob")
        if not P.prove(ex, res, o, z3.Implies(z3.And(c_ok, z3.UGT(nclosed, BV64(0))), z3.BoolVal(idump is not None)),
                       "closed blobs marked => deferred index dump requested"):
            return False
        return True

    _check_paths(ex, res, outs, per_path)
    return P.finish(ex, res, ["active blob failed", "active and several closed blobs marked", "nothing marked, no active blob"])


def delete_in_active_flag(crate):
    """C02: Storage::delete_in_active: with an active blob its delete is called once with the caller's flag and timestamp and
    its result (or error) is returned; without one (only possible with only_if_presented) nothing is written: Ok(None)."""
    res = P.ObResult("delete_in_active_flag")
    fn = crate.method("Storage", "delete_in_active")
    res.functions = ["Storage::delete_in_active (async body)"]
    res.bounds = "single call, active blob present or absent, every outcome of Blob::delete"
    ex = P.mk_executor(crate, cap=2, loop_bound=4, inline=[])
    st = State()
    safe = Obj("storage::core::Safe<K>")
    ab = Obj("std::option::Option<std::boxed::Box<async_lock::RwLock<blob::core::Blob<K>>>>")
    act = z3.BitVec("active_present", 64)
    st.pc.append(z3.Or(act == BV64(0), act == BV64(1)))
    ab.discr = Sym(act, "isize")
    lock = Obj("async_lock::RwLock<blob::core::Blob<K>>")
    bc = st.new_cell(lock)
    ab.fields[("Some", 0)] = Ref(bc, (), True, "Box<async_lock::RwLock<blob::core::Blob<K>>>")
    safe.fields[(None, crate.field_index("Safe", "active_blob"))] = ab
    sc = st.new_cell(safe)
    key = Ref(st.new_cell(Obj("K")), (), False, "&K")
    tsv = z3.BitVec("delete_timestamp", 64)
    ts = Obj("storage::core::BlobRecordTimestamp"); ts.fields[(None, 0)] = Sym(tsv, "u64")
    oip = z3.Bool("only_if_presented")
    meta = Obj("std::option::Option<record::record::Meta>")
    outs = P.drive_async(ex, st, fn, [Ref(sc, (), False, "&storage::core::Safe<K>"), key, ts, meta, Sym(oip, "bool")])
    res.paths = len(outs)
    saw = {"panic": False}
    for o in outs:
        if o.status == "panic":
            # the documented precondition: a plain delete needs an active blob
            if not P.prove(ex, res, o, z3.And(z3.Not(oip), act == BV64(0)), "panics only for a plain delete without an active blob (documented assert)"):
                return P.finish(ex, res, [])
            saw["panic"] = True
    outs = [o for o in outs if o.status != "panic"]

    def per_path(o, isok, payload):
        dels = [e for e in P.events_of(o) if e[0] == "await" and e[1].endswith("Blob::delete")]
        if not P.prove(ex, res, o, z3.BoolVal(len(dels) <= 1), "at most one delete"):
            return False
        if not dels:
            if not P.prove(ex, res, o, z3.And(act == BV64(0), isok), "no active blob: nothing written, Ok"):
                return False
            opt = payload.fields.get(("Ok", 0))
            if opt is not None and not P.prove(ex, res, o, ex.get_discr(o, opt).t == BV64(0), "no active blob: Ok(None)"):
                return False
            P.cover(ex, res, o, oip, "only-if-presented delete without an active blob")
            return True
        a = dels[0][2]
        t = a[2].fields[(None, 0)] if isinstance(a[2], Obj) else a[2]
        if not P.prove(ex, res, o, z3.And(act == BV64(1), a[4].t == oip, t.t == tsv), "active blob's delete gets the caller's flag and timestamp"):
            return False
        r = dels[0][3]
        r_ok = ex.get_discr(o, r).t == BV64(0)
        if not P.prove(ex, res, o, isok == r_ok, "the blob's result (or error) is returned"):
            return False
        opt = payload.fields.get(("Ok", 0))
        if opt is not None:
            if not P.prove(ex, res, o, z3.Implies(isok, ex.get_discr(o, opt).t == BV64(1)), "Ok(Some(result))"):
                return False
        P.cover(ex, res, o, z3.And(isok, z3.Not(oip)), "plain delete into the active blob")
        P.cover(ex, res, o, z3.Not(isok), "active blob's delete failed")
        return True

    _check_paths(ex, res, outs, per_path)
    return P.finish(ex, res, ["only-if-presented delete without an active blob", "plain delete into the active blob", "active blob's delete failed"])


def delete_entry_glue(crate):
    """C02: Storage::delete_with_optional_meta (behind delete / delete_with): exactly one delete_core runs, with the
    caller's timestamp and only_if_presented flag; an unconditional delete (flag false) on a storage without an active blob
    first makes sure one exists (its failure fails the call) so the marker has a place to go; the result is delete_core's."""
    res = P.ObResult("delete_entry_glue")
    fn = crate.method("Storage", "delete_with_optional_meta")
    res.functions = ["Storage::delete_with_optional_meta (async body)"]
    res.bounds = "one call, active blob present or not, either flag, every outcome of the callees"
    ex = P.mk_executor(crate, cap=2, loop_bound=3, inline=[], havoc=[r"^<impl AsRef<K> as AsRef<K>>::as_ref$", r"^<impl AsRef as AsRef<K>>::as_ref$"])
    st = State()
    sc = st.new_cell(Obj("storage::core::Storage<K>"))
    oip = z3.Bool("only_if_presented")
    tsv = z3.BitVec("delete_timestamp", 64)
    ts = Obj("storage::core::BlobRecordTimestamp"); ts.fields[(None, 0)] = Sym(tsv, "u64")
    ai = crate.field_index("Safe", "active_blob")

    def hook(ex_, st_, name, fargs, out_ty, dty):
        if name.endswith("delete_core") or name.endswith("ensure_active_blob_exists"):
            r = ex_.fresh(out_ty, st_, "r")
            probe = None
            if name.endswith("delete_core"):
                safe = S.deref_val(ex_, st_, fargs[1])
                ab = safe.fields.get((None, ai)) if isinstance(safe, Obj) else None
                probe = ex_.get_discr(st_, ab).t if isinstance(ab, Obj) else None
            st_.events.append(("await", name, fargs + [probe], r))
            return [(S.poll_ready(dty, r), None)]
        return None
    ex.await_hook = hook
    outs = P.drive_async(ex, st, fn, [Ref(sc, (), False, "&storage::core::Storage<K>"), Obj("impl AsRef<K>"), ts, Obj("std::option::Option<record::record::Meta>"), Sym(oip, "bool")])
    res.paths = len(outs)

    def per_path(o, isok, payload):
        evs = P.events_of(o)
        cores = [e for e in evs if e[1].endswith("delete_core")]
        ens = [e for e in evs if e[1].endswith("ensure_active_blob_exists")]
        if len(cores) > 1:
            res.status = "violated"; res.detail = "delete_core runs %d times for one delete" % len(cores); return False
        if not cores:
            if not P.prove(ex, res, o, z3.Not(isok), "Ok => delete_core ran"):
                return False
            if len(ens) != 1 or not P.prove(ex, res, o, ex.get_discr(o, ens[0][3]).t == BV64(1), "delete_core skipped only because creating the active blob failed"):
                if res.status == "holds":
                    res.status = "violated"; res.detail = "delete returns without delete_core and without a failed callee"
                return False
            P.cover(ex, res, o, z3.Not(isok), "active blob could not be created")
            return True
        c = cores[0]
        a = c[2]
        tsa = a[3].fields.get((None, 0)) if isinstance(a[3], Obj) else None
        if tsa is None or not P.prove(ex, res, o, z3.And(tsa.t == tsv, a[5].t == oip), "delete_core gets the caller's timestamp and flag"):
            if res.status == "holds":
                res.status = "violated"; res.detail = "delete_core does not get the caller's timestamp"
            return False
        if not P.prove(ex, res, o, isok == (ex.get_discr(o, c[3]).t == BV64(0)), "the result is delete_core's"):
            return False
        has_active = a[-1]
        if has_active is not None and not ens:
            if not P.prove(ex, res, o, z3.Or(oip, has_active == BV64(1)), "unconditional delete without an active blob: one is created first"):
                return False
        if ens:
            if evs.index(ens[0]) > evs.index(c):
                res.status = "violated"; res.detail = "active blob ensured after delete_core"; return False
            if not P.prove(ex, res, o, z3.Not(oip), "the active blob is created only for an unconditional delete"):
                return False
            P.cover(ex, res, o, isok, "active blob created, then deleted")
        P.cover(ex, res, o, z3.And(isok, oip), "conditional delete")
        return True
    _check_paths(ex, res, outs, per_path)
    return P.finish(ex, res, ["active blob could not be created", "active blob created, then deleted", "conditional delete"])
