import sys, time; sys.path.insert(0,'/verif')
from mir2smt import pearl as P
import importlib
def run(modname, fn, **kw):
    t=time.time()
    import os; D=os.environ.get('MIR_DIR','/var/tmp/pearl-verif/mir'); crate=P.Crate(open(D+'/pearl.mir').read(), D+'/src')
    mod=importlib.import_module('mir2smt.'+modname)
    try:
        P.CURRENT_OB='%s.%s'%(modname,fn); del P.ALL_EXECUTORS[:]
        r=getattr(mod, fn)(crate, **kw)
        print('opaque', sorted(set().union(*[e.opaque_seen for e in P.ALL_EXECUTORS])))
        print(r.name, r.status, r.detail, "paths", r.paths, "queries", r.queries, "solver_s", round(r.solver_s,2), "wall", round(time.time()-t,1))
        print("covers", r.covers); print("summ", r.summaries); print("havoc", r.havoc); print("inl", r.inlined)
        if r.model is not None: print(r.model)
        return r
    except Exception as e:
        import traceback; traceback.print_exc()
if __name__=="__main__":
    kw={}
    for a in sys.argv[3:]:
        k,v=a.split("="); kw[k]=int(v)
    run(sys.argv[1], sys.argv[2], **kw)
