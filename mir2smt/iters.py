"""Iterator model for Engine M.  An iterator value is an IterV: a *finite, bounded* sequence of (guard, item)
slots in iteration order plus a symbolic cursor.  Adapters with pure closures (map / take_while / rev / cloned /
enumerate / filter) produce new slot lists; consumers (position / count / any / all / find / last / fold / collect)
are unrolled over the slots.  Slots are 'dense' when guards are prefix-closed (slice, map, take_while, rev, take):
only dense iterators can be collected into a Vec or stepped with next()."""
import copy, re
import z3
from .symex import Sym, Obj, VecV, Ref, FnItem, UNIT, Unsupported, fresh_name, generic_args, base_type
from . import summaries as S

BV64 = S.BV64


class IterV:
    ty = "iter"

    def __init__(self, slots, item_ty="?", dense=True, count=None):
        self.slots = slots          # list of (guard: z3 Bool, item: Value)
        self.item_ty = item_ty
        self.dense = dense
        self.cursor = BV64(0)       # number of items already yielded from the front (dense only)
        self.count = count          # z3 term: number of valid slots (dense only)

    def __repr__(self):
        return "IterV[%d slots]" % len(self.slots)


def _get_iter(ex, st, v):
    where = None
    n = 0
    while isinstance(v, Ref):
        where = v
        v = ex.read_path(st, v.cell, v.proj)
        n += 1
        if n > 6:
            break
    if isinstance(v, Obj) and re.search(r"(^|::)Range(::)?<", v.ty or "") and (None, 0) in v.fields and (None, 1) in v.fields \
            and isinstance(v.fields[(None, 0)], Sym) and isinstance(v.fields[(None, 1)], Sym):
        # a Range used directly as an iterator (`(a..b).map(..)`): dense iterator over a, a+1, .. (up to the executor's cap)
        lo, hi = v.fields[(None, 0)], v.fields[(None, 1)]
        cap = getattr(ex, "cap", 4) + 1
        cnt = z3.If(z3.ULT(lo.t, hi.t), hi.t - lo.t, z3.BitVecVal(0, lo.t.size()))
        if ex.feasible(st, z3.UGT(cnt, z3.BitVecVal(cap, lo.t.size()))):
            raise Unsupported("range longer than the modelled capacity %d" % cap)
        slots = [(z3.ULT(z3.BitVecVal(k, lo.t.size()), cnt), Sym(lo.t + z3.BitVecVal(k, lo.t.size()), lo.ty)) for k in range(cap)]
        cnt64 = cnt if cnt.size() == 64 else z3.ZeroExt(64 - cnt.size(), cnt)
        v = IterV(slots, lo.ty, True, cnt64)
    if not isinstance(v, IterV):
        raise Unsupported("expected iterator, got %r" % (v,))
    return v, where


def slice_iter(ex, st, r, by_value=False):
    v = S.as_vec(ex, st, r)
    slots = []
    cn = S._conc(v.len.t)
    for k in range(v.cap if cn is None else cn):
        g = z3.ULT(BV64(k), v.len.t)
        if by_value:
            item = ex._elem(st, v, k)
        else:
            item = Ref(r.cell, tuple(r.proj) + (("index", BV64(k)),), r.mut, "&" + v.elem_ty)
        slots.append((g, item))
    return IterV(slots, v.elem_ty, True, v.len.t)


def h_slice_iter(ex, st, frame, t, nf, args, dty):
    r = S.vec_ref(ex, st, args[0])
    return [(slice_iter(ex, st, r), None)]


def h_into_iter(ex, st, frame, t, nf, args, dty):
    a = args[0]
    if isinstance(a, IterV):
        return [(a, None)]
    if isinstance(a, VecV):
        c = st.new_cell(a)
        return [(slice_iter(ex, st, Ref(c, (), True, "Vec"), by_value=True), None)]
    if isinstance(a, Ref):
        tgt = ex.read_path(st, a.cell, a.proj)
        if isinstance(tgt, IterV):
            return [(a, None)]
        r = S.vec_ref(ex, st, a)
        return [(slice_iter(ex, st, r), None)]
    if isinstance(a, Obj) and a.tag and a.tag[0] == "range":
        return [(range_iter(a), None)]
    raise Unsupported("into_iter of %r" % (a,))


def range_iter(o, cap=None):
    lo, hi = o.tag[1], o.tag[2]
    raise Unsupported("range iteration")


def _pure(ex, st, f, item):
    return S.eval_pure(ex, st, f, [item])


def h_map(ex, st, frame, t, nf, args, dty):
    it, _ = _get_iter(ex, st, args[0])
    f = args[1]
    slots = [(g, _pure(ex, st, f, x)) for g, x in it.slots]
    return [(IterV(slots, "?", it.dense, it.count), None)]


def h_rev(ex, st, frame, t, nf, args, dty):
    it, _ = _get_iter(ex, st, args[0])
    if not it.dense:
        raise Unsupported("rev of sparse iterator")
    n = it.count
    cap = len(it.slots)
    slots = []
    for k in range(cap):
        item = None
        for j in range(cap - 1, -1, -1):
            item = it.slots[j][1] if item is None else ex.ite(n - 1 - BV64(k) == BV64(j), it.slots[j][1], item)
        slots.append((z3.ULT(BV64(k), n), item))
    return [(IterV(slots, it.item_ty, True, n), None)]


def h_cloned(ex, st, frame, t, nf, args, dty):
    it, _ = _get_iter(ex, st, args[0])
    slots = [(g, copy.deepcopy(S.deref_val(ex, st, x))) for g, x in it.slots]
    return [(IterV(slots, it.item_ty, it.dense, it.count), None)]


def h_take_while(ex, st, frame, t, nf, args, dty):
    it, _ = _get_iter(ex, st, args[0])
    f = args[1]
    slots = []
    alive = z3.BoolVal(True)
    cnt = BV64(0)
    for g, x in it.slots:
        c = st.new_cell(x)
        p = _pure(ex, st, f, Ref(c, (), False, "&?"))
        alive = z3.And(alive, g, p.t)
        slots.append((alive, x))
        cnt = cnt + z3.If(alive, BV64(1), BV64(0))
    return [(IterV(slots, it.item_ty, True, cnt), None)]


def h_filter(ex, st, frame, t, nf, args, dty):
    it, _ = _get_iter(ex, st, args[0])
    f = args[1]
    slots = []
    for g, x in it.slots:
        c = st.new_cell(x)
        p = _pure(ex, st, f, Ref(c, (), False, "&?"))
        slots.append((z3.And(g, p.t), x))
    return [(IterV(slots, it.item_ty, False, None), None)]


def h_flatten(ex, st, frame, t, nf, args, dty):
    """flatten over an iterator of Option<T> / &Option<T> items"""
    it, _ = _get_iter(ex, st, args[0])
    slots = []
    for g, x in it.slots:
        o = x
        ref = None
        if isinstance(o, Ref):
            ref = S.vec_ref_any(ex, st, o)
            o = ex.read_path(st, ref.cell, ref.proj)
        if not isinstance(o, Obj):
            raise Unsupported("flatten over %r" % (o,))
        is_some = ex.get_discr(st, o).t == BV64(1)
        if ref is not None:
            item = Ref(ref.cell, tuple(ref.proj) + (("downcast", "Some"), ("field", 0, "?")), ref.mut, "&?")
        else:
            item = ex._get_field(st, o, "Some", 0, "?")
        slots.append((z3.And(g, is_some), item))
    return [(IterV(slots, "?", False, None), None)]


def h_enumerate(ex, st, frame, t, nf, args, dty):
    it, _ = _get_iter(ex, st, args[0])
    if not it.dense:
        raise Unsupported("enumerate of sparse iterator")
    slots = []
    for k, (g, x) in enumerate(it.slots):
        o = Obj("(usize, T)")
        o.fields[(None, 0)] = Sym(BV64(k), "usize")
        o.fields[(None, 1)] = x
        slots.append((g, o))
    return [(IterV(slots, "?", True, it.count), None)]


def h_count(ex, st, frame, t, nf, args, dty):
    it, _ = _get_iter(ex, st, args[0])
    c = BV64(0)
    for g, x in it.slots:
        c = c + z3.If(g, BV64(1), BV64(0))
    return [(Sym(c, "usize"), None)]


def h_position(ex, st, frame, t, nf, args, dty):
    it, _ = _get_iter(ex, st, args[0])
    if not it.dense:
        raise Unsupported("position on sparse iterator")
    f = args[1]
    hits = []
    for g, x in it.slots:
        p = _pure(ex, st, f, x)
        hits.append(z3.And(g, p.t))
    found = z3.Or(hits) if hits else z3.BoolVal(False)
    idx = BV64(0)
    for k in range(len(hits) - 1, -1, -1):
        idx = z3.If(hits[k], BV64(k), idx)
    return [(S.some(Sym(idx, "usize"), dty), found), (S.none(dty), z3.Not(found))]


def h_rposition(ex, st, frame, t, nf, args, dty):
    it, _ = _get_iter(ex, st, args[0])
    if not it.dense:
        raise Unsupported("rposition on sparse iterator")
    f = args[1]
    hits = []
    for g, x in it.slots:
        p = _pure(ex, st, f, x)
        hits.append(z3.And(g, p.t))
    found = z3.Or(hits) if hits else z3.BoolVal(False)
    idx = BV64(0)
    for k in range(len(hits)):
        idx = z3.If(hits[k], BV64(k), idx)
    return [(S.some(Sym(idx, "usize"), dty), found), (S.none(dty), z3.Not(found))]


def h_any_all(ex, st, frame, t, nf, args, dty):
    it, _ = _get_iter(ex, st, args[0])
    f = args[1]
    is_any = nf.endswith("::any")
    terms = []
    for g, x in it.slots:
        p = _pure(ex, st, f, x)
        terms.append(z3.And(g, p.t) if is_any else z3.Implies(g, p.t))
    r = (z3.Or(terms) if terms else z3.BoolVal(False)) if is_any else (z3.And(terms) if terms else z3.BoolVal(True))
    return [(Sym(r, "bool"), None)]


def h_find(ex, st, frame, t, nf, args, dty):
    it, _ = _get_iter(ex, st, args[0])
    f = args[1]
    hits = []
    for g, x in it.slots:
        c = st.new_cell(x)
        p = _pure(ex, st, f, Ref(c, (), False, "&?"))
        hits.append(z3.And(g, p.t))
    found = z3.Or(hits) if hits else z3.BoolVal(False)
    item = None
    for k in range(len(hits) - 1, -1, -1):
        item = it.slots[k][1] if item is None else ex.ite(hits[k], it.slots[k][1], item)
    alts = [(S.none(dty), z3.Not(found))]
    if item is not None:
        alts.append((S.some(item, dty), found))
    return alts


def h_last(ex, st, frame, t, nf, args, dty):
    it, _ = _get_iter(ex, st, args[0])
    anyv = z3.Or([g for g, _ in it.slots]) if it.slots else z3.BoolVal(False)
    item = None
    for g, x in it.slots:
        item = x if item is None else ex.ite(g, x, item)
    alts = [(S.none(dty), z3.Not(anyv))]
    if item is not None:
        alts.append((S.some(item, dty), anyv))
    return alts


def h_next(ex, st, frame, t, nf, args, dty):
    it, where = _get_iter(ex, st, args[0])
    if not it.dense:
        raise Unsupported("next on sparse iterator")
    cur = it.cursor
    has = z3.ULT(cur, it.count)
    item = None
    for k in range(len(it.slots) - 1, -1, -1):
        item = it.slots[k][1] if item is None else ex.ite(cur == BV64(k), it.slots[k][1], item)
    it.cursor = z3.simplify(cur + 1)
    alts = [(S.none(dty), z3.Not(has))]
    if item is not None:
        alts.append((S.some(item, dty), has))
    return alts


def h_collect_vec(ex, st, frame, t, nf, args, dty):
    it, _ = _get_iter(ex, st, args[0])
    if re.search(r"Futures(Ordered|Unordered)<", dty):
        if not it.dense:
            raise Unsupported("stream of sparse iterator")
        o = Obj(dty)
        o.tag = ("stream", it)
        return [(o, None)]
    if not it.dense:
        raise Unsupported("collect of sparse iterator")
    ga = generic_args(dty)
    mbox = re.match(r"^(std::boxed::)?Box<\[(.*)\]>$", dty)
    if mbox:      # collect::<Box<[T]>>(): a boxed slice = reference to a heap vector (as Vec::into_boxed_slice)
        cap = max(ex.cap, len(it.slots))
        elems = [x for _, x in it.slots] + [None] * (cap - len(it.slots))
        return [(Ref(st.new_cell(VecV(mbox.group(2), cap, Sym(it.count, "usize"), elems)), (), True, dty), None)]
    if base_type(dty).split("::")[-1] != "Vec":
        raise Unsupported("collect into " + dty[:40])
    cap = max(ex.cap, len(it.slots))
    elems = [x for _, x in it.slots] + [None] * (cap - len(it.slots))
    return [(VecV(ga[0] if ga else it.item_ty, cap, Sym(it.count, "usize"), elems), None)]


def h_fold(ex, st, frame, t, nf, args, dty):
    it, _ = _get_iter(ex, st, args[0])
    acc, f = args[1], args[2]
    for g, x in it.slots:
        nxt = S.eval_pure(ex, st, f, [acc, x])
        acc = ex.ite(g, nxt, acc)
    return [(acc, None)]


def h_partition_point(ex, st, frame, t, nf, args, dty):
    """slice::partition_point: index of the first element for which pred is false, given the slice is partitioned
    (all true, then all false); unspecified in 0..=len otherwise."""
    r = S.vec_ref(ex, st, args[0])
    v = S.as_vec(ex, st, r)
    f = args[1]
    n = v.len.t
    ps = []
    for k in range(v.cap):
        er = Ref(r.cell, tuple(r.proj) + (("index", BV64(k)),), False, "&" + v.elem_ty)
        ps.append(S.eval_pure(ex, st, f, [er]).t)
    part = z3.And([z3.Implies(z3.And(z3.ULT(BV64(k + 1), n), ps[k + 1]), ps[k]) for k in range(v.cap - 1)]) if v.cap > 1 else z3.BoolVal(True)
    i = z3.BitVec(fresh_name("pp_i"), 64)
    spec = z3.And(z3.ULE(i, n), z3.And([z3.Implies(z3.ULT(BV64(k), n), ps[k] == z3.ULT(BV64(k), i)) for k in range(v.cap)]))
    st.pc.append(z3.If(part, spec, z3.ULE(i, n)))
    return [(Sym(i, "usize"), None)]


def h_stream_next(ex, st, frame, t, nf, args, dty):
    r = S.vec_ref_any(ex, st, args[0])
    from .symex import FutureV
    return [(FutureV("stream_next", [r], None, "stream_next"), None)]


def stream_poll(ex, st, fut, out_ty, dty):
    """poll of `stream.next()`: the next queued future completes (its output is arbitrary) or the stream is exhausted.
    FuturesOrdered yields outputs in push order."""
    sobj = S.deref_val(ex, st, fut.args[0])
    if not (isinstance(sobj, Obj) and sobj.tag and sobj.tag[0] == "stream"):
        raise Unsupported("stream_next on %r" % (sobj,))
    it = sobj.tag[1]
    cur = it.cursor
    has = z3.ULT(cur, it.count)
    from .symex import generic_args
    ga = generic_args(out_ty)
    item_ty = ga[0] if ga else "?"
    alts = [(S.poll_ready(dty, S.none(out_ty)), z3.Not(has))]
    if ex.feasible(st, has):
        k = z3.simplify(cur)
        pos = k.as_long() if z3.is_bv_value(k) else None
        name = "stream item"
        fargs = [Sym(cur, "usize")]
        if pos is not None and pos < len(it.slots):
            f = it.slots[pos][1]
            name = getattr(f, "callee", "stream item")
        it.cursor = z3.simplify(cur + 1)   # only observable on the `has` alternative (the other one ends the loop)
        hook = getattr(ex, "await_hook", None)
        v = None
        if hook is not None:
            sub_dty = "Poll<%s>" % item_ty
            n_ev = len(st.events)
            r = hook(ex, st, name, fargs, item_ty, sub_dty)
            if r is not None:
                if len(r) != 1 or r[0][1] is not None:
                    raise Unsupported("stream item hook must give a single Ready value")
                v = r[0][0].fields[("Ready", 0)]
                # the hook logged its own event on st: move it to the `has` alternative only
                ev = st.events[n_ev:]
                del st.events[n_ev:]
                if len(ev) == 1:
                    alts.append((("event_then", ev[0], S.poll_ready(dty, S.some(v, out_ty))), has))
                    return alts
        if v is None:
            v = ex.fresh(item_ty, st, "item")
        alts.append((("event_then", ("await", name, fargs, v), S.poll_ready(dty, S.some(v, out_ty))), has))
    return alts


def h_range_into_iter(ex, st, frame, t, nf, args, dty):
    return [(args[0], None)]


def h_range_next(ex, st, frame, t, nf, args, dty):
    """<Range<uN> as Iterator>::next(&mut r): start < end ? Some(start++) : None"""
    r = args[0]
    rng = ex.read_path(st, r.cell, r.proj)
    if not isinstance(rng, Obj):
        raise Unsupported("Range::next on %r" % (rng,))
    ga = generic_args(dty)
    ity = ga[0] if ga else "usize"
    start = ex._get_field(st, rng, None, 0, ity)
    end = ex._get_field(st, rng, None, 1, ity)
    has = z3.ULT(start.t, end.t)
    nxt = copy.copy(rng)
    nxt.fields = dict(rng.fields)
    nxt.fields[(None, 0)] = Sym(start.t + 1, start.ty)
    return [(("write_then", r, nxt, S.some(start, dty)), has), (S.none(dty), z3.Not(has))]


ITER_SUMMARIES = [
    (r"^<(std::ops::)?Range(<\w+>)? as (\S*::)?IntoIterator>::into_iter$", h_range_into_iter),
    (r"^<(std::ops::)?Range(<\w+>)? as (\S*::)?Iterator>::next$", h_range_next),
    (r"^<.* as (\S*::)?StreamExt>::next$", h_stream_next),
    (r"^core::slice::(<impl[^>]*>::)?iter(_mut)?$", h_slice_iter),
    (r"^<.* as (\S*::)?IntoIterator>::into_iter$", h_into_iter),
    (r"^<.* as (\S*::)?Iterator>::map$", h_map),
    (r"^<.* as (DoubleEnded)?Iterator>::rev$", h_rev),
    (r"^<.* as (\S*::)?Iterator>::(cloned|copied)$", h_cloned),
    (r"^<.* as (\S*::)?Iterator>::take_while$", h_take_while),
    (r"^<.* as (\S*::)?Iterator>::filter$", h_filter),
    (r"^<.* as (\S*::)?Iterator>::enumerate$", h_enumerate),
    (r"^<.* as (\S*::)?Iterator>::flatten$", h_flatten),
    (r"^<.* as (\S*::)?Iterator>::count$", h_count),
    (r"^<.* as (\S*::)?Iterator>::position$", h_position),
    (r"^<.* as (DoubleEnded)?Iterator>::rposition$", h_rposition),
    (r"^<.* as (\S*::)?Iterator>::(any|all)$", h_any_all),
    (r"^<.* as (\S*::)?Iterator>::find$", h_find),
    (r"^<.* as (\S*::)?Iterator>::last$", h_last),
    (r"^<.* as (\S*::)?Iterator>::next$", h_next),
    (r"^<.* as (\S*::)?Iterator>::collect$", h_collect_vec),
    (r"^<.* as (\S*::)?Iterator>::fold$", h_fold),
    (r"^core::slice::(<impl[^>]*>::)?partition_point$", h_partition_point),
]
