"""Small obligations the mutation sweep asked for (C02, C07, C12, C15)."""
import re
import z3
from .symex import State, Sym, Obj, VecV, Ref, FutureV, UNIT, Unsupported, fresh_name
from . import pearl as P
from . import summaries as S
from . import iters as IT
from .pearl import BV64
from .ob_blob import _check_paths, idx


def read_all_drops_marker(crate, L=3):
    """C02: Storage::read_all = read_all_with_deletion_marker without the trailing deletion marker: if the last entry is a
    marker exactly that one entry is dropped, otherwise the list is returned unchanged; errors pass through."""
    res = P.ObResult("read_all_drops_marker[L<=%d]" % L)
    fn = crate.method("Storage", "read_all")
    res.functions = ["Storage::read_all (async body)"]
    res.bounds = "<= %d entries returned by read_all_with_deletion_marker, arbitrary flags" % L
    ex = P.mk_executor(crate, cap=L, loop_bound=4, inline=[])
    st = State()
    sc = st.new_cell(Obj("storage::core::Storage<K>"))
    n = z3.BitVec("entries", 64)
    st.pc.append(z3.ULE(n, BV64(L)))
    dels = [z3.Bool("entry_%d_is_marker" % i) for i in range(L)]
    ents = []
    for i in range(L):
        e = Obj("blob::entry::Entry"); e.fields[("ghost", "n")] = Sym(BV64(i), "u64")
        ents.append(e)

    def await_hook(ex_, st_, name, fargs, out_ty, dty):
        if name.endswith("read_all_with_deletion_marker"):
            r = ex_.fresh(out_ty, st_, "list")
            r.fields[("Ok", 0)] = VecV("blob::entry::Entry", L, Sym(n, "usize"), list(ents))
            st_.events.append(("await", name, fargs, r))
            return [(S.poll_ready(dty, r), None)]
        return None
    ex.await_hook = await_hook

    def call_hook(ex_, st_, cname, args, dty):
        if cname == "Entry::is_deleted":
            e = S.deref_val(ex_, st_, args[0])
            t = e.fields.get(("ghost", "n"))
            if t is None:
                raise Unsupported("entry without identity")
            i = z3.simplify(t.t)
            if z3.is_bv_value(i):
                return [(Sym(dels[i.as_long()], "bool"), None)]
            v = dels[-1]
            for j in range(L - 2, -1, -1):
                v = z3.If(t.t == BV64(j), dels[j], v)
            return [(Sym(v, "bool"), None)]
        return None
    ex.call_hook = call_hook
    key = Obj("impl AsRef<K>")
    outs = P.drive_async(ex, st, fn, [Ref(sc, (), False, "&storage::core::Storage<K>"), key])
    res.paths = len(outs)

    def per_path(o, isok, payload):
        src = [e for e in P.events_of(o) if e[0] == "await" and e[1].endswith("read_all_with_deletion_marker")]
        if len(src) != 1:
            res.status = "violated"; res.detail = "source list read %d times" % len(src); return False
        s_ok = ex.get_discr(o, src[0][3]).t == BV64(0)
        if not P.prove(ex, res, o, isok == s_ok, "errors pass through"):
            return False
        v = payload.fields.get(("Ok", 0))
        if isinstance(v, VecV):
            last_del = z3.BoolVal(False)
            for i in range(L):
                last_del = z3.If(n == BV64(i + 1), dels[i], last_del)
            if not P.prove(ex, res, o, z3.Implies(isok, v.len.t == z3.If(last_del, n - 1, n)), "exactly the trailing marker is dropped"):
                return False
            for i in range(L):
                e = v.elems[i]
                if e is None:
                    continue
                t = e.fields.get(("ghost", "n")) if isinstance(e, Obj) else None
                if t is None or z3.simplify(t.t).as_long() != i:
                    if ex.feasible(o, z3.And(isok, z3.ULT(BV64(i), v.len.t))):
                        res.status = "violated"; res.detail = "entry %d of the result is not entry %d of the source" % (i, i); return False
            P.cover(ex, res, o, z3.And(isok, last_del, n == BV64(L)), "marker dropped from a full list")
            P.cover(ex, res, o, z3.And(isok, z3.Not(last_del), n == BV64(L)), "no marker: unchanged")
            P.cover(ex, res, o, z3.And(isok, n == BV64(0)), "empty")
        return True
    _check_paths(ex, res, outs, per_path)
    return P.finish(ex, res, ["marker dropped from a full list", "no marker: unchanged", "empty"])


def blobs_count_sum(crate):
    """C15: Storage::blobs_count = number of closed blobs (HierarchicalFilters::len) + 1 iff an active blob exists."""
    res = P.ObResult("blobs_count_sum")
    fn = crate.method("Storage", "blobs_count")
    res.functions = ["Storage::blobs_count (async body)"]
    res.bounds = "arbitrary closed-blob count (< 2^40), active blob present or absent"
    ex = P.mk_executor(crate, cap=2, loop_bound=4, inline=[])
    st = State()
    storage = Obj("storage::core::Storage<K>")
    inner = Obj("storage::core::Inner<K>")
    safe = Obj("storage::core::Safe<K>")
    ab = Obj("std::option::Option<std::boxed::Box<async_lock::RwLock<blob::core::Blob<K>>>>")
    act = z3.BitVec("active_present", 64)
    st.pc.append(z3.Or(act == BV64(0), act == BV64(1)))
    ab.discr = Sym(act, "isize")
    safe.fields[(None, crate.field_index("Safe", "active_blob"))] = ab
    slock = Obj("tokio::sync::RwLock<storage::core::Safe<K>>")
    slock.fields[(None, 7000)] = safe
    inner.fields[(None, crate.field_index("Inner", "safe"))] = slock
    arc = Obj("std::sync::Arc<storage::core::Inner<K>>")
    arc.fields[(None, 7001)] = Ref(st.new_cell(inner), (), True, "&storage::core::Inner<K>")
    storage.fields[(None, crate.field_index("Storage", "inner"))] = arc
    sc = st.new_cell(storage)
    closed = z3.BitVec("closed_blobs", 64)
    st.pc.append(z3.ULT(closed, BV64(1 << 40)))

    def call_hook(ex_, st_, cname, args, dty):
        if cname == "HierarchicalFilters::len":
            return [(Sym(closed, "usize"), None)]
        return None
    ex.call_hook = call_hook
    body = crate.closure0(fn)
    P.start_coroutine(ex, st, body, [Ref(sc, (), False, "&storage::core::Storage<K>")])
    outs = ex.run(st)
    res.paths = len(outs)
    for o in outs:
        if o.status in ("infeasible", "unwind"):
            continue
        if o.status != "returned":
            if not P.prove(ex, res, o, z3.BoolVal(False), "no panic (%s)" % o.note):
                break
            continue
        ready, payload = P.poll_payload(ex, o, o.result)
        if not P.prove(ex, res, o, z3.Implies(ready, payload.t == closed + z3.If(act == BV64(1), BV64(1), BV64(0))), "blobs_count = closed blobs + (1 if an active blob exists)"):
            break
        P.cover(ex, res, o, z3.And(ready, act == BV64(1)), "with an active blob")
        P.cover(ex, res, o, z3.And(ready, act == BV64(0)), "without an active blob")
    return P.finish(ex, res, ["with an active blob", "without an active blob"])


def clean_file_rules(crate):
    """C07: index::tools::clean_file: an existing file is truncated (File::create) only when recreate_index_file is set;
    without it an existing file makes the call fail untouched; a missing file is Ok with nothing created."""
    res = P.ObResult("clean_file_rules")
    fn = crate.find(r"(^|::)clean_file$")
    res.functions = ["blob::index::tools::clean_file"]
    res.bounds = "file present or absent, flag on or off, creation may fail"
    exists = z3.Bool("file_exists")

    def h_exists(ex_, st_, frame, t, nf, args, dty):
        return [(Sym(exists, "bool"), None)]

    def h_create(ex_, st_, frame, t, nf, args, dty):
        r = ex_.fresh(dty, st_, "created")
        st_.events.append(("call", "File::create", args, r))
        return [(r, None)]
    ex = P.mk_executor(crate, cap=2, loop_bound=4, inline=[],
                       extra_summaries=[(r"^(std::path::)?Path::exists$", h_exists), (r"^(std::fs::)?File::create$", h_create)],
                       havoc=[r"^<impl AsRef<(std::path::)?Path> as AsRef<(std::path::)?Path>>::as_ref$", r"^<impl AsRef as AsRef<(std::path::)?Path>>::as_ref$",
                              r"^std::result::Result::<.*>::map$"])
    st = State()
    flag = z3.Bool("recreate_index_file")
    ex.push_frame(st, fn, [Obj("impl AsRef<Path>"), Sym(flag, "bool")], None, None)
    outs = ex.run(st)
    res.paths = len(outs)
    for o in outs:
        if o.status in ("infeasible", "unwind"):
            continue
        if o.status != "returned":
            if not P.prove(ex, res, o, z3.BoolVal(False), "no panic (%s)" % o.note):
                break
            continue
        isok = ex.get_discr(o, o.result).t == BV64(0)
        creates = [e for e in o.events if e[0] == "call" and e[1] == "File::create"]
        if not P.prove(ex, res, o, z3.Implies(z3.BoolVal(bool(creates)), z3.And(exists, flag)), "a file is truncated only if it exists and re-creation is allowed"):
            break
        if not P.prove(ex, res, o, z3.Implies(z3.And(exists, z3.Not(flag)), z3.Not(isok)), "existing file without the flag: refused"):
            break
        if not P.prove(ex, res, o, z3.Implies(z3.Not(exists), isok), "missing file: Ok"):
            break
        if creates:
            c_ok = ex.get_discr(o, creates[0][3]).t == BV64(0)
            if not P.prove(ex, res, o, isok == c_ok, "the outcome of the truncation is returned"):
                break
            P.cover(ex, res, o, isok, "re-created")
        P.cover(ex, res, o, z3.And(exists, z3.Not(flag)), "refused")
        P.cover(ex, res, o, z3.Not(exists), "nothing to clean")
    return P.finish(ex, res, ["re-created", "refused", "nothing to clean"])


def fsync_trigger_rules(crate):
    """C12: Inner::should_try_fsync(dirty) = dirty > limit AND no sync in flight; ObserverWorker::try_run_fsync_task starts a
    background sync task (returns true) unless the previous one is still running (returns false, nothing spawned)."""
    res = P.ObResult("fsync_trigger_rules")
    f1 = crate.method("Inner", "should_try_fsync")
    f2 = crate.method("ObserverWorker", "try_run_fsync_task")
    res.functions = ["Inner::should_try_fsync", "Inner::too_many_dirty_bytes", "ObserverWorker::try_run_fsync_task (async body)"]
    res.bounds = "all dirty-byte / limit values, flag set or clear; previous task absent / running / finished"
    limit = z3.BitVec("max_dirty_bytes_before_sync", 64)
    ex = P.mk_executor(crate, cap=2, loop_bound=4, inline=[r"^Inner::(too_many_dirty_bytes|config)$"])

    def call_hook(ex_, st_, cname, args, dty):
        if cname == "Config::max_dirty_bytes_before_sync":
            return [(Sym(limit, "u64"), None)]
        return None
    ex.call_hook = call_hook
    st = State()
    inner = Obj("storage::core::Inner<K>")
    flag = Obj("std::sync::atomic::AtomicBool")
    f0 = z3.Bool("sync_in_flight")
    flag.fields[(None, 7002)] = Sym(f0, "bool")
    inner.fields[(None, crate.field_index("Inner", "fsync_in_progress"))] = flag
    ic = st.new_cell(inner)
    dirty = z3.BitVec("dirty_bytes", 64)
    ex.push_frame(st, f1, [Ref(ic, (), False, "&storage::core::Inner<K>"), Sym(dirty, "u64")], None, None)
    outs = ex.run(st)
    res.paths = len(outs)
    for o in outs:
        if o.status in ("infeasible", "unwind"):
            continue
        if o.status != "returned":
            P.prove(ex, res, o, z3.BoolVal(False), "no panic (%s)" % o.note)
            return P.finish(ex, res, [])
        if not P.prove(ex, res, o, o.result.t == z3.And(z3.UGT(dirty, limit), z3.Not(f0)), "should_try_fsync <=> dirty > limit and no sync in flight"):
            return P.finish(ex, res, [])
        P.cover(ex, res, o, o.result.t, "sync wanted")
    # ---- try_run_fsync_task
    running = z3.Bool("previous_task_running")

    def h_map_or(ex_, st_, frame, t, nf, args, dty):
        opt = args[0]
        some = ex_.get_discr(st_, opt).t == BV64(1)
        dflt = args[1].t
        return [(Sym(z3.If(some, running, dflt), "bool"), None)]

    def h_spawn(ex_, st_, frame, t, nf, args, dty):
        h = Obj(dty)
        st_.events.append(("call", "tokio::spawn", args, h))
        return [(h, None)]
    ex2 = P.mk_executor(crate, cap=2, loop_bound=4, inline=[],
                        extra_summaries=[(r"^(std::option::)?Option::<.*>::map_or$|^(std::option::)?Option::map_or$", h_map_or), (r"^(tokio::)?(task::)?spawn$", h_spawn)])
    st2 = State()
    w = Obj("observer_worker::ObserverWorker<K>")
    ft = Obj("std::option::Option<tokio::task::JoinHandle<()>>")
    had = z3.BitVec("previous_task_present", 64)
    st2.pc.append(z3.Or(had == BV64(0), had == BV64(1)))
    ft.discr = Sym(had, "isize")
    fti = crate.field_index("ObserverWorker", "fsync_task")
    w.fields[(None, fti)] = ft
    arc = Obj("std::sync::Arc<storage::core::Inner<K>>")
    w.fields[(None, crate.field_index("ObserverWorker", "inner"))] = arc
    wc = st2.new_cell(w)
    outs2 = P.drive_async(ex2, st2, f2, [Ref(wc, (), True, "&mut ObserverWorker<K>")])
    res.paths += len(outs2)
    for o in outs2:
        if o.status in ("infeasible", "unwind"):
            continue
        if o.status != "returned":
            P.prove(ex2, res, o, z3.BoolVal(False), "no panic (%s)" % o.note)
            return P.finish(ex2, res, [])
        ready, payload = P.poll_payload(ex2, o, o.result)
        spawns = [e for e in o.events if e[0] == "call" and e[1] == "tokio::spawn"]
        busy = z3.And(had == BV64(1), running)
        if not P.prove(ex2, res, o, z3.Implies(busy, z3.And(z3.Not(payload.t), z3.BoolVal(not spawns))), "previous sync task still running: no second task, false"):
            return P.finish(ex2, res, [])
        if not P.prove(ex2, res, o, z3.Implies(z3.Not(busy), z3.And(payload.t, z3.BoolVal(len(spawns) == 1))), "otherwise exactly one task is spawned, true"):
            return P.finish(ex2, res, [])
        if spawns:
            ft2 = o.mem[wc].fields[(None, fti)]
            if not P.prove(ex2, res, o, ex2.get_discr(o, ft2).t == BV64(1), "the new task's handle is kept (so that the next request sees it)"):
                return P.finish(ex2, res, [])
        P.cover(ex2, res, o, busy, "busy")
        P.cover(ex2, res, o, z3.And(had == BV64(1), z3.Not(running)), "previous task finished: new one started")
    ex.queries += ex2.queries; ex.solver_s += ex2.solver_s
    for k in ("calls_summarised", "calls_havoc", "calls_inlined"):
        ex.stats[k].update(ex2.stats[k])
    return P.finish(ex, res, ["sync wanted", "busy", "previous task finished: new one started"])


def rawrecords_start_checks(crate):
    """C06/C17: RawRecords::start (first step of index regeneration): Ok only if the magic byte and the key length of the
    blob's first record could be read (from the bytes right after the blob header), the magic byte is the record magic and
    the key length equals the compile-time key size; the scan then starts at the first record with the header size the
    key length implies.  A blob of another key size is rejected with a validation error, not misread."""
    res = P.ObResult("rawrecords_start_checks")
    fn = crate.method("RawRecords", "start")
    res.functions = ["RawRecords::start (async body)", "RawRecords::check_record_header_magic_byte"]
    res.bounds = "arbitrary blob header size (< 2^20), key size (< 2^16), magic / key-length values read, read may fail"
    from .ob_record import BYTES_SUMMARIES, mk_buf, file_read_hook
    magic, klen = z3.BitVec("magic_read", 64), z3.BitVec("key_len_read", 64)
    which = {"n": 0}

    def h_deser(ex_, st_, frame, t, nf, args, dty):
        okv = z3.Bool(fresh_name("decode_ok"))
        r = Obj(dty)
        r.discr = Sym(z3.If(okv, BV64(0), BV64(1)), "isize")
        k = len([e for e in st_.events if e[0] == "decode"])
        r.fields[("Ok", 0)] = Sym(magic if k == 0 else klen, "u64" if k == 0 else "usize")
        st_.events.append(("decode", nf, k, r))
        return [(r, None)]

    def h_ser_size(ex_, st_, frame, t, nf, args, dty):
        r = Obj(dty); r.discr = Sym(BV64(0), "isize"); r.fields[("Ok", 0)] = Sym(BV64(8), "u64")
        return [(r, None)]

    def h_split_at(ex_, st_, frame, t, nf, args, dty):
        tup = Obj(dty)
        tup.fields[(None, 0)] = Ref(st_.new_cell(Obj("[u8]")), (), False, "&[u8]")
        tup.fields[(None, 1)] = Ref(st_.new_cell(Obj("[u8]")), (), False, "&[u8]")
        return [(tup, None)]
    ex = P.mk_executor(crate, cap=2, loop_bound=4, inline=[r"^RawRecords::check_record_header_magic_byte$"],
                       extra_summaries=[(r"^bincode::deserialize$", h_deser), (r"^bincode::serialized_size$", h_ser_size),
                                        (r"^core::slice::(<impl[^>]*>::)?split_at$", h_split_at)] + BYTES_SUMMARIES,
                       havoc=[r"^<Header as Default>::default$", r"^<record::record::Header as Default>::default$"])
    ex.await_hook = file_read_hook()
    ex.classify_reads = True
    hsize_def = z3.BitVec("default_header_serialized_size", 64)

    def call_hook(ex_, st_, cname, args, dty):
        if cname == "Header::serialized_size":
            return [(Sym(hsize_def, "u64"), None)]
        return None
    ex.call_hook = call_hook
    st = State()
    from .ob_blob import file_obj
    f, size, synced = file_obj(crate, st, "blobfile")
    bhs, ksz = z3.BitVec("blob_header_size", 64), z3.BitVec("key_size", 64)
    st.pc.append(z3.And(z3.ULT(bhs, BV64(1 << 20)), z3.ULT(ksz, BV64(1 << 16)), z3.ULT(hsize_def, BV64(1 << 16))))
    vd = z3.Bool("validate_data")
    outs = P.drive_async(ex, st, fn, [f, Sym(bhs, "u64"), Sym(ksz, "usize"), Sym(vd, "bool")])
    res.paths = len(outs)
    RMB = None
    for k, v in crate.consts.items():
        if k.split("::")[-1] == "RECORD_MAGIC_BYTE" and v[0] == "lit":
            m = re.match(r"^(?:const )?(0x[0-9a-fA-F_]+|\d[\d_]*)", str(v[2]))
            if m:
                RMB = int(m.group(1).replace("_", ""), 0)
    if RMB is None:
        raise Unsupported("RECORD_MAGIC_BYTE not found")

    def per_path(o, isok, payload):
        reads = [e for e in o.events if e[0] == "await" and "read_exact_at" in e[1]]
        decs = [e for e in o.events if e[0] == "decode"]
        if not P.prove(ex, res, o, z3.Implies(isok, z3.BoolVal(len(reads) == 1 and len(decs) == 2)), "Ok => the first record's magic byte and key length were read and decoded"):
            return False
        if reads:
            b = reads[0][3].fields[("Ok", 0)]
            if not P.prove(ex, res, o, z3.And(b.fields[("g", "off")].t == bhs, b.fields[("g", "len")].t == BV64(16)), "they are read from the 16 bytes right after the blob header"):
                return False
        if len(decs) == 2:
            d_ok = z3.And(*[ex.get_discr(o, d[3]).t == BV64(0) for d in decs])
            if not P.prove(ex, res, o, z3.Implies(isok, z3.And(d_ok, magic == BV64(RMB), klen == ksz)), "Ok => record magic byte and key length = compile-time key size"):
                return False
            rr = payload.fields.get(("Ok", 0))
            if rr is not None:
                cur = ex._get_field(o, rr, None, crate.field_index("RawRecords", "current_offset"), "u64").t
                rhs = ex._get_field(o, rr, None, crate.field_index("RawRecords", "record_header_size"), "u64").t
                v2 = ex._get_field(o, rr, None, crate.field_index("RawRecords", "validate_data"), "bool").t
                if not P.prove(ex, res, o, z3.Implies(isok, z3.And(cur == bhs, rhs == hsize_def + klen, v2 == vd)), "the scan starts at the first record with header size = fixed part + key length"):
                    return False
            P.cover(ex, res, o, isok, "accepted")
            P.cover(ex, res, o, z3.And(z3.Not(isok), d_ok, magic == BV64(RMB), klen != ksz), "other key size rejected")
        if len(decs) == 1:
            P.cover(ex, res, o, z3.And(z3.Not(isok), ex.get_discr(o, decs[0][3]).t == BV64(0), magic != BV64(RMB)), "wrong magic byte rejected")
        return True
    _check_paths(ex, res, outs, per_path)
    return P.finish(ex, res, ["accepted", "other key size rejected", "wrong magic byte rejected"])


def blob_from_file_regenerates(crate):
    """C03: Blob::from_file (opening a blob at start-up): the index file is used only when Index::from_file accepted it;
    when the index file is missing, or was rejected (any error except permission / unclassified I/O errors, which fail the
    open), the index is rebuilt by scanning the blob (try_regenerate_index) whenever the blob holds more than its header
    — in particular always after a rejected index — and a failure of that scan fails the open: a blob is never opened with
    an index that was neither validated nor rebuilt."""
    res = P.ObResult("blob_from_file_regenerates")
    fn = crate.method("Blob", "from_file")
    res.functions = ["Blob::from_file (async body) + or_else closure"]
    res.bounds = "one open, index file present/absent, every outcome of the callees, arbitrary sizes"
    exists = z3.Bool("index_file_exists")
    io_class = z3.BitVec("index_error_class", 64)      # 0: not an io::Error, 1: PermissionDenied/Other, 2: another io kind

    def h_exists(ex_, st_, frame, t, nf, args, dty):
        return [(Sym(exists, "bool"), None)]
    size, hsize = z3.BitVec("blob_file_size", 64), z3.BitVec("blob_header_size", 64)

    def h_ser_size(ex_, st_, frame, t, nf, args, dty):
        okv = z3.Bool(fresh_name("size_ok"))
        r = Obj(dty); r.discr = Sym(z3.If(okv, BV64(0), BV64(1)), "isize"); r.fields[("Ok", 0)] = Sym(hsize, "u64")
        return [(r, None)]

    def h_downcast(ex_, st_, frame, t, nf, args, dty):
        o = Obj(dty)
        o.discr = Sym(z3.If(io_class == BV64(0), BV64(0), BV64(1)), "isize")
        e = Obj("std::io::Error"); e.fields[("g", "class")] = Sym(io_class, "u64")
        o.fields[("Some", 0)] = Ref(st_.new_cell(e), (), False, "&std::io::Error")
        return [(o, None)]

    def h_kind(ex_, st_, frame, t, nf, args, dty):
        k = Obj(dty)
        EK = {"PermissionDenied": 1, "Other": 39}
        # discriminant values do not matter for the claims: class 1 = one of the two fatal kinds, class 2 = any other
        fatal = z3.Bool(fresh_name("kind_is_permission_denied"))
        k.tag = ("iokind",)
        k.fields[("g", "fatal")] = Sym(io_class == BV64(1), "bool")
        k.fields[("g", "pd")] = Sym(fatal, "bool")
        return [(k, None)]
    st = State()
    st.pc.append(z3.ULE(io_class, BV64(2)))
    ex = P.mk_executor(crate, cap=2, loop_bound=4, inline=[],
                       extra_summaries=[(r"^(file_name::)?FileName::exists$", h_exists), (r"^bincode::serialized_size$", h_ser_size),
                                        (r"^anyhow::Error::downcast_ref$|^anyhow::error::downcast_ref$|^(anyhow::)?Error::downcast_ref$", h_downcast),
                                        (r"^(std::io::)?Error::kind$|^std::io::error::Error::kind$", h_kind)],
                       havoc=[r"^(std::sync::)?Arc::new$", r"^<.* as Clone>::clone$", r"^<(std::path::)?PathBuf as (std::ops::)?Deref>::deref$",
                              r"^<(std::io::)?ErrorKind as PartialEq>::(eq|ne)$"])

    def call_hook(ex_, st_, cname, args, dty):
        if cname == "File::size":
            return [(Sym(size, "u64"), None)]
        return None
    ex.call_hook = call_hook
    raise_unsupported = False
    path = Obj("std::path::PathBuf")
    iod = Obj("io::unix::sync::IoDriver")
    cfg = Obj("blob::config::BlobConfig")
    try:
        outs = P.drive_async(ex, st, fn, [path, iod, cfg])
    except Unsupported as e:
        raise
    res.paths = len(outs)

    def per_path(o, isok, payload):
        evs = P.events_of(o)
        names = [e[1] for e in evs]
        i_idx = idx(names, "IndexStruct::from_file")
        i_new = idx(names, "IndexStruct::new")
        i_regen = idx(names, "try_regenerate_index")
        if i_idx is None:
            # index file not consulted
            if not P.prove(ex, res, o, z3.Implies(isok, z3.Not(exists)), "Ok without consulting an index file only if there is none"):
                return False
        else:
            if not P.prove(ex, res, o, exists, "an index file is opened only if it exists"):
                return False
            i_ok = ex.get_discr(o, evs[i_idx][3]).t == BV64(0)
            rejected = z3.Not(i_ok)
            if not P.prove(ex, res, o, z3.Implies(z3.And(isok, rejected), z3.BoolVal(i_regen is not None)), "a rejected index file is always followed by a rebuild from the blob"):
                return False
            if not P.prove(ex, res, o, z3.Implies(z3.And(isok, rejected), z3.BoolVal(i_new is not None)), "a rejected index is replaced by a fresh in-memory index"):
                return False
        if i_regen is not None:
            r_ok = ex.get_discr(o, evs[i_regen][3]).t == BV64(0)
            if not P.prove(ex, res, o, z3.Implies(isok, r_ok), "a failed rebuild fails the open"):
                return False
        else:
            # no rebuild: either a validated index file is used, or the blob holds nothing but its header
            valid_idx = ex.get_discr(o, evs[i_idx][3]).t == BV64(0) if i_idx is not None else z3.BoolVal(False)
            if not P.prove(ex, res, o, z3.Implies(isok, z3.Or(z3.ULE(size, hsize), valid_idx)),
                           "no rebuild only for an empty blob (nothing beyond the header)"):
                return False
            if i_idx is None and not P.prove(ex, res, o, z3.Implies(isok, z3.ULE(size, hsize)), "blob with records and no index file: rebuilt"):
                return False
        P.cover(ex, res, o, z3.And(isok, z3.BoolVal(i_idx is not None and i_regen is not None), z3.Not(ex.get_discr(o, evs[i_idx][3]).t == BV64(0)) if i_idx is not None else z3.BoolVal(False)), "rejected index, rebuilt")
        P.cover(ex, res, o, z3.And(isok, z3.Not(exists), z3.BoolVal(i_regen is not None)), "no index file, rebuilt")
        P.cover(ex, res, o, z3.And(isok, exists, z3.BoolVal(i_idx is not None), ex.get_discr(o, evs[i_idx][3]).t == BV64(0) if i_idx is not None else z3.BoolVal(False)), "valid index file used")
        return True
    _check_paths(ex, res, outs, per_path)
    return P.finish(ex, res, ["rejected index, rebuilt", "no index file, rebuilt", "valid index file used"])


def index_hash_checked(crate):
    """C03: BPTreeFileIndex::validate_header (run when an index file is loaded into memory): Ok only if the header fields
    validated AND the hash stored in the header equals the hash computed over the file image (with hash field and written
    bit reset); a mismatch is reported as a validation error, so the index is rebuilt from the blob."""
    res = P.ObResult("index_hash_checked")
    fn = crate.method("BPTreeFileIndex", "validate_header")
    res.functions = ["BPTreeFileIndex::validate_header (async body)", "BPTreeFileIndex::hash_valid"]
    res.bounds = "one call, every outcome of validate / serialisation, hashes equal or not (SHA-256 itself is outside)"
    equal = z3.Bool("stored_hash_equals_computed_hash")

    def h_vec_eq(ex_, st_, frame, t, nf, args, dty):
        st_.events.append(("hashcmp", nf, None, None))
        return [(Sym(equal if nf.endswith("::eq") else z3.Not(equal), "bool"), None)]
    ex = P.mk_executor(crate, cap=2, loop_bound=4, inline=[r"^BPTreeFileIndex::hash_valid$"],
                       extra_summaries=[(r"^<Vec(<u8>)? as PartialEq(<.*>)?>::(eq|ne)$", h_vec_eq)],
                       havoc=[r"^<.* as Clone>::clone$", r"^<\[u8\] as (std::ops::)?IndexMut<.*>>::index_mut$"])
    st = State()
    me = Obj("bptree::core::BPTreeFileIndex<K>")
    mc = st.new_cell(me)
    buf = Ref(st.new_cell(Obj("[u8]")), (), True, "&mut [u8]")
    outs = P.drive_async(ex, st, fn, [Ref(mc, (), False, "&BPTreeFileIndex<K>"), buf, Sym(z3.BitVec("blob_size", 64), "u64")])
    res.paths = len(outs)

    def per_path(o, isok, payload):
        evs = P.events_of(o)
        val = [e for e in evs if e[1].endswith("FileIndexTrait>::validate") or e[1].endswith("::validate")]
        cmps = [e for e in o.events if e[0] == "hashcmp"]
        hashes = [e for e in evs if e[1].endswith("get_hash")]
        if not P.prove(ex, res, o, z3.Implies(isok, z3.BoolVal(len(val) == 1 and len(cmps) == 1 and len(hashes) == 1)), "Ok => header fields validated, hash computed and compared"):
            return False
        if val:
            v_ok = ex.get_discr(o, val[0][3]).t == BV64(0)
            if not P.prove(ex, res, o, z3.Implies(isok, v_ok), "Ok => header fields valid"):
                return False
        if cmps:
            if not P.prove(ex, res, o, z3.Implies(isok, equal), "Ok => stored hash equals the computed hash"):
                return False
            P.cover(ex, res, o, z3.And(z3.Not(isok), z3.Not(equal)), "hash mismatch rejected")
        P.cover(ex, res, o, isok, "accepted")
        return True
    _check_paths(ex, res, outs, per_path)
    return P.finish(ex, res, ["accepted", "hash mismatch rejected"])


def _task_single_flight(crate, method, field, label):
    fn = crate.method("ObserverWorker", method)
    running = z3.Bool("previous_task_running")

    def h_map_or(ex_, st_, frame, t, nf, args, dty):
        some = ex_.get_discr(st_, args[0]).t == BV64(1)
        return [(Sym(z3.If(some, running, args[1].t), "bool"), None)]

    def h_spawn(ex_, st_, frame, t, nf, args, dty):
        h = Obj(dty)
        st_.events.append(("call", "tokio::spawn", args, h))
        return [(h, None)]
    ex = P.mk_executor(crate, cap=2, loop_bound=4, inline=[],
                       extra_summaries=[(r"^(std::option::)?Option::<.*>::map_or$|^(std::option::)?Option::map_or$", h_map_or), (r"^(tokio::)?(task::)?spawn$", h_spawn)])
    st = State()
    w = Obj("observer_worker::ObserverWorker<K>")
    ft = Obj("std::option::Option<tokio::task::JoinHandle<()>>")
    had = z3.BitVec("previous_task_present", 64)
    st.pc.append(z3.Or(had == BV64(0), had == BV64(1)))
    ft.discr = Sym(had, "isize")
    fti = crate.field_index("ObserverWorker", field)
    w.fields[(None, fti)] = ft
    w.fields[(None, crate.field_index("ObserverWorker", "inner"))] = Obj("std::sync::Arc<storage::core::Inner<K>>")
    wc = st.new_cell(w)
    outs = P.drive_async(ex, st, fn, [Ref(wc, (), True, "&mut ObserverWorker<K>")])
    return ex, outs, wc, fti, had, running


def dump_task_single_flight(crate):
    """C13/C12: ObserverWorker::try_run_old_blob_indexes_dump_task starts the background index-dump task (returns true, keeps
    its handle) unless the previous one is still running (returns false, nothing spawned) — with no previous task or a
    finished one a new task IS started, so a requested dump is never silently dropped."""
    res = P.ObResult("dump_task_single_flight")
    res.functions = ["ObserverWorker::try_run_old_blob_indexes_dump_task (async body)"]
    res.bounds = "previous task absent / running / finished"
    ex, outs, wc, fti, had, running = _task_single_flight(crate, "try_run_old_blob_indexes_dump_task", "index_dump_task", "dump")
    res.paths = len(outs)
    for o in outs:
        if o.status in ("infeasible", "unwind"):
            continue
        if o.status != "returned":
            P.prove(ex, res, o, z3.BoolVal(False), "no panic (%s)" % o.note)
            return P.finish(ex, res, [])
        ready, payload = P.poll_payload(ex, o, o.result)
        spawns = [e for e in o.events if e[0] == "call" and e[1] == "tokio::spawn"]
        busy = z3.And(had == BV64(1), running)
        if not P.prove(ex, res, o, z3.Implies(busy, z3.And(z3.Not(payload.t), z3.BoolVal(not spawns))), "previous dump task still running: no second task, false"):
            return P.finish(ex, res, [])
        if not P.prove(ex, res, o, z3.Implies(z3.Not(busy), z3.And(payload.t, z3.BoolVal(len(spawns) == 1))), "otherwise exactly one task is spawned, true"):
            return P.finish(ex, res, [])
        if spawns and not P.prove(ex, res, o, ex.get_discr(o, o.mem[wc].fields[(None, fti)]).t == BV64(1), "the new task's handle is kept"):
            return P.finish(ex, res, [])
        P.cover(ex, res, o, busy, "busy")
        P.cover(ex, res, o, z3.And(had == BV64(0), payload.t), "first task started")
    return P.finish(ex, res, ["busy", "first task started"])


def inner_new_state(crate):
    """C12/C07: Inner::new: a fresh storage starts with no sync in flight (otherwise no background sync would ever start),
    blob ids from 0 and a zero corrupted-blob count."""
    res = P.ObResult("inner_new_state")
    fn = crate.method("Inner", "new")
    res.functions = ["Inner::new"]
    res.bounds = "all inputs"
    ex = P.mk_executor(crate, cap=2, loop_bound=4, inline=[], havoc=[r"^(tokio::sync::)?RwLock::new$", r"^(tokio::sync::)?RwLock::<.*>::new$"])
    st = State()
    ex.push_frame(st, fn, [Obj("storage::config::Config"), Obj("io::unix::sync::IoDriver")], None, None)
    outs = ex.run(st)
    res.paths = len(outs)
    for o in outs:
        if o.status in ("infeasible", "unwind"):
            continue
        if o.status != "returned":
            P.prove(ex, res, o, z3.BoolVal(False), "no panic (%s)" % o.note)
            return P.finish(ex, res, [])
        inner = o.result

        def atom(name, ty):
            a = inner.fields.get((None, crate.field_index("Inner", name)))
            return ex._get_field(o, a, None, 7002, ty).t if isinstance(a, Obj) else None
        f, nb, cb = atom("fsync_in_progress", "bool"), atom("next_blob_id", "usize"), atom("corrupted_blobs", "usize")
        if f is None or nb is None or cb is None:
            res.status = "inconclusive"; res.detail = "atomic fields not constructed through the modelled constructor"; return P.finish(ex, res, [])
        if not P.prove(ex, res, o, z3.And(z3.Not(f), nb == BV64(0), cb == BV64(0)), "no sync in flight, ids from 0, no corrupted blobs"):
            return P.finish(ex, res, [])
        P.cover(ex, res, o, z3.BoolVal(True), "constructed")
    return P.finish(ex, res, ["constructed"])


def init_new_ids(crate):
    """C07/C03: Storage::init_new (empty work dir): next_blob_id ends above every id found in the corrupted-blobs directory
    before the first blob is named, the corrupted count is taken over, and an active blob is installed on success."""
    res = P.ObResult("init_new_ids")
    fn = crate.method("Storage", "init_new")
    res.functions = ["Storage::init_new (async body)"]
    res.bounds = "arbitrary counters (< 2^40), every outcome of the callees"
    ex = P.mk_executor(crate, cap=2, loop_bound=4, inline=[], havoc=[r"^Config::", r"^(async_lock::)?RwLock::(<.*>::)?new$", r"^<.* as Clone>::clone$"])
    st = State()
    storage = Obj("storage::core::Storage<K>")
    inner = Obj("storage::core::Inner<K>")
    nb = Obj("std::sync::atomic::AtomicUsize")
    nb0 = z3.BitVec("next_blob_id_before", 64)
    st.pc.append(z3.ULT(nb0, BV64(1 << 40)))
    nb.fields[(None, 7002)] = Sym(nb0, "usize")
    inner.fields[(None, crate.field_index("Inner", "next_blob_id"))] = nb
    ic = st.new_cell(inner)
    arc = Obj("std::sync::Arc<storage::core::Inner<K>>")
    arc.fields[(None, 7001)] = Ref(ic, (), True, "&storage::core::Inner<K>")
    storage.fields[(None, crate.field_index("Storage", "inner"))] = arc
    sc = st.new_cell(storage)

    def hook(ex_, st_, name, fargs, out_ty, dty):
        if "count_old_corrupted_blobs" in name:
            r = ex_.fresh(out_ty, st_, "ids")
            lim = BV64(1 << 40)
            st_.pc.append(z3.ULT(ex_._get_field(st_, r, None, 0, "usize").t, lim))
            st_.pc.append(z3.ULT(ex_._get_field(st_, ex_._get_field(st_, r, None, 1, "Option<usize>"), "Some", 0, "usize").t, lim))
            st_.events.append(("await", name, fargs, r))
            return [(S.poll_ready(dty, r), None)]
        return None
    ex.await_hook = hook

    def call_hook(ex_, st_, cname, args, dty):
        if cname == "Inner::next_blob_name":
            cur = st_.mem[ic].fields[(None, crate.field_index("Inner", "next_blob_id"))].fields[(None, 7002)].t
            r = ex_.fresh(dty, st_, "name")
            st_.events.append(("call", cname, [Sym(cur, "usize")], r))
            return [(r, None)]
        return None
    ex.call_hook = call_hook
    outs = P.drive_async(ex, st, fn, [Ref(sc, (), True, "&mut storage::core::Storage<K>")])
    res.paths = len(outs)

    def per_path(o, isok, payload):
        evs = P.events_of(o)
        cnt = [e for e in evs if e[0] == "await" and "count_old_corrupted_blobs" in e[1]]
        names = [e for e in evs if e[0] == "call" and e[1] == "Inner::next_blob_name"]
        if not cnt:
            return P.prove(ex, res, o, z3.Not(isok), "Ok => the corrupted directory was counted")
        tup = cnt[0][3]
        mx = ex._get_field(o, tup, None, 1, "Option<usize>")
        has = ex.get_discr(o, mx).t == BV64(1)
        mv = ex._get_field(o, mx, "Some", 0, "usize").t
        for e in names:
            if not P.prove(ex, res, o, z3.Implies(has, z3.UGT(e[2][0].t, mv)), "the first blob is named with an id above every quarantined id"):
                return False
        if not P.prove(ex, res, o, z3.Implies(isok, z3.BoolVal(len(names) == 1)), "Ok => a blob name was allocated"):
            return False
        final = o.mem[ic].fields[(None, crate.field_index("Inner", "next_blob_id"))].fields[(None, 7002)].t
        if not P.prove(ex, res, o, z3.Implies(has, z3.UGT(final, mv)), "next_blob_id ends above every quarantined id"):
            return False
        P.cover(ex, res, o, z3.And(isok, has), "quarantine directory not empty")
        P.cover(ex, res, o, z3.And(isok, z3.Not(has)), "no quarantined blobs")
        return True
    _check_paths(ex, res, outs, per_path)
    return P.finish(ex, res, ["quarantine directory not empty", "no quarantined blobs"])


def records_count_rows(crate, B=2):
    """C15: Safe::records_count_detailed lists one row per closed blob, in container order, as (that blob's id, that blob's
    record count), followed - if there is an active blob - by (the active blob's id, its count); Safe::records_count is
    the sum of the counts of exactly these rows.  (Guards fix 5af223e: the active row was labelled with the number of
    closed blobs.)"""
    res = P.ObResult("records_count_rows[B<=%d]" % B)
    fd = crate.method("Safe", "records_count_detailed")
    fs = crate.method("Safe", "records_count")
    res.functions = ["Safe::records_count_detailed (async body)", "Safe::records_count (async body) + fold closure"]
    res.bounds = "0..%d closed blobs (one run per count), active blob present or not, arbitrary ids and counts (< 2^40)" % B
    tq = ts = 0
    for n in range(B + 1):
        for fn in (fd, fs):
            ex = P.mk_executor(crate, cap=B + 2, loop_bound=B + 3, inline=[r"^Safe::records_count_detailed$"] if fn is fs else [])
            st = State()
            ids = [z3.BitVec("blob_%d_id" % i, 64) for i in range(n + 1)]
            cnt = [z3.BitVec("blob_%d_count" % i, 64) for i in range(n + 1)]
            for c in cnt:
                st.pc.append(z3.ULT(c, BV64(1 << 40)))
            cells = []
            for i in range(n + 1):
                b = Obj("blob::core::Blob<K>"); b.fields[("ghost", "n")] = Sym(BV64(i), "u64")
                cells.append(st.new_cell(b))
            safe = Obj("storage::core::Safe<K>")
            has_active = z3.Bool("has_active")
            ab = Obj("std::option::Option<Box<async_lock::RwLock<blob::core::Blob<K>>>>")
            ab.discr = Sym(z3.If(has_active, BV64(1), BV64(0)), "isize")
            lock = Obj("async_lock::RwLock<blob::core::Blob<K>>")
            lock.fields[(None, 7000)] = st.mem[cells[n]]
            ab.fields[("Some", 0)] = Ref(st.new_cell(lock), (), False, "Box<async_lock::RwLock<blob::core::Blob<K>>>")
            safe.fields[(None, crate.field_index("Safe", "active_blob"))] = ab
            sc = st.new_cell(safe)

            def call_hook(ex_, st_, cname, args, dty, _n=n, _cells=cells):
                if cname == "HierarchicalFilters::iter":
                    slots = [(z3.BoolVal(True), Ref(c, (), False, "&blob::core::Blob<K>")) for c in _cells[:_n]]
                    return [(IT.IterV(slots, "&Blob<K>", True, BV64(_n)), None)]
                if cname in ("Blob::records_count", "Blob::id"):
                    b = S.deref_val(ex_, st_, args[0])
                    g = b.fields.get(("ghost", "n")) if isinstance(b, Obj) else None
                    if g is None:
                        raise Unsupported("blob without identity")
                    i = z3.simplify(g.t).as_long()
                    return [(Sym(cnt[i] if cname.endswith("records_count") else ids[i], "usize"), None)]
                return None
            ex.call_hook = call_hook
            outs = P.drive_async(ex, st, fn, [Ref(sc, (), False, "&storage::core::Safe<K>")])
            res.paths += len(outs)
            for o in outs:
                if o.status in ("infeasible", "unwind"):
                    continue
                if o.status != "returned":
                    if not P.prove(ex, res, o, z3.BoolVal(False), "no panic (%s)" % o.note):
                        return P.finish(ex, res, [])
                    continue
                ready, v = P.poll_payload(ex, o, o.result)
                if fn is fd:
                    if isinstance(v, Ref):
                        v = S.deref_val(ex, o, v)
                    if not isinstance(v, VecV):
                        res.status = "inconclusive"; res.detail = "result vector not modelled"; return P.finish(ex, res, [])
                    if not P.prove(ex, res, o, v.len.t == BV64(n) + z3.If(has_active, BV64(1), BV64(0)), "one row per closed blob (+1 for the active blob)"):
                        return P.finish(ex, res, [])
                    for i in range(n + 1):
                        e = v.elems[i]
                        if e is None:
                            continue
                        cond = z3.BoolVal(True) if i < n else has_active
                        if not P.prove(ex, res, o, z3.Implies(cond, z3.And(e.fields[(None, 0)].t == ids[i], e.fields[(None, 1)].t == cnt[i])),
                                       "row %d = (id, count) of %s" % (i, "closed blob %d" % i if i < n else "the active blob")):
                            return P.finish(ex, res, [])
                    P.cover(ex, res, o, has_active, "rows with an active blob, %d closed" % n)
                    P.cover(ex, res, o, z3.Not(has_active), "rows without an active blob, %d closed" % n)
                else:
                    tot = BV64(0)
                    for i in range(n):
                        tot = tot + cnt[i]
                    tot = tot + z3.If(has_active, cnt[n], BV64(0))
                    if not P.prove(ex, res, o, v.t == tot, "records_count = sum of the rows' counts"):
                        return P.finish(ex, res, [])
                    P.cover(ex, res, o, has_active, "sum with an active blob, %d closed" % n)
            tq += ex.queries; ts += ex.solver_s
    need = ["rows with an active blob, %d closed" % B, "rows without an active blob, 0 closed", "sum with an active blob, %d closed" % B]
    r = P.finish(ex, res, need)
    r.queries, r.solver_s = tq, ts
    return r


def disk_used_sum(crate, B=2):
    """C15: Storage::disk_used = disk_used of the active blob (if any) + disk_used of every closed blob, each exactly once."""
    res = P.ObResult("disk_used_sum[B<=%d]" % B)
    fn = crate.method("Storage", "disk_used")
    res.functions = ["Storage::disk_used (async body)"]
    res.bounds = "0..%d closed blobs (one run per count), active blob present or not, per-blob sizes < 2^40" % B
    tq = ts = 0
    for n in range(B + 1):
        ex = P.mk_executor(crate, cap=B + 2, loop_bound=B + 3, inline=[])
        st = State()
        sz = [z3.BitVec("blob_%d_disk" % i, 64) for i in range(n + 1)]
        for c in sz:
            st.pc.append(z3.ULT(c, BV64(1 << 40)))
        cells = []
        for i in range(n + 1):
            b = Obj("blob::core::Blob<K>"); b.fields[("ghost", "n")] = Sym(BV64(i), "u64")
            cells.append(st.new_cell(b))
        safe = Obj("storage::core::Safe<K>")
        has_active = z3.Bool("has_active")
        ab = Obj("std::option::Option<Box<async_lock::RwLock<blob::core::Blob<K>>>>")
        ab.discr = Sym(z3.If(has_active, BV64(1), BV64(0)), "isize")
        lock = Obj("async_lock::RwLock<blob::core::Blob<K>>")
        lock.fields[(None, 7000)] = st.mem[cells[n]]
        ab.fields[("Some", 0)] = Ref(st.new_cell(lock), (), False, "Box<async_lock::RwLock<blob::core::Blob<K>>>")
        safe.fields[(None, crate.field_index("Safe", "active_blob"))] = ab
        slock = Obj("tokio::sync::RwLock<storage::core::Safe<K>>")
        slock.fields[(None, 7000)] = safe
        inner = Obj("storage::core::Inner<K>")
        inner.fields[(None, crate.field_index("Inner", "safe"))] = slock
        arc = Obj("std::sync::Arc<storage::core::Inner<K>>")
        arc.fields[(None, 7001)] = inner
        storage = Obj("storage::core::Storage<K>")
        storage.fields[(None, crate.field_index("Storage", "inner"))] = arc
        sc = st.new_cell(storage)

        def call_hook(ex_, st_, cname, args, dty, _n=n, _cells=cells):
            if cname == "HierarchicalFilters::iter":
                slots = [(z3.BoolVal(True), Ref(c, (), False, "&blob::core::Blob<K>")) for c in _cells[:_n]]
                return [(IT.IterV(slots, "&Blob<K>", True, BV64(_n)), None)]
            if cname == "Blob::disk_used":
                b = S.deref_val(ex_, st_, args[0])
                g = b.fields.get(("ghost", "n")) if isinstance(b, Obj) else None
                if g is None:
                    raise Unsupported("blob without identity")
                i = z3.simplify(g.t).as_long()
                st_.events.append(("call", cname, [i], None))
                return [(Sym(sz[i], "u64"), None)]
            return None
        ex.call_hook = call_hook
        outs = P.drive_async(ex, st, fn, [Ref(sc, (), False, "&storage::core::Storage<K>")])
        res.paths += len(outs)
        for o in outs:
            if o.status in ("infeasible", "unwind"):
                continue
            if o.status != "returned":
                if not P.prove(ex, res, o, z3.BoolVal(False), "no panic (%s)" % o.note):
                    return P.finish(ex, res, [])
                continue
            ready, v = P.poll_payload(ex, o, o.result)
            tot = BV64(0)
            for i in range(n):
                tot = tot + sz[i]
            tot = tot + z3.If(has_active, sz[n], BV64(0))
            if not P.prove(ex, res, o, v.t == tot, "disk_used = active blob + every closed blob, once each"):
                return P.finish(ex, res, [])
            P.cover(ex, res, o, has_active, "with an active blob, %d closed" % n)
            P.cover(ex, res, o, z3.Not(has_active), "without an active blob, %d closed" % n)
        tq += ex.queries; ts += ex.solver_s
    r = P.finish(ex, res, ["with an active blob, %d closed" % B, "without an active blob, 0 closed"])
    r.queries, r.solver_s = tq, ts
    return r


def quarantine_moves_blob(crate):
    """C07/C06: Storage::save_corrupted_blob (+ remove_index_by_blob_path): quarantining renames exactly the blob file it was
    given to <parent>/<corrupted dir>/<same file name> - the bytes are moved, never copied-and-deleted, truncated or
    removed - and the only file removed is that blob's INDEX file (path.with_extension(index)), after the move
    succeeded; a failed directory creation or move is returned and nothing is removed.  Paths are uninterpreted terms
    (parent / file_name / join / with_extension)."""
    res = P.ObResult("quarantine_moves_blob")
    fn = crate.method("Storage", "save_corrupted_blob")
    res.functions = ["Storage::save_corrupted_blob (async body)", "Storage::remove_index_by_blob_path (async body)"]
    res.bounds = "one call, directory / index file present or not, every outcome of create_dir / rename / remove_file"
    from .symex import FutureV

    def tag_of(ex_, st_, v):
        n = 0
        while isinstance(v, Ref) and n < 6:
            v = ex_.read_path(st_, v.cell, v.proj); n += 1
        return getattr(v, "tag", None) if isinstance(v, Obj) else None

    def mk(st_, ty, tag, as_ref):
        o = Obj(ty); o.tag = tag
        return Ref(st_.new_cell(o), (), False, "&" + ty) if as_ref else o

    def h_parent(ex_, st_, fr, t, nf, a, d):
        r = Obj(d); r.discr = Sym(z3.If(z3.Bool("has_parent"), BV64(1), BV64(0)), "isize")
        r.fields[("Some", 0)] = mk(st_, "std::path::Path", ("parent", tag_of(ex_, st_, a[0])), True)
        return [(r, None)]

    def h_file_name(ex_, st_, fr, t, nf, a, d):
        r = Obj(d); r.discr = Sym(z3.If(z3.Bool("has_file_name"), BV64(1), BV64(0)), "isize")
        r.fields[("Some", 0)] = mk(st_, "OsStr", ("file_name", tag_of(ex_, st_, a[0])), True)
        return [(r, None)]

    def h_to_os(ex_, st_, fr, t, nf, a, d):
        return [(mk(st_, d, tag_of(ex_, st_, a[0]), False), None)]

    def h_join(ex_, st_, fr, t, nf, a, d):
        return [(mk(st_, d, ("join", tag_of(ex_, st_, a[0]), tag_of(ex_, st_, a[1]) or "corrupted_dir_name"), False), None)]

    def h_with_ext(ex_, st_, fr, t, nf, a, d):
        return [(mk(st_, d, ("with_extension", tag_of(ex_, st_, a[0]), "index_ext"), False), None)]

    def h_deref(ex_, st_, fr, t, nf, a, d):
        return [(a[0], None)]

    def h_exists(ex_, st_, fr, t, nf, a, d):
        b = z3.Bool(fresh_name("exists"))
        st_.events.append(("exists", nf, [tag_of(ex_, st_, a[0])], Sym(b, "bool")))
        return [(Sym(b, "bool"), None)]

    def h_fs(ex_, st_, fr, t, nf, a, d):
        return [(FutureV(nf, [tag_of(ex_, st_, x) for x in a], None, "havoc"), None)]
    ex = P.mk_executor(crate, cap=2, loop_bound=3, inline=[r"^Storage::remove_index_by_blob_path$"],
                       extra_summaries=[(r"^(std::path::)?Path::parent$", h_parent), (r"^(std::path::)?Path::file_name$", h_file_name),
                                        (r"^(std::ffi::)?OsStr::to_os_string$", h_to_os), (r"^(std::path::)?Path::join(::<.*>)?$", h_join),
                                        (r"^(std::path::)?Path::with_extension(::<.*>)?$", h_with_ext),
                                        (r"^<(std::path::)?PathBuf as (std::ops::)?Deref>::deref$", h_deref), (r"^(std::path::)?Path::exists$", h_exists),
                                        (r"^tokio::fs::(create_dir|rename|remove_file|remove_dir_all|copy|write|create_dir_all)(::<.*>)?$", h_fs)])
    ex.inline_all_coroutines = False
    st = State()
    p = Obj("std::path::Path"); p.tag = ("blob_path",)
    pr = Ref(st.new_cell(p), (), False, "&std::path::Path")
    dn = Obj("str"); dn.tag = ("corrupted_dir_name",)
    outs = P.drive_async(ex, st, fn, [pr, Ref(st.new_cell(dn), (), False, "&str")])
    res.paths = len(outs)
    BLOB = ("blob_path",)
    DEST = ("join", ("join", ("parent", BLOB), ("corrupted_dir_name",)), ("file_name", BLOB))
    IDX = ("with_extension", BLOB, "index_ext")

    def per_path(o, isok, payload):
        fs = [e for e in o.events if e[0] == "await" and "tokio::fs::" in e[1]]
        ops = [(e[1].split("tokio::fs::")[1].split("::")[0].split("<")[0], e[2], e[3]) for e in fs]
        ren = [x for x in ops if x[0] == "rename"]
        rem = [x for x in ops if x[0] == "remove_file"]
        other = [x[0] for x in ops if x[0] not in ("rename", "remove_file", "create_dir")]
        if other:
            res.status = "violated"; res.detail = "quarantine performs %s" % other; return False
        if len(ren) > 1 or len(rem) > 1:
            res.status = "violated"; res.detail = "quarantine renames %d / removes %d files" % (len(ren), len(rem)); return False
        if ren:
            src, dst = ren[0][1][0], ren[0][1][1]
            if src != BLOB or dst != DEST:
                res.status = "violated"; res.detail = "quarantine moves %s to %s (expected the blob file to <parent>/<corrupted dir>/<file name>)" % (src, dst)
                res.counterexample = {"rename_from": str(src), "rename_to": str(dst)}
                return False
        if not P.prove(ex, res, o, z3.Implies(isok, z3.BoolVal(len(ren) == 1)), "Ok => the blob file was moved"):
            return False
        if ren:
            r_ok = ex.get_discr(o, ren[0][2]).t == BV64(0)
            if not P.prove(ex, res, o, z3.Implies(isok, r_ok), "Ok => the move succeeded"):
                return False
        if rem:
            if rem[0][1][0] != IDX:
                res.status = "violated"; res.detail = "quarantine removes %s (only the blob's index file may be removed)" % (rem[0][1][0],)
                res.counterexample = {"removed": str(rem[0][1][0])}
                return False
            if not ren or ops.index(ren[0]) > ops.index(rem[0]):
                res.status = "violated"; res.detail = "index file removed before the blob was moved"; return False
            if not P.prove(ex, res, o, ex.get_discr(o, ren[0][2]).t == BV64(0), "the index file is removed only after a successful move"):
                return False
            P.cover(ex, res, o, isok, "moved, index removed")
        P.cover(ex, res, o, z3.And(z3.Not(isok), z3.BoolVal(bool(ren) and not rem)), "move failed: nothing removed")
        P.cover(ex, res, o, z3.And(isok, z3.BoolVal(not rem)), "moved, no index file")
        return True
    _check_paths(ex, res, outs, per_path)
    return P.finish(ex, res, ["moved, index removed", "move failed: nothing removed", "moved, no index file"])
