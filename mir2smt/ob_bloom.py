"""Obligations on src/filter/bloom.rs — C17 / C10 (fixed hasher keys)."""
import re
import z3
from .symex import State, Sym, Obj, VecV, Ref, UNIT, Unsupported, fresh_name
from . import pearl as P
from . import summaries as S
from .pearl import BV64


def bloom_hasher_keys(crate, K=3):
    """C17/C10: Bloom::hashers(k) builds exactly k hashers, the i-th keyed with (i + 1, i + 2) — the keys the pinned
    release used, which every stored bloom filter depends on — in index order."""
    res = P.ObResult("bloom_hasher_keys[k<=%d]" % K)
    fn = crate.method("Bloom", "hashers")
    res.functions = ["Bloom::hashers"]
    res.bounds = "k <= %d hashers" % K
    ex = P.mk_executor(crate, cap=K + 1, loop_bound=K + 2, inline=[])

    def call_hook(ex_, st_, cname, args, dty):
        if cname == "AHasher::new_with_keys":
            h = Obj(dty)
            h.fields[("g", "key0")] = args[0]
            h.fields[("g", "key1")] = args[1]
            return [(h, None)]
        return None
    ex.call_hook = call_hook
    st = State()
    k = z3.BitVec("k", 64)
    st.pc.append(z3.ULE(k, BV64(K)))
    ex.push_frame(st, fn, [Sym(k, "usize")], None, None)
    outs = ex.run(st)
    res.paths = len(outs)
    for o in outs:
        if o.status in ("infeasible", "unwind"):
            continue
        if o.status != "returned":
            if not P.prove(ex, res, o, z3.BoolVal(False), "no panic (%s)" % o.note):
                break
            continue
        v = o.result
        if isinstance(v, Ref):
            v = ex.read_path(o, v.cell, v.proj)
        if not isinstance(v, VecV):
            res.status = "inconclusive"; res.detail = "result is not a modelled slice"; break
        if not P.prove(ex, res, o, v.len.t == k, "exactly k hashers are returned"):
            break
        bad = False
        for i in range(K):
            if not ex.feasible(o, z3.ULT(BV64(i), k)):
                continue
            e = v.elems[i]
            a = e.fields.get(("g", "key0")) if isinstance(e, Obj) else None
            b = e.fields.get(("g", "key1")) if isinstance(e, Obj) else None
            if a is None or b is None:
                res.status = "violated"; res.detail = "hasher %d was not built by AHasher::new_with_keys" % i; bad = True; break
            if not P.prove(ex, res, o, z3.Implies(z3.ULT(BV64(i), k), z3.And(a.t == z3.BitVecVal(i + 1, a.t.size()), b.t == z3.BitVecVal(i + 2, b.t.size()))),
                           "hasher %d is keyed with (%d, %d)" % (i, i + 1, i + 2)):
                bad = True
                break
        if bad:
            break
        P.cover(ex, res, o, k == BV64(K), "k = %d" % K)
        P.cover(ex, res, o, k == BV64(0), "k = 0")
    return P.finish(ex, res, ["k = %d" % K, "k = 0"])


def _bloom_state(crate, st, H, offloaded=False):
    b = Obj("filter::bloom::Bloom")
    n = z3.BitVec("bits_count", 64)
    st.pc.append(z3.ULT(n, BV64(1 << 40)))
    inner = Obj("std::option::Option<filter::atomic_bitvec::AtomicBitVec>")
    inner.discr = Sym(BV64(0 if offloaded else 1), "isize")
    bv = Obj("filter::atomic_bitvec::AtomicBitVec")
    inner.fields[("Some", 0)] = bv
    b.fields[(None, crate.field_index("Bloom", "inner"))] = inner
    b.fields[(None, crate.field_index("Bloom", "bits_count"))] = Sym(n, "usize")
    hs = []
    for i in range(H):
        h = Obj("filter::ahash::fallback_hash::AHasher")
        h.fields[("g", "ix")] = Sym(BV64(i), "u64")
        hs.append(h)
    nh = z3.BitVec("hashers", 64)
    st.pc.append(z3.ULE(nh, BV64(H)))
    hv = VecV("filter::ahash::fallback_hash::AHasher", H, Sym(nh, "usize"), hs)
    b.fields[(None, crate.field_index("Bloom", "hashers"))] = Ref(st.new_cell(hv), (), True, "Box<[filter::ahash::fallback_hash::AHasher]>")
    lock = Obj("std::sync::RwLock<()>")
    b.fields[(None, crate.field_index("Bloom", "snapshot_protector"))] = lock
    return b, n, nh


def _bloom_hooks(crate, ex, n, hashes):
    """AtomicBitVec::len = bits_count (representation invariant of Bloom); hasher i's finish() = hashes[i] whatever the
    copy; set/get/read_byte are events."""
    def call_hook(ex_, st_, cname, args, dty):
        if cname == "AtomicBitVec::len":
            return [(Sym(n, "usize"), None)]
        if cname.endswith("Hasher>::finish") or cname == "<AHasher as Hasher>::finish":
            h = S.deref_val(ex_, st_, args[0])
            ix = h.fields.get(("g", "ix"))
            if ix is None:
                raise Unsupported("hasher without identity")
            i = z3.simplify(ix.t)
            if z3.is_bv_value(i):
                return [(Sym(hashes[i.as_long()], "u64"), None)]
            v = hashes[-1]
            for j in range(len(hashes) - 2, -1, -1):
                v = z3.If(ix.t == BV64(j), hashes[j], v)
            return [(Sym(v, "u64"), None)]
        if cname == "Bloom::buffer_start_position":
            r = Obj(dty); r.discr = Sym(BV64(0), "isize"); r.fields[("Ok", 0)] = Sym(z3.BitVec("buffer_start", 64), "u64")
            st_.pc.append(z3.ULT(z3.BitVec("buffer_start", 64), BV64(1 << 40)))
            return [(r, None)]
        return None
    ex.call_hook = call_hook


def bloom_bits_agree(crate, H=2):
    """C10: Bloom::add sets, contains_in_memory tests and contains_in_file reads exactly the bits finish_i(item) mod n for
    every hasher i (n = number of bits), so a key that was added is never reported absent — in memory or from the file;
    NotContains is answered only when one of these bits is 0.  Hash values are arbitrary per hasher (uninterpreted)."""
    res = P.ObResult("bloom_bits_agree[H<=%d]" % H)
    res.functions = ["Bloom::add", "Bloom::contains_in_memory", "Bloom::contains_in_file (async body)", "OffsetAndMaskCalculator::{offset_and_mask_u8,get_bit_u8}"]
    res.bounds = "<= %d hashers, arbitrary hash values and bit count (< 2^40), every content of the filter" % H
    hashes = [z3.BitVec("hash_%d" % i, 64) for i in range(H)]
    INL = [r"^OffsetAndMaskCalculator::(offset_and_mask_u8|get_bit_u8)$"]
    HV = [r"^<P as (\S*::)?BloomDataProvider>::read_byte$", r"^<impl AsRef<\[u8\]> as AsRef<\[u8\]>>::as_ref$", r"^<impl AsRef as AsRef<\[u8\]>>::as_ref$", r"^<.* as Clone>::clone$"]
    total_q = 0
    total_s = 0.0
    covers = {}
    for which in ("add", "contains_in_memory", "contains_in_file"):
        def h_box_slice_clone(ex_, st_, frame, t, nf, args, dty):
            import copy
            bx = ex_.read_path(st_, args[0].cell, args[0].proj)
            v = ex_.read_path(st_, bx.cell, bx.proj) if isinstance(bx, Ref) else bx
            return [(Ref(st_.new_cell(copy.deepcopy(v)), (), True, dty), None)]
        ex = P.mk_executor(crate, cap=H + 1, loop_bound=H + 2, inline=INL, havoc=[h for h in HV if "Clone" not in h],
                           extra_summaries=[(r"^<Box<\[.*\]> as Clone>::clone$|^<Box as Clone>::clone$", h_box_slice_clone)])
        st = State()
        b, n, nh = _bloom_state(crate, st, H, offloaded=(which == "contains_in_file"))
        _bloom_hooks(crate, ex, n, hashes)
        bc = st.new_cell(b)
        item = Obj("impl AsRef<[u8]>")
        fn = crate.method("Bloom", which)
        if which == "contains_in_file":
            prov = Ref(st.new_cell(Obj("P")), (), False, "&P")
            ex_havoc = ex.havoc
            outs = P.drive_async(ex, st, fn, [Ref(bc, (), False, "&Bloom"), prov, item])
        else:
            ex.push_frame(st, fn, [Ref(bc, (), False, "&Bloom"), item], None, None)
            outs = ex.run(st)
        res.paths += len(outs)
        for o in outs:
            if o.status in ("infeasible", "unwind"):
                continue
            if o.status not in ("returned",):
                if not P.prove(ex, res, o, z3.BoolVal(False), "no panic in %s (%s)" % (which, o.note)):
                    return P.finish(ex, res, [])
                continue
            if which == "add":
                sets = [e for e in o.events if e[0] == "call" and e[1] == "AtomicBitVec::set"]
                if not P.prove(ex, res, o, z3.Implies(n != BV64(0), nh == BV64(len(sets))), "add: one bit set per hasher"):
                    return P.finish(ex, res, [])
                for i, e in enumerate(sets):
                    ixv, val = e[2][1].t, e[2][2].t
                    if not P.prove(ex, res, o, z3.And(ixv == z3.URem(hashes[i], n), val if z3.is_bool(val) else val != 0), "add: hasher %d sets bit hash_%d mod n" % (i, i)):
                        return P.finish(ex, res, [])
                P.cover(ex, res, o, z3.And(n != BV64(0), nh == BV64(H)), "add with all hashers")
            elif which == "contains_in_memory":
                gets = [e for e in o.events if e[0] == "call" and e[1] == "AtomicBitVec::get"]
                for i, e in enumerate(gets):
                    if not P.prove(ex, res, o, e[2][1].t == z3.URem(hashes[i], n), "memory probe %d tests bit hash_%d mod n" % (i, i)):
                        return P.finish(ex, res, [])
                r = o.result
                FR = crate.enums["FilterResult"]
                is_some = ex.get_discr(o, r).t == BV64(1)
                fr = ex._get_field(o, r, "Some", 0, "filter::FilterResult")
                notc = z3.And(is_some, ex.get_discr(o, fr).t == BV64(FR["NotContains"]))
                zero = z3.Or([z3.Not(e[3].t) if z3.is_bool(e[3].t) else e[3].t == 0 for e in gets]) if gets else z3.BoolVal(False)
                if not P.prove(ex, res, o, notc == z3.And(zero, n != BV64(0)), "memory: NotContains iff a probed bit is 0"):
                    return P.finish(ex, res, [])
                if not P.prove(ex, res, o, z3.Implies(z3.And(n != BV64(0), z3.Not(zero)), nh == BV64(len(gets))), "memory: 'maybe' only after every hasher's bit was tested"):
                    return P.finish(ex, res, [])
                P.cover(ex, res, o, z3.And(notc, z3.BoolVal(len(gets) == H)), "absent decided by the last hasher")
            else:
                ready, isok, payload = P.result_of(ex, o)
                reads = [e for e in o.events if e[0] == "await" and "read_byte" in e[1]]
                start = z3.BitVec("buffer_start", 64)
                for i, e in enumerate(reads):
                    off = e[2][1].t
                    if not P.prove(ex, res, o, off == start + z3.LShR(z3.URem(hashes[i], n), 3), "file probe %d reads the byte holding bit hash_%d mod n" % (i, i)):
                        return P.finish(ex, res, [])
                FR = crate.enums["FilterResult"]
                fr = payload.fields.get(("Ok", 0))
                if fr is not None:
                    notc = z3.And(isok, ex.get_discr(o, fr).t == BV64(FR["NotContains"]))
                    zs = []
                    for i, e in enumerate(reads):
                        r = e[3]
                        byte = ex._get_field(o, r, "Ok", 0, "u8").t
                        okb = ex.get_discr(o, r).t == BV64(0)
                        bit = z3.Extract(7, 0, z3.URem(hashes[i], n)) & z3.BitVecVal(7, 8)
                        zs.append(z3.And(okb, (z3.LShR(byte, bit) & z3.BitVecVal(1, 8)) == z3.BitVecVal(0, 8)))
                    zero = z3.Or(zs) if zs else z3.BoolVal(False)
                    if not P.prove(ex, res, o, z3.Implies(notc, zero), "file: NotContains only if a probed bit is 0 in the byte read"):
                        return P.finish(ex, res, [])
                    if not P.prove(ex, res, o, z3.Implies(z3.And(isok, z3.Not(notc), n != BV64(0), z3.Not(zero)), nh == BV64(len(reads))), "file: 'maybe' only after every hasher's bit was read"):
                        return P.finish(ex, res, [])
                    P.cover(ex, res, o, z3.And(notc, z3.BoolVal(len(reads) == H)), "absent decided by the last byte read")
        total_q += ex.queries
        total_s += ex.solver_s
    r = P.finish(ex, res, ["add with all hashers", "absent decided by the last hasher", "absent decided by the last byte read"])
    r.queries, r.solver_s = total_q, total_s
    return r


def bloom_ctor_invariant(crate):
    """C10: the representation invariant bloom_bits_agree assumes - Bloom.bits_count (what add / contains_in_memory /
    contains_in_file reduce the hash by) equals the length of the bit vector - is established by every constructor:
    Bloom::from(Save) (read back from an index file) and Bloom::new_from_shared_config; and Bloom::save writes the bit
    vector's own length, so a saved and re-read filter probes the same bit positions as the one that was filled."""
    res = P.ObResult("bloom_ctor_invariant")
    res.functions = ["Bloom::from(Save)", "Bloom::new_from_shared_config", "Bloom::save"]
    res.bounds = "one call each; AtomicBitVec::{new,from_raw_slice} summarised as 'length = the requested bit count' (K harnesses on atomic_bitvec), arbitrary counts"
    ex = P.mk_executor(crate, cap=2, loop_bound=3, inline=[],
                       havoc=[r"^Bloom::hashers$", r"^bloom::bits_count_from_formula$|^bits_count_from_formula$", r"^<.* as Clone>::clone$",
                              r"^<Vec<u64> as Deref>::deref$", r"^AtomicBitVec::to_raw_vec$", r"^<std::sync::Arc as AsRef<.*>>::as_ref$", r"^(std::sync::)?Arc(::<.*>)?::new$"])

    def call_hook(ex_, st_, cname, args, dty):
        if cname in ("AtomicBitVec::from_raw_slice", "AtomicBitVec::new"):
            n = args[-1]
            bv = Obj("filter::atomic_bitvec::AtomicBitVec")
            bv.fields[("g", "len")] = Sym(n.t, "usize")
            st_.events.append(("call", cname, args, bv))
            if cname.endswith("new"):
                return [(bv, None)]
            r = Obj(dty)
            r.discr = Sym(z3.If(z3.Bool(fresh_name("raw_ok")), BV64(0), BV64(1)), "isize")
            r.fields[("Ok", 0)] = bv
            return [(r, None)]
        if cname in ("AtomicBitVec::len", "AtomicBitVec::size_in_mem"):
            v = S.deref_val(ex_, st_, args[0])
            g = v.fields.get(("g", "len"))
            if g is None:
                raise Unsupported("bit vector without ghost length")
            if cname.endswith("size_in_mem"):        # whole u64 words, in bytes
                return [(Sym(z3.UDiv(g.t + BV64(63), BV64(64)) * BV64(8), "usize"), None)]
            return [(Sym(g.t, "usize"), None)]
        return None
    ex.call_hook = call_hook
    bi, ii = crate.field_index("Bloom", "bits_count"), crate.field_index("Bloom", "inner")

    def inv(o, bloom, what):
        inner = bloom.fields.get((None, ii))
        bc = bloom.fields.get((None, bi))
        if not isinstance(inner, Obj) or bc is None:
            res.status = "violated"; res.detail = "%s: fields not initialised" % what; return False
        if not P.prove(ex, res, o, ex.get_discr(o, inner).t == BV64(1), "%s: buffer present" % what):
            return False
        bv = inner.fields.get(("Some", 0))
        g = bv.fields.get(("g", "len")) if isinstance(bv, Obj) else None
        if g is None:
            res.status = "violated"; res.detail = "%s: bit vector not built by AtomicBitVec::new/from_raw_slice" % what; return False
        return P.prove(ex, res, o, bc.t == g.t, "%s: bits_count == length of the bit vector" % what)

    # --- Bloom::from(Save)
    st = State()
    save = Obj("filter::bloom::Save")
    sb = z3.BitVec("saved_bits_count", 64)
    st.pc.append(z3.ULT(sb, BV64(1 << 48)))
    save.fields[(None, crate.field_index("Save", "bits_count"))] = Sym(sb, "usize")
    fn = crate.find(r"bloom::<impl at src/filter/bloom\.rs[^>]*>::from$")
    from . import mirparse as MP
    MP.parse_body(fn)
    ex.push_frame(st, fn, [save], None, None)
    for o in ex.run(st):
        if o.status in ("infeasible", "unwind"):
            continue
        res.paths += 1
        if o.status != "returned":
            if not P.prove(ex, res, o, z3.BoolVal(False), "no panic in from (%s)" % o.note):
                return P.finish(ex, res, [])
            continue
        isok = ex.get_discr(o, o.result).t == BV64(0)
        if ex.feasible(o, isok):
            bl = o.result.fields.get(("Ok", 0))
            if not isinstance(bl, Obj) or not inv(o, bl, "from(Save)"):
                return P.finish(ex, res, [])
            if not P.prove(ex, res, o, z3.Implies(isok, bl.fields[(None, bi)].t == sb), "from(Save): the saved bit count is kept"):
                return P.finish(ex, res, [])
            P.cover(ex, res, o, z3.And(isok, z3.URem(sb, BV64(64)) != BV64(0)), "read back, bit count not a multiple of 64")
        else:
            P.cover(ex, res, o, z3.Not(isok), "buffer rejected")
    # --- Bloom::new_from_shared_config
    st = State()
    fn = crate.method("Bloom", "new_from_shared_config")
    MP.parse_body(fn)
    cfg = Ref(st.new_cell(Obj("filter::bloom::Config")), (), False, "std::sync::Arc<filter::bloom::Config>")
    ex.push_frame(st, fn, [cfg], None, None)
    for o in ex.run(st):
        if o.status in ("infeasible", "unwind"):
            continue
        res.paths += 1
        if o.status != "returned":
            if not P.prove(ex, res, o, z3.BoolVal(False), "no panic in new (%s)" % o.note):
                return P.finish(ex, res, [])
            continue
        if not inv(o, o.result, "new"):
            return P.finish(ex, res, [])
        P.cover(ex, res, o, z3.BoolVal(True), "created")
    # --- Bloom::save
    st = State()
    fn = crate.method("Bloom", "save")
    MP.parse_body(fn)
    b, n, nh = _bloom_state(crate, st, 1)
    ln = z3.BitVec("vector_len", 64)
    b.fields[(None, ii)].fields[("Some", 0)].fields[("g", "len")] = Sym(ln, "usize")
    bc = st.new_cell(b)
    ex.push_frame(st, fn, [Ref(bc, (), False, "&filter::bloom::Bloom")], None, None)
    for o in ex.run(st):
        if o.status in ("infeasible", "unwind"):
            continue
        res.paths += 1
        if o.status != "returned":
            if not P.prove(ex, res, o, z3.BoolVal(False), "no panic in save (%s)" % o.note):
                return P.finish(ex, res, [])
            continue
        r = o.result
        some = ex.get_discr(o, r).t == BV64(1)
        sv = r.fields.get(("Some", 0))
        if isinstance(sv, Obj):
            v = sv.fields.get((None, crate.field_index("Save", "bits_count")))
            if v is None or not P.prove(ex, res, o, z3.Implies(some, v.t == ln), "save: writes the bit vector's own length"):
                return P.finish(ex, res, [])
            P.cover(ex, res, o, some, "saved")
    return P.finish(ex, res, ["read back, bit count not a multiple of 64", "buffer rejected", "created", "saved"])


def bloom_merge_sound(crate):
    """C10: Bloom::checked_add_assign answers true - "every key of `other` is covered by `self` now" - only if both filters
    have the same number of hashers, both buffers are present (neither is off-loaded) with the same length, and
    AtomicBitVec::or_with(self.inner, other.inner) was executed (c10_bitvec_or_with_union decides what or_with does)."""
    res = P.ObResult("bloom_merge_sound")
    fn = crate.method("Bloom", "checked_add_assign")
    res.functions = ["Bloom::checked_add_assign (inherent)"]
    res.bounds = "one call; buffers present or off-loaded, arbitrary lengths and hasher counts (<= 2 modelled hashers each); or_with opaque (event)"
    from . import mirparse as MP
    MP.parse_body(fn)
    ex = P.mk_executor(crate, cap=3, loop_bound=4, inline=[], havoc=[r"^Bloom::acquire_snapshot_protection_ordered$"])
    st = State()
    blooms, lens, present, nhs = [], [], [], []
    for tag in ("self", "other"):
        b = Obj("filter::bloom::Bloom")
        inner = Obj("std::option::Option<filter::atomic_bitvec::AtomicBitVec>")
        pr = z3.Bool("%s_buffer_present" % tag)
        inner.discr = Sym(z3.If(pr, BV64(1), BV64(0)), "isize")
        bv = Obj("filter::atomic_bitvec::AtomicBitVec")
        ln = z3.BitVec("%s_len" % tag, 64)
        bv.fields[("g", "len")] = Sym(ln, "usize")
        bv.fields[("g", "who")] = Sym(BV64(1 if tag == "self" else 2), "u64")
        inner.fields[("Some", 0)] = bv
        b.fields[(None, crate.field_index("Bloom", "inner"))] = inner
        nh = z3.BitVec("%s_hashers" % tag, 64)
        st.pc.append(z3.ULE(nh, BV64(2)))
        hv = VecV("filter::ahash::fallback_hash::AHasher", 2, Sym(nh, "usize"), [Obj("filter::ahash::fallback_hash::AHasher"), Obj("filter::ahash::fallback_hash::AHasher")])
        b.fields[(None, crate.field_index("Bloom", "hashers"))] = Ref(st.new_cell(hv), (), True, "Box<[filter::ahash::fallback_hash::AHasher]>")
        b.fields[(None, crate.field_index("Bloom", "snapshot_protector"))] = Obj("std::sync::RwLock<()>")
        blooms.append(st.new_cell(b)); lens.append(ln); present.append(pr); nhs.append(nh)

    def call_hook(ex_, st_, cname, args, dty):
        if cname == "AtomicBitVec::len":
            v = S.deref_val(ex_, st_, args[0])
            return [(Sym(v.fields[("g", "len")].t, "usize"), None)]
        if cname == "AtomicBitVec::or_with":
            a, b_ = S.deref_val(ex_, st_, args[0]), S.deref_val(ex_, st_, args[1])
            st_.events.append(("or_with", cname, [a.fields.get(("g", "who")), b_.fields.get(("g", "who"))], None))
            r = Obj(dty); r.discr = Sym(BV64(0), "isize"); r.fields[("Ok", 0)] = UNIT
            return [(r, None)]
        return None
    ex.call_hook = call_hook
    ex.push_frame(st, fn, [Ref(blooms[0], (), True, "&mut filter::bloom::Bloom"), Ref(blooms[1], (), False, "&filter::bloom::Bloom")], None, None)
    outs = ex.run(st)
    res.paths = len(outs)
    for o in outs:
        if o.status in ("infeasible", "unwind"):
            continue
        if o.status != "returned":
            if not P.prove(ex, res, o, z3.BoolVal(False), "no panic (%s)" % o.note):
                return P.finish(ex, res, [])
            continue
        r = o.result.t
        ors = [e for e in o.events if e[0] == "or_with"]
        good_or = len(ors) == 1 and ors[0][2][0] is not None and ors[0][2][1] is not None and \
            z3.is_true(z3.simplify(z3.And(ors[0][2][0].t == BV64(1), ors[0][2][1].t == BV64(2))))
        cond = z3.And(nhs[0] == nhs[1], present[0], present[1], lens[0] == lens[1], z3.BoolVal(good_or))
        if not P.prove(ex, res, o, z3.Implies(r, cond), "true only if hasher counts agree, both buffers are present with equal length, and self |= other ran"):
            return P.finish(ex, res, [])
        if ors and not good_or:
            res.status = "violated"; res.detail = "or_with applied to the wrong operands / more than once"; return P.finish(ex, res, [])
        P.cover(ex, res, o, r, "merged")
        P.cover(ex, res, o, z3.And(z3.Not(r), z3.Not(present[1])), "refused: other is off-loaded")
        P.cover(ex, res, o, z3.And(z3.Not(r), nhs[0] != nhs[1]), "refused: different hashers")
        P.cover(ex, res, o, z3.And(z3.Not(r), present[0], present[1], nhs[0] == nhs[1], lens[0] != lens[1]), "refused: different lengths")
    return P.finish(ex, res, ["merged", "refused: other is off-loaded", "refused: different hashers", "refused: different lengths"])
