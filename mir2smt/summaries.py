"""Summary catalogue for Engine M: the trusted base (DESIGN.md §1.2).  Every summary is listed in the evidence
of each obligation that used it (executor.stats['calls_summarised']).

A handler gets (ex, st, frame, term, norm_callee, args, dest_ty) and returns
   [(value, cond|None), ...]   alternatives (forked by the executor),
   "panic"                     the call diverges,
   None / "pushed"             the handler arranged control flow itself (e.g. pushed a frame)."""
import re, copy
import z3
from .symex import (Sym, Obj, VecV, Ref, FnItem, FutureV, UNIT, Unit, Unsupported, fresh_name, base_type,
                    generic_args, INT_W, pointee)

BV64 = lambda n: z3.BitVecVal(n, 64)


def usize(n):
    return Sym(BV64(n), "usize")


def mk_enum(ty, variant, discr, payload=()):
    o = Obj(ty)
    o.discr = Sym(BV64(discr), "isize")
    for i, p in enumerate(payload):
        o.fields[(variant, i)] = p
    return o


def some(v, ty="Option"):
    return mk_enum(ty, "Some", 1, [v])


def none(ty="Option"):
    return mk_enum(ty, "None", 0)


def ok(v, ty="Result"):
    return mk_enum(ty, "Ok", 0, [v])


def err(v, ty="Result"):
    return mk_enum(ty, "Err", 1, [v])


def deref_val(ex, st, v):
    """follow Ref chains to the value"""
    n = 0
    while isinstance(v, Ref):
        v = ex.read_path(st, v.cell, v.proj)
        n += 1
        if n > 8:
            raise Unsupported("ref chain")
    return v


def as_vec(ex, st, v):
    v = deref_val(ex, st, v)
    if isinstance(v, Obj) and v.tag and v.tag[0] == "vecwrap":
        v = v.tag[1]
    if not isinstance(v, VecV):
        raise Unsupported("expected vector, got %r" % (v,))
    return v


def vec_ref(ex, st, v):
    """a Ref that designates the vector itself (strip outer refs-to-refs)"""
    while isinstance(v, Ref):
        inner = ex.read_path(st, v.cell, v.proj)
        if isinstance(inner, Ref):
            v = inner
        else:
            return v
    raise Unsupported("expected reference to vector")


# ---------------------------------------------------------------------------------------------
# calling closures / pearl functions "purely" (single result, no forks kept)
# ---------------------------------------------------------------------------------------------
def closure_body(ex, f):
    """Find the MIR body for a closure value (FnItem with a `{closure@file:l:c: l:c}` type, or Obj whose ty is)."""
    ty = f.name if isinstance(f, FnItem) else getattr(f, "ty", "")
    m = re.search(r"\{closure@([^}]*)\}", ty)
    if not m:
        # plain fn item: path
        b = ex.find_body(ty)
        if b is not None:
            return b, False
        raise Unsupported("not a closure: %r" % (f,))
    key = m.group(1)
    idx = getattr(ex, "_closure_index", None)
    if idx is None:
        idx = {}
        for name, b in ex.bodies.items():
            m2 = re.match(r"^_1: (?:&(?:'\w+ )?(?:mut )?)?\{closure@([^}]*)\}", b._args_text)
            if m2:
                idx[m2.group(1)] = b
        ex._closure_index = idx
    if key not in idx:
        raise Unsupported("closure body not found: " + key)
    return idx[key], True


def call_value(ex, st, frame, f, call_args, dest, ret_bb, by_ref=None):
    """Push a frame for closure/fn value `f` applied to call_args (list). The closure environment is passed
    as the body expects it (by value or by reference)."""
    body, is_closure = closure_body(ex, f)
    from . import mirparse as MP
    MP.parse_body(body)
    args = list(call_args)
    if is_closure:
        env_ty = body.args[0][1]
        if env_ty.startswith("&"):
            c = st.new_cell(f)
            env = Ref(c, (), True, env_ty)
        else:
            env = f
        args = [env] + args
    ex.push_frame(st, body, args, dest, ret_bb)
    return "pushed"


def h_fn_call(ex, st, frame, t, nf, args, dty):
    """<F as FnOnce/FnMut/Fn<(A, ..)>>::call_once / call_mut / call(f, (a, ..)) on a closure VALUE of this crate: run it."""
    f = args[0]
    if isinstance(f, Ref):
        f = ex.read_path(st, f.cell, f.proj)
    tup = args[1] if len(args) > 1 else None
    call_args = []
    if isinstance(tup, Obj):
        k = 0
        while (None, k) in tup.fields:
            call_args.append(tup.fields[(None, k)])
            k += 1
    elif tup is not None and not isinstance(tup, Unit):
        call_args = [tup]
    try:
        closure_body(ex, f)
    except Unsupported:
        raise Unsupported("call of an unknown function value %r" % (f,))
    return call_value(ex, st, frame, f, call_args, t.dest, t.targets.get("return"))


def eval_pure(ex, st, f, call_args):
    """Evaluate closure `f` on args in a scratch copy of the state; requires a single feasible returning path.
    Returns the result value (terms refer to the same symbols, so it is valid in `st`)."""
    s2 = st.fork()
    s2.frames = []
    body, is_closure = closure_body(ex, f)
    from . import mirparse as MP
    MP.parse_body(body)
    args = [copy.deepcopy(a) for a in call_args]
    if is_closure:
        env_ty = body.args[0][1]
        fv = copy.deepcopy(f)
        if env_ty.startswith("&"):
            c = s2.new_cell(fv)
            args = [Ref(c, (), True, env_ty)] + args
        else:
            args = [fv] + args
    ex.push_frame(s2, body, args, None, None)
    all_outs = ex.run(s2)
    bad = [o for o in all_outs if o.status in ("panic", "unreachable")]
    if bad:
        # a closure evaluated as a pure function must not be able to panic: silently dropping that path would hide it
        raise Unsupported("closure %s can panic (%s)" % (body.name[-40:], bad[0].note))
    outs = [o for o in all_outs if o.status == "returned"]
    if len(outs) != 1:
        raise Unsupported("closure %s is not single-path (%d)" % (body.name[-40:], len(outs)))
    extra = outs[0].pc[len(st.pc):]
    # constraints added inside a single-path closure only concern values materialised there (lengths of fresh
    # vectors, discriminant ranges): they are carried over
    for c in extra:
        st.pc.append(c)
    for k, v in outs[0].lazy.items():
        if k not in st.lazy:
            st.lazy[k] = v
    return outs[0].result


# ---------------------------------------------------------------------------------------------
# handlers
# ---------------------------------------------------------------------------------------------
def h_log_disabled(ex, st, frame, t, nf, args, dty):
    return [(Sym(z3.BoolVal(False), "bool"), None)]


def h_fresh(ex, st, frame, t, nf, args, dty):
    st.events.append(("call", nf, None))
    return [(ex.fresh(dty, st, "s"), None)]


def h_unit(ex, st, frame, t, nf, args, dty):
    return [(UNIT, None)]


def h_identity0(ex, st, frame, t, nf, args, dty):
    return [(args[0], None)]


def h_lock(ex, st, frame, t, nf, args, dty):
    """RwLock::read / write / Mutex::lock on std locks: Ok(guard); guard == reference to the protected data.
    Poisoning and blocking are outside the model."""
    lock = vec_ref_any(ex, st, args[0])
    data_ty = generic_args(pointee(lock.ty) if lock.ty and lock.ty != "?" else "RwLock<?>")
    g = Ref(lock.cell, tuple(lock.proj) + (("field", 7000, data_ty[0] if data_ty else "?"),), True, "&mut " + (data_ty[0] if data_ty else "?"))
    return [(ok(g, dty), None)]


def vec_ref_any(ex, st, v):
    while isinstance(v, Ref):
        try:
            inner = ex.read_path(st, v.cell, v.proj)
        except Unsupported:
            return v
        if isinstance(inner, Ref):
            v = inner
        else:
            return v
    raise Unsupported("expected a reference, got %r" % (v,))


def h_guard_deref(ex, st, frame, t, nf, args, dty):
    g = deref_val_once(ex, st, args[0])
    return [(g, None)]


def deref_val_once(ex, st, v):
    if isinstance(v, Ref):
        inner = ex.read_path(st, v.cell, v.proj)
        if isinstance(inner, Ref):
            return inner
        return v
    return v


def h_expect(ex, st, frame, t, nf, args, dty):
    """Result::expect / unwrap, Option::expect / unwrap: payload on Ok/Some, panic otherwise."""
    v = args[0]
    if not isinstance(v, Obj):
        raise Unsupported("expect on %r" % (v,))
    d = ex.get_discr(st, v).t
    bt = base_type(v.ty).split("::")[-1]
    is_res = "Result" in nf.split("::")[0] or "Result" in nf or bt == "Result"
    if "Option" in nf:
        is_res = False
    good_variant, good = ("Ok", 0) if is_res else ("Some", 1)
    payload_ty = dty
    alts = []
    gv = z3.simplify(d == BV64(good))
    if not z3.is_false(gv):
        alts.append((ex._get_field(st, v, good_variant, 0, payload_ty), d == BV64(good)))
    if not z3.is_true(gv):
        alts.append((("panic", "expect/unwrap failed in " + nf), d != BV64(good)))
    return alts


def h_vec_len(ex, st, frame, t, nf, args, dty):
    return [(as_vec(ex, st, args[0]).len, None)]


def h_vec_is_empty(ex, st, frame, t, nf, args, dty):
    return [(Sym(as_vec(ex, st, args[0]).len.t == BV64(0), "bool"), None)]


def h_vec_capacity(ex, st, frame, t, nf, args, dty):
    v = as_vec(ex, st, args[0])
    c = getattr(v, "capacity", None)
    if c is None:
        c = Sym(z3.BitVec(fresh_name("capacity"), 64), "usize")
        st.pc.append(z3.And(z3.UGE(c.t, v.len.t), z3.ULT(c.t, BV64(1 << 40))))
        v.capacity = c
    return [(c, None)]


def h_vec_new(ex, st, frame, t, nf, args, dty):
    ga = generic_args(dty)
    v = VecV(ga[0] if ga else "?", ex.cap, usize(0))
    return [(v, None)]


def h_vec_deref(ex, st, frame, t, nf, args, dty):
    r = vec_ref(ex, st, args[0])
    return [(Ref(r.cell, r.proj, r.mut, dty), None)]


def h_vec_index(ex, st, frame, t, nf, args, dty):
    r = vec_ref(ex, st, args[0])
    v = as_vec(ex, st, r)
    i = args[1]
    if not isinstance(i, Sym):
        raise Unsupported("Index with non-usize")
    inb = z3.ULT(i.t, v.len.t)
    return [(Ref(r.cell, tuple(r.proj) + (("index", i.t),), r.mut, dty), inb),
            (("panic", "index out of bounds"), z3.Not(inb))]


def elem_at(ex, st, v, k):
    return ex._elem(st, v, k)


def h_vec_insert(ex, st, frame, t, nf, args, dty):
    r = vec_ref(ex, st, args[0])
    v = as_vec(ex, st, r)
    pos, x = args[1], args[2]
    n = v.len.t
    inb = z3.ULE(pos.t, n)
    room = z3.ULT(n, BV64(v.cap))
    if ex.feasible(st, z3.And(inb, z3.Not(room))):
        raise Unsupported("Vec::insert may exceed the modelled capacity %d" % v.cap)
    olds = [elem_at(ex, st, v, k) for k in range(v.cap)]
    new = []
    for k in range(v.cap):
        prev = olds[k - 1] if k > 0 else olds[0]
        e = ex.ite(z3.ULT(BV64(k), pos.t), olds[k], ex.ite(pos.t == BV64(k), x, prev))
        new.append(e)
    nv = VecV(v.elem_ty, v.cap, Sym(n + 1, "usize"), new)
    if getattr(v, "capacity", None) is not None:
        c = Sym(z3.BitVec(fresh_name("capacity"), 64), "usize")
        st.pc.append(z3.And(z3.UGE(c.t, nv.len.t), z3.UGE(c.t, v.capacity.t), z3.ULT(c.t, BV64(1 << 40))))
        nv.capacity = c
    s_ok = (("write", r, nv), inb)
    return [s_ok, (("panic", "Vec::insert index > len"), z3.Not(inb))]


def _conc(t):
    t = z3.simplify(t)
    return t.as_long() if z3.is_bv_value(t) else None


def h_vec_push(ex, st, frame, t, nf, args, dty):
    r = vec_ref(ex, st, args[0])
    v = as_vec(ex, st, r)
    x = args[1]
    n = v.len.t
    cn = _conc(n)
    if cn is not None:
        if cn >= v.cap:
            raise Unsupported("Vec::push exceeds the modelled capacity %d" % v.cap)
        new = list(v.elems)
        new[cn] = x
        nv = VecV(v.elem_ty, v.cap, Sym(BV64(cn + 1), "usize"), new)
        ex.write_path(st, r.cell, r.proj, nv)
        return [(UNIT, None)]
    room = z3.ULT(n, BV64(v.cap))
    if ex.feasible(st, z3.Not(room)):
        raise Unsupported("Vec::push may exceed the modelled capacity %d" % v.cap)
    new = []
    for k in range(v.cap):
        new.append(ex.ite(n == BV64(k), x, elem_at(ex, st, v, k)))
    nv = VecV(v.elem_ty, v.cap, Sym(n + 1, "usize"), new)
    ex.write_path(st, r.cell, r.proj, nv)
    return [(UNIT, None)]


def h_vec_truncate(ex, st, frame, t, nf, args, dty):
    r = vec_ref(ex, st, args[0])
    v = as_vec(ex, st, r)
    n = args[1]
    nv = VecV(v.elem_ty, v.cap, Sym(z3.If(z3.ULT(n.t, v.len.t), n.t, v.len.t), "usize"), list(v.elems))
    ex.write_path(st, r.cell, r.proj, nv)
    return [(UNIT, None)]


def h_vec_last(ex, st, frame, t, nf, args, dty):
    r = vec_ref(ex, st, args[0])
    v = as_vec(ex, st, r)
    n = v.len.t
    cn = _conc(n)
    if cn is not None:
        if cn == 0:
            return [(none(dty), None)]
        return [(some(Ref(r.cell, tuple(r.proj) + (("index", BV64(cn - 1)),), False, "&" + v.elem_ty), dty), None)]
    empty = n == BV64(0)
    ref = Ref(r.cell, tuple(r.proj) + (("index", n - 1),), False, "&" + v.elem_ty)
    return [(none(dty), empty), (some(ref, dty), z3.Not(empty))]


def h_vec_first(ex, st, frame, t, nf, args, dty):
    r = vec_ref(ex, st, args[0])
    v = as_vec(ex, st, r)
    empty = v.len.t == BV64(0)
    ref = Ref(r.cell, tuple(r.proj) + (("index", BV64(0)),), False, "&" + v.elem_ty)
    return [(none(dty), empty), (some(ref, dty), z3.Not(empty))]


def h_vec_reverse(ex, st, frame, t, nf, args, dty):
    r = vec_ref(ex, st, args[0])
    v = as_vec(ex, st, r)
    n = v.len.t
    olds = [elem_at(ex, st, v, k) for k in range(v.cap)]
    new = []
    for k in range(v.cap):
        # new[k] = old[n-1-k] for k < n
        e = None
        for j in range(v.cap - 1, -1, -1):
            e = olds[j] if e is None else ex.ite(n - 1 - BV64(k) == BV64(j), olds[j], e)
        new.append(e)
    nv = VecV(v.elem_ty, v.cap, v.len, new)
    ex.write_path(st, r.cell, r.proj, nv)
    return [(UNIT, None)]


def h_clone(ex, st, frame, t, nf, args, dty):
    v = deref_val(ex, st, args[0])
    return [(copy.deepcopy(v), None)]


def ord_discr(ex, st, v):
    return ex.get_discr(st, v).t


def h_binary_search_by(ex, st, frame, t, nf, args, dty):
    """Contract of slice::binary_search_by (std docs): if the slice is partitioned w.r.t. the comparator
    (all Less, then all Equal, then all Greater) returns Ok(i) with f(v[i])==Equal if one exists, else Err(i) with
    i the partition point; unspecified (any in-range result) otherwise."""
    r = vec_ref(ex, st, args[0])
    v = as_vec(ex, st, r)
    f = args[1]
    n = v.len.t
    ords = []
    for k in range(v.cap):
        er = Ref(r.cell, tuple(r.proj) + (("index", BV64(k)),), False, "&" + v.elem_ty)
        o = eval_pure(ex, st, f, [er])
        ords.append(ord_discr(ex, st, o))
    LESS, EQ, GT = BV64(-1), BV64(0), BV64(1)
    part = []
    for k in range(v.cap - 1):
        part.append(z3.Implies(z3.ULT(BV64(k + 1), n), ords[k] <= ords[k + 1]))
    partitioned = z3.And(part) if part else z3.BoolVal(True)
    i = z3.BitVec(fresh_name("bs_i"), 64)
    found = z3.Bool(fresh_name("bs_found"))
    exists_eq = z3.Or([z3.And(z3.ULT(BV64(k), n), ords[k] == EQ) for k in range(v.cap)])
    ord_i = ords[v.cap - 1]
    for k in range(v.cap - 2, -1, -1):
        ord_i = z3.If(i == BV64(k), ords[k], ord_i)
    spec_found = z3.And(z3.ULT(i, n), ord_i == EQ)
    spec_nf = z3.And(z3.ULE(i, n),
                     z3.And([z3.Implies(z3.ULT(BV64(k), n),
                                        z3.If(z3.ULT(BV64(k), i), ords[k] == LESS, ords[k] == GT))
                             for k in range(v.cap)]))
    st.pc.append(z3.If(partitioned,
                       z3.And(found == exists_eq, z3.If(found, spec_found, spec_nf)),
                       z3.If(found, z3.ULT(i, n), z3.ULE(i, n))))
    iv = Sym(i, "usize")
    return [(ok(iv, dty), found), (err(iv, dty), z3.Not(found))]


def h_unwrap_or_else(ex, st, frame, t, nf, args, dty):
    v, f = args[0], args[1]
    d = ex.get_discr(st, v).t
    is_res = base_type(v.ty).split("::")[-1] == "Result" or "Result" in nf
    if is_res:
        good = d == BV64(0)
        okv = ex._get_field(st, v, "Ok", 0, dty)
        ev = ex._get_field(st, v, "Err", 0, "?") if ("Err", 0) in v.fields else None
        alts = []
        if not z3.is_false(z3.simplify(good)):
            alts.append((okv, good))
        if not z3.is_true(z3.simplify(good)):
            if ev is None:
                raise Unsupported("unwrap_or_else: Err payload unknown")
            res = eval_pure(ex, st, f, [ev])
            alts.append((res, z3.Not(good)))
        return alts
    raise Unsupported("unwrap_or_else on Option")


def h_iter_position_is_deleted(ex, st, frame, t, nf, args, dty):
    raise Unsupported("position")


def h_mem_take(ex, st, frame, t, nf, args, dty):
    r = args[0]
    if not isinstance(r, Ref):
        raise Unsupported("mem::take arg")
    old = ex.read_path(st, r.cell, r.proj)
    ex.write_path(st, r.cell, r.proj, default_value(ex, st, old, dty))
    return [(old, None)]


def default_value(ex, st, like, ty):
    hook = getattr(ex, "default_hook", None)
    if hook is not None:
        v = hook(ex, st, like, ty)
        if v is not None:
            return v
    d = h_default(ex, st, None, None, "", [], ty if ty and ty != "?" else getattr(like, "ty", "?"))
    return d[0][0]


def h_mem_replace(ex, st, frame, t, nf, args, dty):
    r = args[0]
    old = ex.read_path(st, r.cell, r.proj)
    ex.write_path(st, r.cell, r.proj, args[1])
    return [(old, None)]


def apply_writes(ex, st, val):
    """handlers may return ('write', ref, value) pseudo-values: perform the write, result is unit"""
    return val


def h_ord_cmp_int(ex, st, frame, t, nf, args, dty):
    a = deref_val(ex, st, args[0])
    b = deref_val(ex, st, args[1])
    if not (isinstance(a, Sym) and isinstance(b, Sym)):
        raise Unsupported("Ord::cmp on non-integers")
    return [(ex.binop(st, "Cmp", a, b), None)]


def h_partial_cmp_int(ex, st, frame, t, nf, args, dty):
    a = deref_val(ex, st, args[0])
    b = deref_val(ex, st, args[1])
    if not (isinstance(a, Sym) and isinstance(b, Sym)):
        raise Unsupported("PartialOrd on non-integers")
    op = {"lt": "Lt", "le": "Le", "gt": "Gt", "ge": "Ge", "eq": "Eq", "ne": "Ne"}[nf.rsplit("::", 1)[1]]
    return [(ex.binop(st, op, a, b), None)]


def h_min_max(ex, st, frame, t, nf, args, dty):
    a, b = args[0], args[1]
    if not (isinstance(a, Sym) and isinstance(b, Sym)):
        raise Unsupported("min/max on non-integers")
    signed = a.ty.startswith("i")
    lt = (b.t < a.t) if signed else z3.ULT(b.t, a.t)
    if nf.endswith("min"):
        return [(Sym(z3.If(lt, b.t, a.t), a.ty), None)]
    gt = (b.t > a.t) if signed else z3.UGT(b.t, a.t)
    return [(Sym(z3.If(gt, b.t, a.t) if False else z3.If(lt, a.t, b.t), a.ty), None)]


def h_box_new_uninit(ex, st, frame, t, nf, args, dty):
    c = st.new_cell(Obj("uninit"))
    b = Obj(dty)
    u = Obj("Unique")
    u.fields[(None, 0)] = Ref(c, (), True, "NonNull<?>")
    b.fields[(None, 0)] = u
    return [(b, None)]


def h_box_into_vec(ex, st, frame, t, nf, args, dty):
    b = args[0]
    ptr = b.fields[(None, 0)].fields[(None, 0)]
    cellv = ex.read_path(st, ptr.cell, ptr.proj)
    # MaybeUninit<[T;N]> { uninit: (), value: ManuallyDrop { value: MaybeDangling(arr) } }  -> field path 1.0.0
    cur = cellv
    for _ in range(3):
        nxt = None
        for (var, idx), val in cur.fields.items():
            if isinstance(val, (Obj, VecV)):
                nxt = val
        if nxt is None:
            raise Unsupported("box_assume_init_into_vec: layout")
        cur = nxt
        if isinstance(cur, VecV):
            break
    if not isinstance(cur, VecV):
        raise Unsupported("box_assume_init_into_vec: no array")
    ga = generic_args(dty)
    v = VecV(ga[0] if ga else cur.elem_ty, ex.cap, cur.len, list(cur.elems[:ex.cap]) + [None] * max(0, ex.cap - len(cur.elems)))
    v.capacity = Sym(cur.len.t, "usize")
    return [(v, None)]


def h_option_map_generic(ex, st, frame, t, nf, args, dty):
    raise Unsupported("Option::map")


def h_into_future(ex, st, frame, t, nf, args, dty):
    return [(args[0], None)]


def h_pin_new_unchecked(ex, st, frame, t, nf, args, dty):
    p = Obj(dty)
    p.fields[(None, 0)] = args[0]
    return [(p, None)]


def h_get_context(ex, st, frame, t, nf, args, dty):
    return [(args[0], None)]


def split_enum(ex, st, v, good_discr):
    """-> (cond_good) for Option/Result style objects"""
    d = ex.get_discr(st, v).t
    return d == BV64(good_discr)


def h_option_and_then(ex, st, frame, t, nf, args, dty):
    v, f = args[0], args[1]
    is_some = split_enum(ex, st, v, 1)
    outs = []
    if ex.feasible(st, z3.Not(is_some)):
        s_none = st.fork()
        s_none.pc.append(z3.Not(is_some))
        ex.set_dest_and_goto(s_none, t, none(dty))
        outs.append(s_none)
    if ex.feasible(st, is_some):
        st.pc.append(is_some)
        payload = ex._get_field(st, v, "Some", 0, "?")
        call_value(ex, st, frame, f, [payload], t.dest, t.targets.get("return"))
        outs.append(st)
    return ("states", outs)


def _wrap_some(dty):
    def w(ex, st, val):
        return some(val, dty)
    return w


def h_option_map(ex, st, frame, t, nf, args, dty):
    v, f = args[0], args[1]
    is_some = split_enum(ex, st, v, 1)
    outs = []
    if ex.feasible(st, z3.Not(is_some)):
        s_none = st.fork()
        s_none.pc.append(z3.Not(is_some))
        ex.set_dest_and_goto(s_none, t, none(dty))
        outs.append(s_none)
    if ex.feasible(st, is_some):
        st.pc.append(is_some)
        payload = ex._get_field(st, v, "Some", 0, "?")
        call_value(ex, st, frame, f, [payload], t.dest, t.targets.get("return"))
        st.frames[-1].ret_wrap = _wrap_some(dty)
        outs.append(st)
    return ("states", outs)


def h_option_filter(ex, st, frame, t, nf, args, dty):
    """Option::filter(opt, pred): pred is evaluated purely on a reference to the payload"""
    v, f = args[0], args[1]
    is_some = split_enum(ex, st, v, 1)
    alts = [(none(dty), z3.Not(is_some))]
    if ex.feasible(st, is_some):
        payload = ex._get_field(st, v, "Some", 0, "?")
        c = st.new_cell(payload)
        keep = eval_pure(ex, st, f, [Ref(c, (), False, "&?")])
        if not isinstance(keep, Sym):
            raise Unsupported("Option::filter predicate")
        alts.append((some(payload, dty), z3.And(is_some, keep.t)))
        alts.append((none(dty), z3.And(is_some, z3.Not(keep.t))))
    return alts


def h_option_cloned(ex, st, frame, t, nf, args, dty):
    v = args[0]
    is_some = split_enum(ex, st, v, 1)
    alts = [(none(dty), z3.Not(is_some))]
    if ex.feasible(st, is_some):
        payload = ex._get_field(st, v, "Some", 0, "?")
        alts.append((some(copy.deepcopy(deref_val(ex, st, payload)), dty), is_some))
    return alts


def h_option_unwrap_or(ex, st, frame, t, nf, args, dty):
    v, dflt = args[0], args[1]
    is_some = split_enum(ex, st, v, 1)
    alts = [(dflt, z3.Not(is_some))]
    if ex.feasible(st, is_some):
        alts.append((ex._get_field(st, v, "Some", 0, dty), is_some))
    return alts


def h_option_is_some(ex, st, frame, t, nf, args, dty):
    v = deref_val(ex, st, args[0])
    c = split_enum(ex, st, v, 1)
    if nf.endswith("is_none"):
        c = z3.Not(c)
    return [(Sym(c, "bool"), None)]


def h_result_is_ok(ex, st, frame, t, nf, args, dty):
    v = deref_val(ex, st, args[0])
    c = split_enum(ex, st, v, 0)
    if nf.endswith("is_err"):
        c = z3.Not(c)
    return [(Sym(c, "bool"), None)]


def h_try_branch(ex, st, frame, t, nf, args, dty):
    v = args[0]
    if "Result" in nf.split(" as ")[0]:
        good = split_enum(ex, st, v, 0)
        alts = []
        if ex.feasible(st, good):
            alts.append((mk_enum(dty, "Continue", 0, [ex._get_field(st, v, "Ok", 0, "?")]), good))
        if ex.feasible(st, z3.Not(good)):
            e = ex._get_field(st, v, "Err", 0, "?")
            alts.append((mk_enum(dty, "Break", 1, [err(e, "Result<Infallible, E>")]), z3.Not(good)))
        return alts
    good = split_enum(ex, st, v, 1)
    alts = []
    if ex.feasible(st, good):
        alts.append((mk_enum(dty, "Continue", 0, [ex._get_field(st, v, "Some", 0, "?")]), good))
    if ex.feasible(st, z3.Not(good)):
        alts.append((mk_enum(dty, "Break", 1, [none("Option<Infallible>")]), z3.Not(good)))
    return alts


def h_from_residual(ex, st, frame, t, nf, args, dty):
    r = args[0]
    if base_type(dty).split("::")[-1] == "Option":
        return [(none(dty), None)]
    e = r.fields.get(("Err", 0)) if isinstance(r, Obj) else None
    if e is None:
        e = Obj("error")
    o = err(e, dty)
    st.events.append(("error_return", nf, None))
    return [(o, None)]


def h_err_map_keep(ex, st, frame, t, nf, args, dty):
    """Result::map_err / with_context / context: Ok payload kept, Err payload replaced by an arbitrary error.
    The closure argument only builds the error value and is not executed."""
    v = args[0]
    good = split_enum(ex, st, v, 0)
    alts = []
    if ex.feasible(st, good):
        alts.append((ok(ex._get_field(st, v, "Ok", 0, "?"), dty), good))
    if ex.feasible(st, z3.Not(good)):
        e = Obj("error")
        e.tag = ("mapped_error", v.fields.get(("Err", 0)))
        alts.append((err(e, dty), z3.Not(good)))
    return alts


def _captures_mut(f):
    """does the closure capture anything through which it could change caller-visible state?  `&mut` captures, but also
    shared references / smart pointers (atomics and locks are mutated through `&`)"""
    if not isinstance(f, Obj):
        return False
    for x in f.fields.values():
        if isinstance(x, Ref):
            return True
        if isinstance(x, Obj) and re.search(r"(Arc|Rc)<", x.ty or ""):
            return True
    return False


def _closure_classifies(ex, f):
    """does the closure body call into_bincode_if_unexpected_eof?  (then it is executed, so that the way a read error takes
    to the caller can be followed: error values carry ("raw_io", k) / ("classified", src) / ("mapped_error", src) tags)"""
    try:
        body, _ = closure_body(ex, f)
    except Exception:
        return False
    return "into_bincode_if_unexpected_eof" in (getattr(body, "raw", "") or "")


def h_classify_eof(ex, st, frame, t, nf, args, dty):
    e = Obj("error")
    e.tag = ("classified", args[0])
    st.events.append(("classify", nf, args, None))
    return [(e, None)]


def error_chain(e):
    """objects an error value was derived from (through with_context / map_err / classification wrappers)"""
    out, n = [], 0
    while isinstance(e, Obj) and n < 12:
        out.append(e)
        tg = getattr(e, "tag", None)
        e = tg[1] if isinstance(tg, tuple) and len(tg) > 1 and tg[0] in ("mapped_error", "classified") else None
        n += 1
    return out


def unclassified_read_error(ex, st, e):
    """True if error value `e` derives from a tagged raw read error without passing into_bincode_if_unexpected_eof"""
    seen_cls = False
    n = 0
    while n < 12:
        n += 1
        if isinstance(e, Ref):
            e = ex.read_path(st, e.cell, e.proj)
            continue
        if not isinstance(e, Obj):
            return False
        tg = getattr(e, "tag", None)
        if not (isinstance(tg, tuple) and len(tg) > 1):
            return False
        if tg[0] == "raw_io":
            return not seen_cls
        if tg[0] == "classified":
            seen_cls = True
        elif tg[0] != "mapped_error":
            return False
        e = tg[1]
    return False


def raw_io_error(st):
    e = Obj("std::io::Error")
    e.tag = ("raw_io", len(st.events))
    return e


def tag_reads_hook(ex, st, name, fargs, out_ty, dty):
    """await hook: a file read (File::read_exact_at / read_exact_at_allocate / read_all, FileIndex::read_meta) returns an
    arbitrary Result whose error is a tagged raw I/O error (see unclassified_read_error)"""
    if "read_exact_at" in name or name.endswith("read_all") or name.endswith("read_meta"):
        r = ex.fresh(out_ty, st, "rd")
        r.fields[("Err", 0)] = raw_io_error(st)
        st.events.append(("await", name, fargs, r))
        return [(poll_ready(dty, r), None)]
    return None


def h_result_map_err(ex, st, frame, t, nf, args, dty):
    """Result::map_err(self, f).  A closure that captures nothing mutable only builds the error value and is not
    executed (h_err_map_keep); one that captures a reference or smart pointer is executed on the Err path (its side effects
    count: `&mut` state, atomics and locks behind `&`)."""
    v, f = args[0], args[1] if len(args) > 1 else None
    if not _captures_mut(f) and not _closure_classifies(ex, f):
        return h_err_map_keep(ex, st, frame, t, nf, args, dty)
    good = split_enum(ex, st, v, 0)
    outs = []
    if ex.feasible(st, good):
        s_ok = st.fork()
        s_ok.pc.append(good)
        ex.set_dest_and_goto(s_ok, t, ok(ex._get_field(s_ok, v, "Ok", 0, "?"), dty))
        outs.append(s_ok)
    if ex.feasible(st, z3.Not(good)):
        st.pc.append(z3.Not(good))
        payload = ex._get_field(st, v, "Err", 0, "?")
        call_value(ex, st, frame, f, [payload], t.dest, t.targets.get("return"))

        def w(ex_, st_, val, _dty=dty):
            return err(val, _dty)
        st.frames[-1].ret_wrap = w
        outs.append(st)
    return ("states", outs)


def h_int_add_ref(ex, st, frame, t, nf, args, dty):
    """<uN as Add<&uN>>::add / <&uN as Add<uN>>::add ...: integer addition through the operator trait on references;
    overflow panics (the std impls forward to `+`, overflow-checks on)"""
    a = deref_val(ex, st, args[0])
    b = deref_val(ex, st, args[1])
    if not (isinstance(a, Sym) and isinstance(b, Sym)):
        raise Unsupported("Add on non-integers")
    w = a.t.size()
    ovf = z3.ULT(a.t + b.t, a.t)
    return [(Sym(a.t + b.t, a.ty), z3.Not(ovf)), (("panic", "attempt to add with overflow"), ovf)]


def h_future_havoc(ex, st, frame, t, nf, args, dty):
    """a library future whose outcome is arbitrary (semaphore acquisition, ...): awaited like any opaque callee"""
    return [(FutureV(nf, args, None, "havoc"), None)]


def h_result_and(ex, st, frame, t, nf, args, dty):
    """Result::and(self, res): res if self is Ok, else self's error"""
    a, b = args[0], args[1]
    good = split_enum(ex, st, a, 0)
    alts = []
    if ex.feasible(st, good):
        alts.append((b, good))
    if ex.feasible(st, z3.Not(good)):
        alts.append((err(ex._get_field(st, a, "Err", 0, "?"), dty), z3.Not(good)))
    return alts


def h_ok_or_else(ex, st, frame, t, nf, args, dty):
    v = args[0]
    is_some = split_enum(ex, st, v, 1)
    alts = []
    if ex.feasible(st, is_some):
        alts.append((ok(ex._get_field(st, v, "Some", 0, "?"), dty), is_some))
    if ex.feasible(st, z3.Not(is_some)):
        alts.append((err(Obj("error"), dty), z3.Not(is_some)))
    return alts


def h_box_pin(ex, st, frame, t, nf, args, dty):
    c = st.new_cell(args[0])
    p = Obj(dty)
    p.fields[(None, 0)] = Ref(c, (), True, "Box<?>")
    return [(p, None)]


def h_box_new(ex, st, frame, t, nf, args, dty):
    c = st.new_cell(args[0])
    return [(Ref(c, (), True, dty), None)]


def find_future(ex, st, v):
    """Pin<&mut F> / Pin<Box<dyn Future>> / &mut Pin<Box<..>> ... -> (future value, Ref to where it lives)"""
    where = None
    n = 0
    while True:
        n += 1
        if n > 10:
            raise Unsupported("future lookup")
        if isinstance(v, Ref):
            where = v
            v = ex.read_path(st, v.cell, v.proj)
            continue
        if isinstance(v, FutureV):
            return v, where
        if isinstance(v, Obj):
            if v.ty.startswith("{coroutine") or v.ty.startswith("{async"):
                return v, where
            if (None, 0) in v.fields and (base_type(v.ty).split("::")[-1] in ("Pin", "Box", "MaybeDone") or v.ty.startswith("Pin<") or v.ty.startswith("std::pin::Pin<")):
                v = v.fields[(None, 0)]
                continue
        raise Unsupported("not a future: %r" % (v,))


def coroutine_body(ex, ty, obj=None):
    if obj is not None and getattr(obj, "tag", None) and obj.tag[0] == "coroutine_of":
        b = ex.bodies.get(obj.tag[1] + "::{closure#0}")
        if b is not None:
            return b
    m = re.search(r"@([^ }]+:\d+:\d+: \d+:\d+)", ty)
    idx = getattr(ex, "_coroutine_index", None)
    if idx is None:
        idx = {}
        for name, b in ex.bodies.items():
            m2 = re.match(r"^_1: Pin<&mut \{(async (?:block|closure body)@([^}]+)|async fn body of ([^}]+))\}>", b._args_text)
            if m2:
                if m2.group(2):
                    idx["@" + m2.group(2).strip()] = b
                else:
                    idx["fn " + m2.group(3).strip()] = b
        ex._coroutine_index = idx
    if m and ("@" + m.group(1)) in idx:
        return idx["@" + m.group(1)]
    m = re.search(r"async fn body of ([^}]+)", ty)
    if m and ("fn " + m.group(1).strip()) in idx:
        return idx["fn " + m.group(1).strip()]
    return None


def output_type_of_future(dty_poll):
    """Poll<T> -> T"""
    ga = generic_args(dty_poll)
    return ga[0] if ga else "?"


def poll_ready(dty, v):
    return mk_enum(dty, "Ready", 0, [v])


def poll_pending(dty):
    return mk_enum(dty, "Pending", 1)


def _peel_pin(ex, st, v):
    """Pin<&mut X> / &mut Pin<&mut X> / &mut X -> the X object (or None)"""
    n = 0
    while n < 8:
        n += 1
        if isinstance(v, Ref):
            v = ex.read_path(st, v.cell, v.proj)
            continue
        if isinstance(v, Obj) and getattr(v, "tag", None) and v.tag[0] in ("maybe_done", "poll_fn"):
            return v
        if isinstance(v, Obj) and (None, 0) in v.fields and (v.ty.startswith("Pin<") or v.ty.startswith("std::pin::Pin<") or base_type(v.ty).split("::")[-1] == "Pin"):
            v = v.fields[(None, 0)]
            continue
        break
    return None


def h_maybe_done(ex, st, frame, t, nf, args, dty):
    """futures::future::maybe_done(fut) (expansion of join!): the wrapped future, not yet polled"""
    o = Obj(dty)
    o.fields[(None, 0)] = args[0]
    o.tag = ("maybe_done", None)
    return [(o, None)]


def h_poll_fn(ex, st, frame, t, nf, args, dty):
    o = Obj(dty)
    o.tag = ("poll_fn", args[0])
    return [(o, None)]


def h_poll_is_ready(ex, st, frame, t, nf, args, dty):
    v = deref_val(ex, st, args[0])
    d = ex.get_discr(st, v).t
    r = (d == BV64(0)) if nf.endswith("is_ready") else (d != BV64(0))
    return [(Sym(r, "bool"), None)]


def h_pin_as_mut(ex, st, frame, t, nf, args, dty):
    v = args[0]
    if isinstance(v, Ref):
        v = ex.read_path(st, v.cell, v.proj)
    return [(v, None)]


def h_maybe_done_take(ex, st, frame, t, nf, args, dty):
    md = _peel_pin(ex, st, args[0])
    if md is None or md.tag[0] != "maybe_done":
        raise Unsupported("take_output of an unmodelled MaybeDone")
    out = md.fields.get(("g", "out"))
    if out is None:
        return [(none(dty), None)]
    return [(some(out, dty), None)]


def _maybe_done_poll(ex, st, frame, t, nf, args, dty, md):
    """<MaybeDone<F> as Future>::poll: the inner future is polled (every callee future is Ready at its first poll, as
    everywhere in this executor); its output is kept for take_output."""
    if ("g", "out") in md.fields:
        return [(poll_ready(dty, UNIT), None)]
    fut = md.fields[(None, 0)]
    if not isinstance(fut, FutureV) or fut.kind in ("closure_future", "stream_next"):
        raise Unsupported("join! over %r" % (fut,))
    body = coroutine_body(ex, md.ty)
    if body is None or not body.ret_ty:
        raise Unsupported("join!: output type of %s" % md.ty[:80])
    alts = h_future_poll(ex, st, frame, t, nf, [fut, args[1]], body.ret_ty)
    if not (isinstance(alts, list) and len(alts) == 1 and alts[0][1] is None):
        raise Unsupported("join!: inner future with several outcomes at the poll")
    pv = alts[0][0]
    md.fields[("g", "out")] = pv.fields[("Ready", 0)]
    return [(poll_ready(dty, UNIT), None)]


def h_future_poll(ex, st, frame, t, nf, args, dty):
    special = _peel_pin(ex, st, args[0])
    if special is not None and special.tag[0] == "maybe_done":
        return _maybe_done_poll(ex, st, frame, t, nf, args, dty, special)
    if special is not None and special.tag[0] == "poll_fn":
        call_value(ex, st, frame, special.tag[1], [args[1]], t.dest, t.targets.get("return"))
        return "pushed"
    fut, where = find_future(ex, st, args[0])
    out_ty = output_type_of_future(dty)
    if isinstance(fut, FutureV) and fut.kind == "closure_future":
        # blocking-pool model: the closure runs to completion when the future is first polled
        st.events.append(("run_closure", fut.callee, None, None))
        call_value(ex, st, frame, fut.args[0], [], t.dest, t.targets.get("return"))
        def _w(ex_, st_, val, _dty=dty):
            return poll_ready(_dty, val)
        st.frames[-1].ret_wrap = _w
        return "pushed"
    if isinstance(fut, FutureV) and fut.kind == "stream_next":
        from . import iters as IT
        return IT.stream_poll(ex, st, fut, out_ty, dty)
    if isinstance(fut, FutureV) and fut.kind == "lock":
        g = lock_guard_for(ex, st, fut.args[0])
        st.events.append(("await", fut.callee, fut.args, g))
        return [(poll_ready(dty, g), None)]
    if isinstance(fut, FutureV):
        name, fargs = fut.callee, fut.args
    else:
        body = coroutine_body(ex, fut.ty, fut)
        if body is None:
            raise Unsupported("coroutine body not found for " + fut.ty[:80])
        auto = re.sub(r"::\{closure#0\}$", "", body.name) in getattr(ex, "auto_inlined", ())
        forced = body.name in getattr(st, "force_opaque", ())
        wanted = ex.inline(body) or getattr(ex, "inline_all_coroutines", False)
        if wanted or (auto and not forced):
            snap = None
            if not wanted and not any(getattr(f, "auto", False) for f in st.frames):
                # executed only because it is outside the frame assumptions: keep a way back (see Executor.run)
                snap = st.fork()
                snap.frames[-1].resume_term = True
                snap.force_opaque = set(getattr(st, "force_opaque", ())) | {body.name}
            pin = Obj("Pin<&mut %s>" % fut.ty)
            pin.fields[(None, 0)] = where
            ex.push_frame(st, body, [pin, args[1]], t.dest, t.targets.get("return"))
            if not wanted:
                st.frames[-1].auto = True
                st.frames[-1].fallback = snap
            return "pushed"
        name, fargs = re.sub(r"::\{closure#0\}$", "", ex.canon(body)), [fut]
        if forced:
            ex.havoc_reachable(st, [fut])
            ex.stats["calls_havoc"]["havoc-all:" + name] = ex.stats["calls_havoc"].get("havoc-all:" + name, 0) + 1
    hook = getattr(ex, "await_hook", None)
    if hook is not None:
        r = hook(ex, st, name, fargs, out_ty, dty)
        if r is not None:
            return r
    v = ex.fresh(out_ty, st, "aw")
    st.events.append(("await", name, fargs, v))
    return [(poll_ready(dty, v), None)]


def _arc_payload_ref(ex, st, r, pointee_ty):
    """Arc/Rc: the payload lives in its own heap cell shared by all clones; pseudo-field 7001 holds the pointer"""
    arc = ex.read_path(st, r.cell, r.proj)
    if isinstance(arc, Ref):
        return arc
    if not isinstance(arc, Obj):
        raise Unsupported("smart pointer value %r" % (arc,))
    cur = arc.fields.get((None, 7001))
    if isinstance(cur, Ref):
        return cur
    mk = (arc.oid, (None, 7001))
    if cur is None and mk in st.lazy and isinstance(st.lazy[mk], Ref):
        arc.fields[(None, 7001)] = st.lazy[mk]
        return st.lazy[mk]
    if cur is None:
        cur = ex.fresh(pointee_ty, st, "arc") if pointee_ty not in ("?", "") else Obj("?")
    c = st.new_cell(cur)
    ptr = Ref(c, (), True, "&" + pointee_ty)
    arc.fields[(None, 7001)] = ptr
    st.lazy[mk] = ptr
    return ptr


def h_smart_deref(ex, st, frame, t, nf, args, dty):
    """<Arc<T>/Rc<T>/Box<T>/ManuallyDrop<T> as Deref>::deref(&p): reference to the (shared) pointee"""
    r = args[0]
    if not isinstance(r, Ref):
        raise Unsupported("smart deref of %r" % (r,))
    pt = re.sub(r"^&('\w+ )?(mut )?", "", dty.strip())
    p = _arc_payload_ref(ex, st, r, pt)
    return [(Ref(p.cell, p.proj, p.mut, dty), None)]


def h_arc_clone(ex, st, frame, t, nf, args, dty):
    r = args[0]
    ga = generic_args(dty)
    _arc_payload_ref(ex, st, r, ga[0] if ga else "?")
    v = ex.read_path(st, r.cell, r.proj)
    return [(copy.deepcopy(v), None)]

def _atomic_cell(ex, st, r, ty):
    if not isinstance(r, Ref):
        raise Unsupported("atomic op on %r" % (r,))
    return Ref(r.cell, tuple(r.proj) + (("field", 7002, ty),), True, "&mut " + ty)


def h_atomic(ex, st, frame, t, nf, args, dty):
    op = nf.rsplit("::", 1)[1]
    if op != "load":
        st.events.append(("atomic", op, [frame.body.name], args[1] if len(args) > 1 else None))
    if op == "load":
        c = _atomic_cell(ex, st, args[0], dty)
        return [(ex.read_path(st, c.cell, c.proj), None)]
    if op == "store":
        v = args[1]
        c = _atomic_cell(ex, st, args[0], v.ty)
        ex.write_path(st, c.cell, c.proj, v)
        return [(UNIT, None)]
    if op in ("fetch_add", "fetch_sub", "fetch_max", "fetch_min", "fetch_or", "fetch_and", "swap"):
        v = args[1]
        c = _atomic_cell(ex, st, args[0], v.ty)
        old = ex.read_path(st, c.cell, c.proj)
        if v.ty == "bool":
            new = {"fetch_or": z3.Or(old.t, v.t), "fetch_and": z3.And(old.t, v.t), "swap": v.t}[op]
        else:
            new = {"fetch_add": old.t + v.t, "fetch_sub": old.t - v.t,
                   "fetch_max": z3.If(z3.UGT(v.t, old.t), v.t, old.t), "fetch_min": z3.If(z3.ULT(v.t, old.t), v.t, old.t),
                   "fetch_or": old.t | v.t, "fetch_and": old.t & v.t, "swap": v.t}[op]
        ex.write_path(st, c.cell, c.proj, Sym(new, old.ty))
        return [(old, None)]
    if op in ("compare_exchange", "compare_exchange_weak"):
        cur, new = args[1], args[2]
        c = _atomic_cell(ex, st, args[0], cur.ty)
        old = ex.read_path(st, c.cell, c.proj)
        eq = old.t == cur.t
        return [(("write_then", c, new, ok(old, dty)), eq), (err(old, dty), z3.Not(eq))]
    raise Unsupported("atomic op " + op)


def h_atomic_new(ex, st, frame, t, nf, args, dty):
    o = Obj(dty)
    o.fields[(None, 7002)] = args[0]
    return [(o, None)]


def h_async_lock(ex, st, frame, t, nf, args, dty):
    """async_lock / tokio RwLock::{read, write, upgradable_read}: a future that yields a guard; the guard is a
    reference to the protected data (pseudo-field 7000).  Contention, fairness and deadlock are outside the model."""
    op = nf.rsplit("::", 1)[1]
    lock = vec_ref_any(ex, st, args[0])
    fut = FutureV("lock:" + op, [lock], None, "lock")
    return [(fut, None)]


def lock_guard_for(ex, st, lock):
    lt = pointee(lock.ty) if lock.ty and lock.ty != "?" else "?"
    ga = generic_args(lt) if lt != "?" else []
    dt = ga[0] if ga else "?"
    return Ref(lock.cell, tuple(lock.proj) + (("field", 7000, dt),), True, "&mut " + dt)


def h_default(ex, st, frame, t, nf, args, dty):
    d = dty.strip()
    if d in INT_W:
        return [(Sym(z3.BitVecVal(0, INT_W[d]), d), None)]
    if d == "bool":
        return [(Sym(z3.BoolVal(False), "bool"), None)]
    bt = base_type(d).split("::")[-1]
    if bt == "Vec":
        ga = generic_args(d)
        return [(VecV(ga[0] if ga else "?", ex.cap, usize(0)), None)]
    if bt == "Option":
        return [(none(d), None)]
    o = Obj(d)
    o.tag = ("default", d)
    return [(o, None)]


def h_lock_new(ex, st, frame, t, nf, args, dty):
    o = Obj(dty)
    o.fields[(None, 7000)] = args[0]
    return [(o, None)]


def h_lock_into_inner(ex, st, frame, t, nf, args, dty):
    l = args[0]
    if isinstance(l, Ref):
        l = ex.read_path(st, l.cell, l.proj)
    if not isinstance(l, Obj):
        raise Unsupported("into_inner of %r" % (l,))
    ga = generic_args(l.ty)
    v = ex._get_field(st, l, None, 7000, ga[0] if ga else "?")
    if base_type(dty).split("::")[-1] == "Result":
        return [(ok(v, dty), None)]
    return [(v, None)]


def _opt_place(ex, st, r):
    """r: reference to an Option; returns (ref, obj)"""
    if not isinstance(r, Ref):
        raise Unsupported("expected &Option, got %r" % (r,))
    o = ex.read_path(st, r.cell, r.proj)
    if isinstance(o, Ref):
        return _opt_place(ex, st, o)
    if not isinstance(o, Obj):
        raise Unsupported("expected Option object, got %r" % (o,))
    return r, o


def h_option_as_ref(ex, st, frame, t, nf, args, dty):
    r, o = _opt_place(ex, st, args[0])
    is_some = split_enum(ex, st, o, 1)
    ga = generic_args(dty)
    inner = Ref(r.cell, tuple(r.proj) + (("downcast", "Some"), ("field", 0, pointee(ga[0]) if ga else "?")), nf.endswith("as_mut"), ga[0] if ga else "&?")
    return [(some(inner, dty), is_some), (none(dty), z3.Not(is_some))]


def h_option_as_deref(ex, st, frame, t, nf, args, dty):
    """Option<Box<T>>::as_deref(&self) -> Option<&T>.  A Box is modelled as the reference to its heap cell."""
    r, o = _opt_place(ex, st, args[0])
    is_some = split_enum(ex, st, o, 1)
    ga = generic_args(dty)
    payload = ex.read_path(st, r.cell, tuple(r.proj) + (("downcast", "Some"), ("field", 0, "?")))
    if isinstance(payload, Ref):
        inner = Ref(payload.cell, payload.proj, False, ga[0] if ga else "&?")
    else:
        inner = Ref(r.cell, tuple(r.proj) + (("downcast", "Some"), ("field", 0, "?")), False, ga[0] if ga else "&?")
    return [(some(inner, dty), is_some), (none(dty), z3.Not(is_some))]


def h_option_take(ex, st, frame, t, nf, args, dty):
    r, o = _opt_place(ex, st, args[0])
    old = copy.deepcopy(o)
    old.oid = o.oid
    ex.write_path(st, r.cell, r.proj, none(o.ty))
    return [(old, None)]


def h_option_replace(ex, st, frame, t, nf, args, dty):
    r, o = _opt_place(ex, st, args[0])
    old = copy.deepcopy(o)
    old.oid = o.oid
    ex.write_path(st, r.cell, r.proj, some(args[1], o.ty))
    return [(old, None)]


def h_option_zip(ex, st, frame, t, nf, args, dty):
    a, b = args[0], args[1]
    both = z3.And(split_enum(ex, st, a, 1), split_enum(ex, st, b, 1))
    alts = [(none(dty), z3.Not(both))]
    if ex.feasible(st, both):
        tup = Obj("(A, B)")
        tup.fields[(None, 0)] = ex._get_field(st, a, "Some", 0, "?")
        tup.fields[(None, 1)] = ex._get_field(st, b, "Some", 0, "?")
        alts.append((some(tup, dty), both))
    return alts


def h_option_flatten(ex, st, frame, t, nf, args, dty):
    a = args[0]
    outer = split_enum(ex, st, a, 1)
    alts = [(none(dty), z3.Not(outer))]
    if ex.feasible(st, outer):
        inner = ex._get_field(st, a, "Some", 0, dty)
        if isinstance(inner, Ref):
            inner = ex.read_path(st, inner.cell, inner.proj)
        alts.append((inner, outer))
    return alts


def h_option_copied(ex, st, frame, t, nf, args, dty):
    return h_option_cloned(ex, st, frame, t, nf, args, dty)


def h_option_unwrap_or_default(ex, st, frame, t, nf, args, dty):
    v = args[0]
    is_some = split_enum(ex, st, v, 1)
    d = h_default(ex, st, frame, t, nf, [], dty)[0][0]
    alts = [(d, z3.Not(is_some))]
    if ex.feasible(st, is_some):
        alts.append((ex._get_field(st, v, "Some", 0, dty), is_some))
    return alts


def h_option_map_or(ex, st, frame, t, nf, args, dty):
    v, dflt, f = args[0], args[1], args[2]
    is_some = split_enum(ex, st, v, 1)
    outs = []
    if ex.feasible(st, z3.Not(is_some)):
        s_none = st.fork()
        s_none.pc.append(z3.Not(is_some))
        ex.set_dest_and_goto(s_none, t, copy.deepcopy(dflt))
        outs.append(s_none)
    if ex.feasible(st, is_some):
        st.pc.append(is_some)
        payload = ex._get_field(st, v, "Some", 0, "?")
        call_value(ex, st, frame, f, [payload], t.dest, t.targets.get("return"))
        outs.append(st)
    return ("states", outs)


def h_result_or_else(ex, st, frame, t, nf, args, dty):
    """Result::or_else(self, f): Ok(v) -> Ok(v); Err(e) -> f(e)"""
    v, f = args[0], args[1]
    is_ok = split_enum(ex, st, v, 0)
    outs = []
    if ex.feasible(st, is_ok):
        s_ok = st.fork()
        s_ok.pc.append(is_ok)
        ex.set_dest_and_goto(s_ok, t, ok(ex._get_field(s_ok, v, "Ok", 0, "?"), dty))
        outs.append(s_ok)
    if ex.feasible(st, z3.Not(is_ok)):
        st.pc.append(z3.Not(is_ok))
        payload = ex._get_field(st, v, "Err", 0, "?")
        call_value(ex, st, frame, f, [payload], t.dest, t.targets.get("return"))
        outs.append(st)
    return ("states", outs)


def h_slice_get(ex, st, frame, t, nf, args, dty):
    r = vec_ref(ex, st, args[0])
    v = as_vec(ex, st, r)
    i = args[1]
    if not isinstance(i, Sym):
        raise Unsupported("slice::get with a range")
    inb = z3.ULT(i.t, v.len.t)
    ga = generic_args(dty)
    ref = Ref(r.cell, tuple(r.proj) + (("index", i.t),), nf.endswith("get_mut"), ga[0] if ga else "&?")
    return [(some(ref, dty), inb), (none(dty), z3.Not(inb))]


def h_vec_last_mut(ex, st, frame, t, nf, args, dty):
    return h_vec_last(ex, st, frame, t, nf, args, dty)


def h_vec_pop(ex, st, frame, t, nf, args, dty):
    r = vec_ref(ex, st, args[0])
    v = as_vec(ex, st, r)
    n = v.len.t
    cn = _conc(n)
    if cn is not None:
        if cn == 0:
            return [(none(dty), None)]
        item = elem_at(ex, st, v, cn - 1)
        new = list(v.elems)
        new[cn - 1] = None
        nv = VecV(v.elem_ty, v.cap, Sym(BV64(cn - 1), "usize"), new)
        nv.oid = v.oid + 0
        ex.write_path(st, r.cell, r.proj, nv)
        return [(some(item, dty), None)]
    empty = n == BV64(0)
    item = None
    for k in range(v.cap - 1, -1, -1):
        e = elem_at(ex, st, v, k)
        item = e if item is None else ex.ite(n - 1 == BV64(k), e, item)
    nv = VecV(v.elem_ty, v.cap, Sym(z3.If(empty, n, n - 1), "usize"), list(v.elems))
    return [(("write_then", r, nv, some(item, dty)), z3.Not(empty)), (none(dty), empty)]


def h_checked_sub(ex, st, frame, t, nf, args, dty):
    a, b = args[0], args[1]
    under = z3.ULT(a.t, b.t)
    return [(none(dty), under), (some(Sym(a.t - b.t, a.ty), dty), z3.Not(under))]


def h_checked_add(ex, st, frame, t, nf, args, dty):
    a, b = args[0], args[1]
    ov = z3.Not(z3.BVAddNoOverflow(a.t, b.t, False))
    return [(none(dty), ov), (some(Sym(a.t + b.t, a.ty), dty), z3.Not(ov))]


def h_checked_mul(ex, st, frame, t, nf, args, dty):
    a, b = args[0], args[1]
    w = a.t.size()
    if a.ty.startswith("i"):
        raise Unsupported("signed checked_mul")
    wide = z3.ZeroExt(w, a.t) * z3.ZeroExt(w, b.t)
    ov = z3.Extract(2 * w - 1, w, wide) != z3.BitVecVal(0, w)
    # the result is the low half of the SAME double-width product term, so that claims stated over that term need no
    # reasoning about two different multipliers
    return [(none(dty), ov), (some(Sym(z3.Extract(w - 1, 0, wide), a.ty), dty), z3.Not(ov))]


def h_int_partial_cmp(ex, st, frame, t, nf, args, dty):
    """<uN as PartialOrd>::partial_cmp(&a, &b) / <uN as Ord>::cmp: Some(Ordering) / Ordering"""
    a = deref_val(ex, st, args[0]) if isinstance(args[0], Ref) else args[0]
    b = deref_val(ex, st, args[1]) if isinstance(args[1], Ref) else args[1]
    signed = a.ty.startswith("i")
    lt = (a.t < b.t) if signed else z3.ULT(a.t, b.t)
    o = Obj("std::cmp::Ordering")
    o.discr = Sym(z3.If(lt, BV64(-1), z3.If(a.t == b.t, BV64(0), BV64(1))), "isize")
    if nf.endswith("partial_cmp"):
        return [(some(o, dty), None)]
    return [(o, None)]


def h_checked_rem(ex, st, frame, t, nf, args, dty):
    a, b = args[0], args[1]
    if a.ty.startswith("i"):
        raise Unsupported("signed checked_rem")
    zero = b.t == z3.BitVecVal(0, b.t.size())
    return [(none(dty), zero), (some(Sym(z3.URem(a.t, b.t), a.ty), dty), z3.Not(zero))]


def h_saturating_sub(ex, st, frame, t, nf, args, dty):
    a, b = args[0], args[1]
    return [(Sym(z3.If(z3.ULT(a.t, b.t), z3.BitVecVal(0, a.t.size()), a.t - b.t), a.ty), None)]


def h_cow_as_ref(ex, st, frame, t, nf, args, dty):
    r = args[0]
    c = deref_val(ex, st, r)
    d = ex.get_discr(st, c).t
    alts = []
    if ex.feasible(st, d == BV64(0)):
        alts.append((ex._get_field(st, c, "Borrowed", 0, dty), d == BV64(0)))
    if ex.feasible(st, d == BV64(1)):
        rr = vec_ref_any(ex, st, r)
        alts.append((Ref(rr.cell, tuple(rr.proj) + (("downcast", "Owned"), ("field", 0, pointee(dty))), False, dty), d == BV64(1)))
    return alts


def h_cow_into_owned(ex, st, frame, t, nf, args, dty):
    c = args[0]
    d = ex.get_discr(st, c).t
    alts = []
    if ex.feasible(st, d == BV64(0)):
        b = ex._get_field(st, c, "Borrowed", 0, "&" + dty)
        alts.append((copy.deepcopy(deref_val(ex, st, b)), d == BV64(0)))
    if ex.feasible(st, d == BV64(1)):
        alts.append((ex._get_field(st, c, "Owned", 0, dty), d == BV64(1)))
    return alts


def h_mem_drop(ex, st, frame, t, nf, args, dty):
    return [(UNIT, None)]


def val_eq(ex, st, a, b, depth=0):
    """structural equality of two values as a z3 Bool (derived PartialEq on enums / structs of scalars)"""
    if depth > 5:
        raise Unsupported("equality too deep")
    a = deref_val(ex, st, a)
    b = deref_val(ex, st, b)
    if isinstance(a, Sym) and isinstance(b, Sym):
        return a.t == b.t
    if isinstance(a, Unit) and isinstance(b, Unit):
        return z3.BoolVal(True)
    if isinstance(a, Obj) and isinstance(b, Obj):
        cs = []
        bt = base_type(a.ty).split("::")[-1]
        is_enum = bt in ex.enums or a.discr is not None or b.discr is not None
        if is_enum:
            da, db = ex.get_discr(st, a).t, ex.get_discr(st, b).t
            cs.append(da == db)
            table = ex.enums.get(bt, {})
            for (var, idx) in set(a.fields) | set(b.fields):
                if var is None or var == "g":
                    continue
                if var not in table:
                    raise Unsupported("equality: unknown variant %s of %s" % (var, bt))
                ty = "?"
                fa = ex._get_field(st, a, var, idx, ty) if (var, idx) in a.fields or True else None
                fb = ex._get_field(st, b, var, idx, ty)
                cs.append(z3.Implies(da == BV64(table[var]), val_eq(ex, st, fa, fb, depth + 1)))
            return z3.And(cs)
        keys = set(k for k in a.fields if k[0] is None) | set(k for k in b.fields if k[0] is None)
        for k in keys:
            cs.append(val_eq(ex, st, ex._get_field(st, a, None, k[1], "?"), ex._get_field(st, b, None, k[1], "?"), depth + 1))
        return z3.And(cs) if cs else z3.BoolVal(True)
    if isinstance(a, FnItem) and isinstance(b, FnItem):
        return z3.BoolVal(True)
    raise Unsupported("equality of %r and %r" % (a, b))


def h_partial_eq(ex, st, frame, t, nf, args, dty):
    e = val_eq(ex, st, args[0], args[1])
    if nf.endswith("::ne"):
        e = z3.Not(e)
    return [(Sym(e, "bool"), None)]


def _ord_key(ex, st, v):
    v = deref_val(ex, st, v)
    if isinstance(v, Sym):
        return v.t
    if isinstance(v, Obj) and v.discr is None:
        f = ex._get_field(st, v, None, 0, "u64")
        if isinstance(f, Sym):
            return f.t
    raise Unsupported("ordering key of %r" % (v,))


def h_option_partial_ord(ex, st, frame, t, nf, args, dty):
    """<Option<T> as PartialOrd>::{lt,le,gt,ge} for T a scalar or a single-field newtype with derived ordering:
    None < Some(_); Some(a) ? Some(b) by the (unsigned) payload."""
    a = deref_val(ex, st, args[0])
    b = deref_val(ex, st, args[1])
    sa, sb = split_enum(ex, st, a, 1), split_enum(ex, st, b, 1)
    ka = _ord_key(ex, st, ex._get_field(st, a, "Some", 0, "?"))
    kb = _ord_key(ex, st, ex._get_field(st, b, "Some", 0, "?"))
    lt = z3.Or(z3.And(z3.Not(sa), sb), z3.And(sa, sb, z3.ULT(ka, kb)))
    eq = z3.Or(z3.And(z3.Not(sa), z3.Not(sb)), z3.And(sa, sb, ka == kb))
    op = nf.rsplit("::", 1)[1]
    r = {"lt": lt, "le": z3.Or(lt, eq), "gt": z3.And(z3.Not(lt), z3.Not(eq)), "ge": z3.Not(lt)}[op]
    return [(Sym(r, "bool"), None)]


def h_vec_extend(ex, st, frame, t, nf, args, dty):
    """<Vec<T> as Extend<T>>::extend(&mut v, iterable) / extend_from_slice: append all items in order"""
    r = vec_ref(ex, st, args[0])
    v = as_vec(ex, st, r)
    src = args[1]
    from .iters import IterV
    if isinstance(src, IterV):
        if not src.dense:
            raise Unsupported("extend from a sparse iterator")
        items = [x for _, x in src.slots]
        m = src.count
    else:
        sv = as_vec(ex, st, src) if isinstance(src, Ref) else src
        if not isinstance(sv, VecV):
            raise Unsupported("extend from %r" % (src,))
        cm = _conc(sv.len.t)
        items = [elem_at(ex, st, sv, k) for k in range(sv.cap if cm is None else cm)]
        m = sv.len.t
    n = v.len.t
    cn = _conc(n)
    total_ok = z3.ULE(n + m, BV64(v.cap))
    if ex.feasible(st, z3.Not(total_ok)):
        raise Unsupported("Vec::extend may exceed the modelled capacity %d" % v.cap)
    new = []
    for k in range(v.cap):
        if cn is not None and k < cn:
            new.append(v.elems[k])
            continue
        old = elem_at(ex, st, v, k) if (cn is None) else None
        e = None
        for j in range(len(items) - 1, -1, -1):
            c = BV64(k) == n + BV64(j)
            e = items[j] if e is None else ex.ite(c, items[j], e)
        if old is not None and e is not None:
            e = ex.ite(z3.ULT(BV64(k), n), old, e)
        elif e is None:
            e = old
        new.append(e)
    nv = VecV(v.elem_ty, v.cap, Sym(z3.simplify(n + m), "usize"), new)
    ex.write_path(st, r.cell, r.proj, nv)
    return [(UNIT, None)]


def h_sort_by(ex, st, frame, t, nf, args, dty):
    """slice::sort_by (stable): the result is the stable permutation ordered by the comparator.  Encoded with one
    position variable per element; the comparator closure is evaluated on every ordered pair.  If the comparator is not
    a consistent total preorder on the inputs the constraints are unsatisfiable: reported as unsupported, never pruned."""
    r = vec_ref(ex, st, args[0])
    v = as_vec(ex, st, r)
    f = args[1]
    n = v.len.t
    cap = v.cap
    cn = _conc(n)
    m = cap if cn is None else cn
    items = [elem_at(ex, st, v, k) for k in range(m)]
    pos = [z3.BitVec(fresh_name("sortpos%d" % k), 64) for k in range(m)]
    cons = []
    for i in range(m):
        cons.append(z3.Implies(z3.ULT(BV64(i), n), z3.ULT(pos[i], n)))
        ri = Ref(r.cell, tuple(r.proj) + (("index", BV64(i)),), False, "&" + v.elem_ty)
        for j in range(m):
            if i == j:
                continue
            rj = Ref(r.cell, tuple(r.proj) + (("index", BV64(j)),), False, "&" + v.elem_ty)
            o = eval_pure(ex, st, f, [ri, rj])
            d = ex.get_discr(st, o).t
            both = z3.And(z3.ULT(BV64(i), n), z3.ULT(BV64(j), n))
            cons.append(z3.Implies(z3.And(both, d == BV64(-1)), z3.ULT(pos[i], pos[j])))
            if i < j:
                cons.append(z3.Implies(z3.And(both, d == BV64(0)), z3.ULT(pos[i], pos[j])))
                cons.append(z3.Implies(both, pos[i] != pos[j]))
    if not ex.feasible(st, z3.And(cons) if cons else z3.BoolVal(True)):
        raise Unsupported("sort_by: comparator is not a consistent total preorder on the modelled inputs")
    for c in cons:
        st.pc.append(c)
    new = []
    for p in range(cap):
        e = None
        for k in range(m - 1, -1, -1):
            e = items[k] if e is None else ex.ite(pos[k] == BV64(p), items[k], e)
        new.append(e if p < m else v.elems[p])
    nv = VecV(v.elem_ty, cap, v.len, new)
    ex.write_path(st, r.cell, r.proj, nv)
    return [(UNIT, None)]


def h_slice_index_range(ex, st, frame, t, nf, args, dty):
    """<[T] as Index<Range<usize>>>::index / RangeFrom / RangeTo: a read-only view, materialised as a fresh vector whose
    element k is base[start + k]; the view remembers where it starts (view_start) for provenance checks."""
    r = vec_ref(ex, st, args[0])
    v = as_vec(ex, st, r)
    rng = args[1]
    n = v.len.t
    if "RangeFrom" in nf:
        start, end = ex._get_field(st, rng, None, 0, "usize").t, n
    elif "RangeTo" in nf:
        start, end = BV64(0), ex._get_field(st, rng, None, 0, "usize").t
    elif "RangeFull" in nf:
        start, end = BV64(0), n
    else:
        start, end = ex._get_field(st, rng, None, 0, "usize").t, ex._get_field(st, rng, None, 1, "usize").t
    ok_ = z3.And(z3.ULE(start, end), z3.ULE(end, n))
    cn = _conc(n)
    m = v.cap if cn is None else cn
    elems = []
    for k in range(v.cap):
        e = None
        for j in range(m - 1, -1, -1):
            if j < k:
                break
            ej = elem_at(ex, st, v, j)
            e = ej if e is None else ex.ite(start + BV64(k) == BV64(j), ej, e)
        elems.append(e)
    view = VecV(v.elem_ty, v.cap, Sym(z3.simplify(end - start), "usize"), elems)
    view.view_start = z3.simplify(start)
    c = st.new_cell(view)
    return [(Ref(c, (), False, dty), ok_), (("panic", "slice index out of range"), z3.Not(ok_))]


def h_size_of(ex, st, frame, t, nf, args, dty):
    m = re.search(r"size_of::<(.*)>$", t.func.strip())
    ty = m.group(1).strip() if m else ""
    if ty in INT_W:
        return [(Sym(BV64(INT_W[ty] // 8), "usize"), None)]
    raise Unsupported("size_of::<%s>" % ty[:40])


def h_result_and_then(ex, st, frame, t, nf, args, dty):
    v, f = args[0], args[1]
    good = split_enum(ex, st, v, 0)
    outs = []
    if ex.feasible(st, z3.Not(good)):
        s_err = st.fork()
        s_err.pc.append(z3.Not(good))
        ex.set_dest_and_goto(s_err, t, err(ex._get_field(s_err, s_err.frames and v or v, "Err", 0, "?"), dty))
        outs.append(s_err)
    if ex.feasible(st, good):
        st.pc.append(good)
        payload = ex._get_field(st, v, "Ok", 0, "?")
        call_value(ex, st, frame, f, [payload], t.dest, t.targets.get("return"))
        outs.append(st)
    return ("states", outs)


def _wrap_ok(dty):
    def w(ex, st, val):
        return ok(val, dty)
    return w


def h_result_map(ex, st, frame, t, nf, args, dty):
    v, f = args[0], args[1]
    good = split_enum(ex, st, v, 0)
    outs = []
    if ex.feasible(st, z3.Not(good)):
        s_err = st.fork()
        s_err.pc.append(z3.Not(good))
        ex.set_dest_and_goto(s_err, t, err(ex._get_field(s_err, v, "Err", 0, "?"), dty))
        outs.append(s_err)
    if ex.feasible(st, good):
        st.pc.append(good)
        payload = ex._get_field(st, v, "Ok", 0, "?")
        call_value(ex, st, frame, f, [payload], t.dest, t.targets.get("return"))
        st.frames[-1].ret_wrap = _wrap_ok(dty)
        outs.append(st)
    return ("states", outs)


def h_result_ok(ex, st, frame, t, nf, args, dty):
    v = args[0]
    good = split_enum(ex, st, v, 0)
    alts = []
    if ex.feasible(st, good):
        alts.append((some(ex._get_field(st, v, "Ok", 0, "?"), dty), good))
    if ex.feasible(st, z3.Not(good)):
        alts.append((none(dty), z3.Not(good)))
    return alts


def h_option_ord_max(ex, st, frame, t, nf, args, dty):
    """<Option<T> as Ord>::max / min for scalar or newtype T (None is the least element)"""
    a, b = args[0], args[1]
    sa, sb = split_enum(ex, st, a, 1), split_enum(ex, st, b, 1)
    ka = _ord_key(ex, st, ex._get_field(st, a, "Some", 0, "usize"))
    kb = _ord_key(ex, st, ex._get_field(st, b, "Some", 0, "usize"))
    is_max = nf.endswith("max")
    # std: max returns the second argument when equal; for scalars that is indistinguishable
    b_wins = z3.Or(z3.And(z3.Not(sa), sb), z3.And(sa, sb, z3.UGE(kb, ka))) if is_max else z3.Or(z3.Not(sb), z3.And(sa, sb, z3.ULE(kb, ka)))
    some_out = z3.Or(sa, sb) if is_max else z3.And(sa, sb)
    val = z3.If(b_wins, kb, ka)
    o = Obj(dty)
    o.discr = Sym(z3.If(some_out, BV64(1), BV64(0)), "isize")
    pa = ex._get_field(st, a, "Some", 0, "usize")
    o.fields[("Some", 0)] = Sym(val, pa.ty) if isinstance(pa, Sym) else pa
    return [(o, None)]


def h_panic(ex, st, frame, t, nf, args, dty):
    return "panic"


STD_SUMMARIES = [
    (r"^<(std::sync::|std::rc::|alloc::\w+::)?(Arc|Rc) as Clone>::clone$", h_arc_clone),
    (r"^<(std::option::)?Option as PartialEq>::(eq|ne)$", h_partial_eq),
    (r"^<impl AsRef as AsRef<.*>>::as_ref$", h_identity0),
    (r"^(std::hint::|core::hint::)?must_use$", h_identity0),
    (r"^(std::result::)?Result::and_then$", h_result_and_then),
    (r"^(std::result::)?Result::map$", h_result_map),
    (r"^(std::result::)?Result::ok$", h_result_ok),
    (r"^<\[.*\] as (std::ops::)?Index<(std::ops::)?Range(From|To|Full)?(<usize>)?>>::index$", h_slice_index_range),
    (r"^std::mem::size_of$", h_size_of),
    (r"^<Vec as (std::iter::)?Extend<.*>>::extend$", h_vec_extend),
    (r"^Vec::extend_from_slice$", h_vec_extend),
    (r"^(std|core)::slice::(<impl[^>]*>::)?sort_by$", h_sort_by),
    (r"^<(std::option::)?Option as PartialOrd>::(lt|le|gt|ge)$", h_option_partial_ord),
    (r"^<(std::option::)?Option as (std::cmp::)?Ord>::(max|min)$", h_option_ord_max),
    (r"(^|::)(panic_fmt|panic|panic_display|panic_str|unwrap_failed|expect_failed|begin_panic|panic_bounds_check|panic_nounwind|panic_explicit|unreachable_display|assert_failed)$", h_panic),
    (r"^(std::option::)?Option::(as_ref|as_mut)$", h_option_as_ref),
    (r"^(std::option::)?Option::as_deref$", h_option_as_deref),
    (r"^<impl Fn(Once|Mut)?\(.*\)( -> \S+)? as Fn(Once|Mut)?<.*>>::call(_once|_mut)?$", h_fn_call),
    (r"^(std::vec::)?Vec::into_boxed_slice$", h_identity0),
    (r"^(std::result::)?Result::or_else$", h_result_or_else),
    (r"^(std::option::)?Option::take$", h_option_take),
    (r"^(std::option::)?Option::replace$", h_option_replace),
    (r"^(std::option::)?Option::zip$", h_option_zip),
    (r"^(std::option::)?Option::flatten$", h_option_flatten),
    (r"^(std::option::)?Option::copied$", h_option_copied),
    (r"^(std::option::)?Option::unwrap_or_default$", h_option_unwrap_or_default),
    (r"^(std::option::)?Option::map_or$", h_option_map_or),
    (r"^<(std::option::)?Option as Clone>::clone$", h_clone),
    (r"^core::slice::(<impl[^>]*>::)?(get|get_mut)$", h_slice_get),
    (r"^core::slice::(<impl[^>]*>::)?last_mut$", h_vec_last_mut),
    (r"^Vec::pop$", h_vec_pop),
    (r"^Vec::with_capacity$", h_vec_new),
    (r"^core::num::(<impl \w+>::)?checked_sub$", h_checked_sub),
    (r"^core::num::(<impl \w+>::)?checked_add$", h_checked_add),
    (r"^core::num::(<impl \w+>::)?checked_mul$", h_checked_mul),
    (r"^core::num::(<impl \w+>::)?checked_rem$", h_checked_rem),
    (r"^core::num::(<impl \w+>::)?saturating_sub$", h_saturating_sub),
    (r"^<(std::borrow::)?Cow as AsRef<.*>>::as_ref$", h_cow_as_ref),
    (r"^<(std::borrow::)?Cow as (std::ops::)?Deref>::deref$", h_cow_as_ref),
    (r"^(std::borrow::)?Cow::into_owned$", h_cow_into_owned),
    (r"^<(std::borrow::)?Cow as Clone>::clone$", h_clone),
    (r"^std::mem::drop$", h_mem_drop),
    (r"^<.* as Drop>::drop$", h_mem_drop),
    (r"^std::ptr::drop_in_place$", h_mem_drop),
    (r"^<(Vec|std::marker::PhantomData) as Clone>::clone$", h_clone),
    (r"^(async_lock::|tokio::sync::|std::sync::)?(\w+::)*(RwLock|Mutex)::new$", h_lock_new),
    (r"^(async_lock::|tokio::sync::|std::sync::)?(\w+::)*(RwLock|Mutex)::into_inner$", h_lock_into_inner),
    (r"^<.* as (std::default::)?Default>::default$", h_default),
    (r"^(async_lock::|tokio::sync::|async_lock::rwlock::|tokio::sync::rwlock::)?RwLock::(read|write|upgradable_read)$", h_async_lock),
    (r"^<(async_lock::|tokio::sync::)?(\w+::)*RwLock(Write|Read|UpgradableRead|Mapped\w*)Guard as (std::ops::)?Deref(Mut)?>::deref(_mut)?$", h_guard_deref),
    (r"(^|::)Atomic(U8|U16|U32|U64|Usize|Bool|I32|I64|Isize)?::new$", h_atomic_new),
    (r"(^|::)Atomic(U8|U16|U32|U64|Usize|Bool|I32|I64|Isize)?::(load|store|fetch_add|fetch_sub|fetch_max|fetch_min|fetch_or|fetch_and|swap|compare_exchange|compare_exchange_weak)$", h_atomic),
    (r"^<(std::sync::|std::rc::|std::boxed::|alloc::\w+::)?(Arc|Rc|Box|ManuallyDrop) as (std::ops::)?Deref(Mut)?>::deref(_mut)?$", h_smart_deref),
    (r"^(std::option::)?Option::and_then$", h_option_and_then),
    (r"^(std::option::)?Option::map$", h_option_map),
    (r"^(std::option::)?Option::filter$", h_option_filter),
    (r"^(std::option::)?Option::cloned$", h_option_cloned),
    (r"^(std::option::)?Option::unwrap_or$", h_option_unwrap_or),
    (r"^(std::option::)?Option::(is_some|is_none)$", h_option_is_some),
    (r"^(std::result::)?Result::(is_ok|is_err)$", h_result_is_ok),
    (r"^<.* as (\S*::)?Try>::branch$", h_try_branch),
    (r"^<.* as (\S*::)?FromResidual<.*>>::from_residual$", h_from_residual),
    (r"^(std::result::)?Result::map_err$", h_result_map_err),
    (r"into_bincode_if_unexpected_eof$", h_classify_eof),
    (r"^<(std::result::)?Result as (anyhow::)?Context<.*>>::(with_context|context)$", h_err_map_keep),
    (r"^(std::option::)?Option::ok_or_else$", h_ok_or_else),
    (r"^(std::result::)?Result(::<.*>)?::and$", h_result_and),
    (r"^(tokio::sync::)?Semaphore::(acquire|acquire_many|acquire_owned)$", h_future_havoc),
    (r"^<&?(u8|u16|u32|u64|usize) as (std::ops::)?Add<&?(u8|u16|u32|u64|usize)>>::add$", h_int_add_ref),
    (r"^(futures::future::|futures_util::future::)?maybe_done$", h_maybe_done),
    (r"^(futures::future::|futures_util::future::)?poll_fn$", h_poll_fn),
    (r"^(futures::future::|futures_util::future::)?MaybeDone(::<.*>)?::take_output$", h_maybe_done_take),
    (r"^(std::pin::)?Pin(::<.*>)?::as_mut$", h_pin_as_mut),
    (r"^(std::task::)?Poll(::<.*>)?::(is_ready|is_pending)$", h_poll_is_ready),
    (r"^Box::pin$", h_box_pin),
    (r"^Box::new$", h_box_new),
    (r"^<.* as (futures::|std::future::|core::future::)?Future>::poll$", h_future_poll),
    (r"^<(log::)?Level as PartialOrd<(log::)?LevelFilter>>::le$", h_log_disabled),
    (r"^(log::)?max_level$", h_fresh),
    (r"^(std::sync::)?(RwLock::(write|read)|Mutex::lock)$", h_lock),
    (r"^<std::sync::RwLock(Write|Read)Guard as Deref(Mut)?>::deref(_mut)?$", h_guard_deref),
    (r"^(std::result::)?Result::(expect|unwrap)$", h_expect),
    (r"^(std::option::)?Option::(expect|unwrap)$", h_expect),
    (r"^Vec::len$", h_vec_len),
    (r"^core::slice::(<impl[^>]*>::)?len$", h_vec_len),
    (r"^Vec::is_empty$", h_vec_is_empty),
    (r"^Vec::capacity$", h_vec_capacity),
    (r"^Vec::new$", h_vec_new),
    (r"^<Vec as Deref(Mut)?>::deref(_mut)?$", h_vec_deref),
    (r"^<Vec as (std::ops::)?Index(Mut)?<usize>>::index(_mut)?$", h_vec_index),
    (r"^Vec::insert$", h_vec_insert),
    (r"^Vec::push$", h_vec_push),
    (r"^Vec::truncate$", h_vec_truncate),
    (r"^core::slice::(<impl[^>]*>::)?last$", h_vec_last),
    (r"^core::slice::(<impl[^>]*>::)?first$", h_vec_first),
    (r"^core::slice::(<impl[^>]*>::)?reverse$", h_vec_reverse),
    (r"^core::slice::(<impl[^>]*>::)?binary_search_by$", h_binary_search_by),
    (r"^(std::result::)?Result::unwrap_or_else$", h_unwrap_or_else),
    (r"^std::mem::take$", h_mem_take),
    (r"^std::mem::replace$", h_mem_replace),
    (r"^<(u8|u16|u32|u64|usize|i32|i64) as (std::cmp::)?Ord>::cmp$", h_ord_cmp_int),
    (r"^<(u8|u16|u32|u64|usize|i32|i64) as PartialOrd>::(lt|le|gt|ge)$", h_partial_cmp_int),
    (r"^<(u8|u16|u32|u64|usize|i32|i64) as PartialEq>::(eq|ne)$", h_partial_cmp_int),
    (r"^std::cmp::(min|max)$", h_min_max),
    (r"^<(u8|u16|u32|u64|usize|i32|i64|isize) as (std::cmp::)?Ord>::(min|max)$", h_min_max),
    (r"^<(u8|u16|u32|u64|usize|i32|i64|isize) as (std::cmp::)?(PartialOrd|Ord)>::(partial_cmp|cmp)$", h_int_partial_cmp),
    (r"^Box::new_uninit$", h_box_new_uninit),
    (r"^std::boxed::box_assume_init_into_vec_unsafe$", h_box_into_vec),
    (r"^<.* as (\S*::)?IntoFuture>::into_future$", h_into_future),
    (r"^Pin::new_unchecked$", h_pin_new_unchecked),
    (r"^std::future::get_context$", h_get_context),
]


def compile_summaries(extra=None):
    out = []
    for rx, h in (extra or []) + STD_SUMMARIES:
        out.append((re.compile(rx), h))
    return out
