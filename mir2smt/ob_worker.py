"""Obligations on the observer worker's loop step (ObserverWorker::tick / tick_with_deadline) — C13."""
import re
import z3
from .symex import State, Sym, Obj, VecV, Ref, Unsupported
from . import pearl as P
from . import summaries as S
from .pearl import BV64
from .ob_blob import _check_paths, idx


def worker_tick(crate, which="tick"):
    """C13: one step of the worker loop: Stop is returned only when the channel is closed (every sender dropped: shutdown);
    a received message is processed exactly once; Err is returned only if processing returned Err (which the
    worker_survives / deferred obligations exclude), so the loop in run() neither exits early nor panics; when the
    deadline fires (tick_with_deadline) the deadline is reset and the deferred work is processed."""
    res = P.ObResult("worker_%s" % which)
    fn = crate.method("ObserverWorker", which)
    res.functions = ["ObserverWorker::%s (async body)" % which]
    res.bounds = "one step, every outcome of recv / timeout / processing"
    from .symex import FutureV

    def h_fut(ex_, st_, frame, t, nf, args, dty):
        return [(FutureV(nf, args, None, "havoc"), None)]
    ex = P.mk_executor(crate, cap=2, loop_bound=4, inline=[], havoc=[r"^<.*Instant as (std::ops::)?Add<.*>>::add$"],
                       extra_summaries=[(r"^(tokio::time::)?timeout_at$", h_fut), (r"^(tokio::sync::mpsc::)?Receiver::recv$", h_fut)])
    st = State()
    w = Obj("observer_worker::ObserverWorker<K>")
    nd = Obj("std::option::Option<tokio::time::Instant>")
    nd.discr = Sym(BV64(1), "isize")
    w.fields[(None, crate.field_index("ObserverWorker", "next_deadline"))] = nd
    wc = st.new_cell(w)
    args = [Ref(wc, (), True, "&mut ObserverWorker<K>")]
    if which == "tick_with_deadline":
        args.append(Obj("tokio::time::Instant"))
    ndi = crate.field_index("ObserverWorker", "next_deadline")

    def probe(ex_, st_, name, fargs, out_ty, dty):
        if name.endswith("process_defered"):
            st_.events.append(("probe", name, ex_.get_discr(st_, st_.mem[wc].fields[(None, ndi)]).t, None))
        return None
    ex.await_hook = probe
    outs = P.drive_async(ex, st, fn, args)
    res.paths = len(outs)
    TR = crate.enums["TickResult"]

    def per_path(o, isok, payload):
        evs = P.events_of(o)
        names = [e[1] for e in evs]
        recvs = [e for e in evs if e[0] == "await" and ("recv" in e[1] or "timeout_at" in e[1])]
        pm = [e for e in evs if e[0] == "await" and e[1].endswith("process_msg")]
        pd = [e for e in evs if e[0] == "await" and e[1].endswith("process_defered")]
        if len(recvs) != 1:
            res.status = "violated"; res.detail = "%d waits for a message in one step" % len(recvs); return False
        if len(pm) + len(pd) > 1:
            res.status = "violated"; res.detail = "more than one processing call in one step"; return False
        r = recvs[0][3]
        if which == "tick":
            got = ex.get_discr(o, r).t == BV64(1)            # Option<Msg>
            closed = z3.Not(got)
            fired = z3.BoolVal(False)
        else:
            t_ok = ex.get_discr(o, r).t == BV64(0)           # Result<Option<Msg>, Elapsed>
            opt = ex._get_field(o, r, "Ok", 0, "Option<Msg>")
            got = z3.And(t_ok, ex.get_discr(o, opt).t == BV64(1))
            closed = z3.And(t_ok, ex.get_discr(o, opt).t == BV64(0))
            fired = z3.Not(t_ok)
        tr = payload.fields.get(("Ok", 0))
        stop = z3.And(isok, ex.get_discr(o, tr).t == BV64(TR["Stop"])) if tr is not None else z3.BoolVal(False)
        if not P.prove(ex, res, o, stop == closed, "Stop iff the channel is closed"):
            return False
        if not P.prove(ex, res, o, z3.Implies(got, z3.BoolVal(len(pm) == 1)), "a received message is processed"):
            return False
        if not P.prove(ex, res, o, z3.Implies(z3.Not(got), z3.BoolVal(len(pm) == 0)), "nothing is processed without a message"):
            return False
        proc = pm + pd
        if proc:
            p_ok = ex.get_discr(o, proc[0][3]).t == BV64(0)
            if not P.prove(ex, res, o, isok == p_ok, "Err only if processing returned Err"):
                return False
        else:
            if not P.prove(ex, res, o, isok, "Ok when nothing had to be processed"):
                return False
        if which == "tick_with_deadline":
            if not P.prove(ex, res, o, z3.Implies(fired, z3.BoolVal(len(pd) == 1)), "deadline reached: deferred work is processed"):
                return False
            for e in o.events:
                if e[0] == "probe" and not P.prove(ex, res, o, e[2] == BV64(0), "the deadline is reset before the deferred work is processed (precondition of deferred_deadline_inv)"):
                    return False
            P.cover(ex, res, o, fired, "deadline fired")
        P.cover(ex, res, o, stop, "channel closed: stop")
        P.cover(ex, res, o, z3.And(got, isok), "message processed")
        return True

    _check_paths(ex, res, outs, per_path)
    need = ["channel closed: stop", "message processed"] + (["deadline fired"] if which == "tick_with_deadline" else [])
    return P.finish(ex, res, need)


def worker_tick_deadline(crate):
    return worker_tick(crate, "tick_with_deadline")
