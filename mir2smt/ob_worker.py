"""Obligations on the observer worker's loop step (ObserverWorker::tick / tick_with_deadline) — C13."""
import re
import z3
from .symex import State, Sym, Obj, VecV, Ref, UNIT, Unsupported
from . import pearl as P
from . import summaries as S
from .pearl import BV64
from .ob_blob import _check_paths, idx


def worker_tick(crate, which="tick"):
    """C13: one step of the worker loop: Stop is returned only when the channel is closed (every sender dropped: shutdown);
    a received message is processed exactly once; Err is returned only if processing returned Err (which the
    worker_survives / deferred obligations exclude), so the loop in run() neither exits early nor panics; when the
    deadline fires (tick_with_deadline) the deadline is reset and the deferred work is processed."""
    res = P.ObResult("worker_%s" % which)
    fn = crate.method("ObserverWorker", which)
    res.functions = ["ObserverWorker::%s (async body)" % which]
    res.bounds = "one step, every outcome of recv / timeout / processing"
    from .symex import FutureV

    def h_fut(ex_, st_, frame, t, nf, args, dty):
        return [(FutureV(nf, args, None, "havoc"), None)]
    ex = P.mk_executor(crate, cap=2, loop_bound=4, inline=[], havoc=[r"^<.*Instant as (std::ops::)?Add<.*>>::add$"],
                       extra_summaries=[(r"^(tokio::time::)?timeout_at$", h_fut), (r"^(tokio::sync::mpsc::)?Receiver::recv$", h_fut)])
    st = State()
    w = Obj("observer_worker::ObserverWorker<K>")
    nd = Obj("std::option::Option<tokio::time::Instant>")
    nd.discr = Sym(BV64(1), "isize")
    w.fields[(None, crate.field_index("ObserverWorker", "next_deadline"))] = nd
    wc = st.new_cell(w)
    args = [Ref(wc, (), True, "&mut ObserverWorker<K>")]
    if which == "tick_with_deadline":
        args.append(Obj("tokio::time::Instant"))
    ndi = crate.field_index("ObserverWorker", "next_deadline")

    def probe(ex_, st_, name, fargs, out_ty, dty):
        if name.endswith("process_defered"):
            st_.events.append(("probe", name, ex_.get_discr(st_, st_.mem[wc].fields[(None, ndi)]).t, None))
        return None
    ex.await_hook = probe
    outs = P.drive_async(ex, st, fn, args)
    res.paths = len(outs)
    TR = crate.enums["TickResult"]

    def per_path(o, isok, payload):
        evs = P.events_of(o)
        names = [e[1] for e in evs]
        recvs = [e for e in evs if e[0] == "await" and ("recv" in e[1] or "timeout_at" in e[1])]
        pm = [e for e in evs if e[0] == "await" and e[1].endswith("process_msg")]
        pd = [e for e in evs if e[0] == "await" and e[1].endswith("process_defered")]
        if len(recvs) != 1:
            res.status = "violated"; res.detail = "%d waits for a message in one step" % len(recvs); return False
        if len(pm) + len(pd) > 1:
            res.status = "violated"; res.detail = "more than one processing call in one step"; return False
        r = recvs[0][3]
        if which == "tick":
            got = ex.get_discr(o, r).t == BV64(1)            # Option<Msg>
            closed = z3.Not(got)
            fired = z3.BoolVal(False)
        else:
            t_ok = ex.get_discr(o, r).t == BV64(0)           # Result<Option<Msg>, Elapsed>
            opt = ex._get_field(o, r, "Ok", 0, "Option<Msg>")
            got = z3.And(t_ok, ex.get_discr(o, opt).t == BV64(1))
            closed = z3.And(t_ok, ex.get_discr(o, opt).t == BV64(0))
            fired = z3.Not(t_ok)
        tr = payload.fields.get(("Ok", 0))
        stop = z3.And(isok, ex.get_discr(o, tr).t == BV64(TR["Stop"])) if tr is not None else z3.BoolVal(False)
        if not P.prove(ex, res, o, stop == closed, "Stop iff the channel is closed"):
            return False
        if not P.prove(ex, res, o, z3.Implies(got, z3.BoolVal(len(pm) == 1)), "a received message is processed"):
            return False
        if not P.prove(ex, res, o, z3.Implies(z3.Not(got), z3.BoolVal(len(pm) == 0)), "nothing is processed without a message"):
            return False
        proc = pm + pd
        if proc:
            p_ok = ex.get_discr(o, proc[0][3]).t == BV64(0)
            if not P.prove(ex, res, o, isok == p_ok, "Err only if processing returned Err"):
                return False
        else:
            if not P.prove(ex, res, o, isok, "Ok when nothing had to be processed"):
                return False
        if which == "tick_with_deadline":
            if not P.prove(ex, res, o, z3.Implies(fired, z3.BoolVal(len(pd) == 1)), "deadline reached: deferred work is processed"):
                return False
            for e in o.events:
                if e[0] == "probe" and not P.prove(ex, res, o, e[2] == BV64(0), "the deadline is reset before the deferred work is processed (precondition of deferred_deadline_inv)"):
                    return False
            P.cover(ex, res, o, fired, "deadline fired")
        P.cover(ex, res, o, stop, "channel closed: stop")
        P.cover(ex, res, o, z3.And(got, isok), "message processed")
        return True

    _check_paths(ex, res, outs, per_path)
    need = ["channel closed: stop", "message processed"] + (["deadline fired"] if which == "tick_with_deadline" else [])
    return P.finish(ex, res, need)


def worker_tick_deadline(crate):
    return worker_tick(crate, "tick_with_deadline")


def process_msg_dispatch(crate):
    """C13: ObserverWorker::process_msg: a message whose predicate holds (or that has none) always leads to the action
    of its operation type being attempted — rotation, close, create, restore, index dump, sync, deferred dump — and a
    message whose predicate is false is dropped without any action; after a successful rotation either an index dump task
    was started or a deferred dump is registered (the old blob's index is not forgotten)."""
    res = P.ObResult("process_msg_dispatch")
    fn = crate.method("ObserverWorker", "process_msg")
    res.functions = ["ObserverWorker::process_msg (async body)"]
    res.bounds = "one message, every OperationType, predicate true/false, every callee outcome"
    ex = P.mk_executor(crate, cap=2, loop_bound=4, inline=[])
    st = State()
    w = Obj("observer_worker::ObserverWorker<K>")
    wc = st.new_cell(w)
    msg = Obj("observer::Msg")
    op = Obj("observer::OperationType")
    opd = z3.BitVec("optype", 64)
    op.discr = Sym(opd, "isize")
    OT = crate.enums["OperationType"]
    st.pc.append(z3.Or([opd == BV64(v) for v in OT.values()]))
    msg.fields[(None, crate.field_index("Msg", "optype"))] = op
    outs = P.drive_async(ex, st, fn, [Ref(wc, (), True, "&mut ObserverWorker<K>"), msg])
    res.paths = len(outs)
    ACTION = {"ForceUpdateActiveBlob": "update_active_blob", "CloseActiveBlob": "Inner::close_active_blob", "CreateActiveBlob": "Inner::create_active_blob",
              "RestoreActiveBlob": "Inner::restore_active_blob", "TryDumpBlobIndexes": "try_run_old_blob_indexes_dump_task", "TryFsyncData": "try_run_fsync_task",
              "TryUpdateActiveBlob": "try_update_active_blob", "DeferredDumpBlobIndexes": "defer_blob_indexes_dump"}
    missing = [k for k in OT if k not in ACTION]
    if missing:
        raise Unsupported("operation types without a modelled action: %s" % missing)

    def per_path(o, isok, payload):
        evs = [e for e in P.events_of(o) if e[0] == "await"]
        names = [e[1] for e in evs]
        pw = [e for e in evs if e[1].endswith("predicate_wrapper")]
        if len(pw) != 1:
            res.status = "violated"; res.detail = "predicate evaluated %d times" % len(pw); return False
        pred = pw[0][3].t
        others = [e for e in evs if not e[1].endswith("predicate_wrapper")]
        if not P.prove(ex, res, o, z3.Implies(z3.Not(pred), z3.And(isok, z3.BoolVal(len(others) == 0))), "predicate false: dropped without any action"):
            return False
        for k, v in OT.items():
            act = ACTION[k]
            hit = [e for e in others if e[1].endswith(act) and (act != "update_active_blob" or not e[1].endswith("try_update_active_blob"))]
            if not P.prove(ex, res, o, z3.Implies(z3.And(pred, opd == BV64(v)), z3.BoolVal(len(hit) >= 1)), "%s: %s is attempted" % (k, act.split("::")[-1])):
                return False
            P.cover(ex, res, o, z3.And(pred, opd == BV64(v)), "dispatch %s" % k)
        tu = [e for e in others if e[1].endswith("try_update_active_blob")]
        if tu:
            r = tu[0][3]
            updated = z3.And(ex.get_discr(o, r).t == BV64(0), ex._get_field(o, r, "Ok", 0, "bool").t)
            runs = [e for e in others if e[1].endswith("try_run_old_blob_indexes_dump_task")]
            defers = [e for e in others if e[1].endswith("defer_blob_indexes_dump")]
            started = z3.Or([e[3].t for e in runs]) if runs else z3.BoolVal(False)
            if not P.prove(ex, res, o, z3.Implies(z3.And(pred, updated, isok), z3.Or(started, z3.BoolVal(bool(defers)))),
                           "after a rotation a dump task was started or a deferred dump is registered"):
                return False
            P.cover(ex, res, o, z3.And(updated, z3.BoolVal(bool(defers))), "rotation: dump deferred")
        return True

    _check_paths(ex, res, outs, per_path)
    return P.finish(ex, res, ["dispatch %s" % k for k in OT] + ["rotation: dump deferred"])


def rotation_decision(crate):
    """C13/C04: ObserverWorker::try_update_active_blob: when the active blob has reached the configured size OR record
    count, a new blob is created and installed (replace_active_blob) and Ok(true) is returned; when it is below both limits
    nothing is created or replaced and Ok(false) is returned; a failure to create or install is reported as Err."""
    res = P.ObResult("rotation_decision")
    fn = crate.method("ObserverWorker", "try_update_active_blob")
    res.functions = ["ObserverWorker::try_update_active_blob (async body)"]
    res.bounds = "one call, active blob present/absent, arbitrary size / count / limits, every outcome of creating and installing the new blob"
    ex = P.mk_executor(crate, cap=2, loop_bound=4, inline=[r"^Inner::(config|safe)$"])
    st = State()
    w = Obj("observer_worker::ObserverWorker<K>")
    inner = Obj("storage::core::Inner<K>")
    ic = st.new_cell(inner)
    arc = Obj("std::sync::Arc<storage::core::Inner<K>>")
    arc.fields[(None, 7001)] = Ref(ic, (), True, "&storage::core::Inner<K>")
    w.fields[(None, crate.field_index("ObserverWorker", "inner"))] = arc
    wc = st.new_cell(w)
    size, count = z3.BitVec("active_file_size", 64), z3.BitVec("active_records_count", 64)
    msz, mcnt = z3.BitVec("max_blob_size", 64), z3.BitVec("max_data_in_blob", 64)
    present = z3.Bool("active_blob_present")
    cfg_ok = z3.Bool("limits_configured")

    def call_hook(ex_, st_, cname, args, dty):
        if cname in ("Config::max_blob_size", "Config::max_data_in_blob"):
            o = Obj(dty)
            o.discr = Sym(z3.If(cfg_ok, BV64(1), BV64(0)), "isize")
            o.fields[("Some", 0)] = Sym(msz if cname.endswith("max_blob_size") else mcnt, "u64")
            return [(o, None)]
        if cname == "Blob::file_size":
            return [(Sym(size, "u64"), None)]
        if cname == "Blob::records_count":
            return [(Sym(count, "usize"), None)]
        return None
    ex.call_hook = call_hook

    def await_hook(ex_, st_, name, fargs, out_ty, dty):
        if name.endswith("read_active_blob"):
            r = Obj(out_ty)
            r.discr = Sym(z3.If(present, BV64(1), BV64(0)), "isize")
            g = Obj("guard")
            g.fields[(None, 7000)] = Obj("blob::core::Blob<K>")
            r.fields[("Some", 0)] = Ref(st_.new_cell(Obj("blob::core::Blob<K>")), (), False, "async_lock::RwLockReadGuard<'_, blob::core::Blob<K>>")
            st_.events.append(("await", name, fargs, r))
            return [(S.poll_ready(dty, r), None)]
        return None
    ex.await_hook = await_hook
    outs = P.drive_async(ex, st, fn, [Ref(wc, (), False, "&ObserverWorker<K>")])
    res.paths = len(outs)

    def per_path(o, isok, payload):
        evs = [e for e in P.events_of(o) if e[0] == "await"]
        news = [e for e in evs if e[1].endswith("get_new_active_blob")]
        reps = [e for e in evs if e[1].endswith("replace_active_blob")]
        full = z3.And(present, z3.Or(z3.UGE(size, msz), z3.UGE(count, mcnt)))
        if not P.prove(ex, res, o, z3.Implies(z3.Not(cfg_ok), z3.And(z3.Not(isok), z3.BoolVal(not news and not reps))), "limits not configured: error, nothing touched"):
            return False
        if not P.prove(ex, res, o, z3.Implies(z3.And(cfg_ok, z3.Not(full)), z3.And(isok, z3.BoolVal(not news and not reps))), "below both limits (or no active blob): nothing is created or replaced"):
            return False
        if not P.prove(ex, res, o, z3.Implies(z3.And(cfg_ok, full), z3.BoolVal(len(news) == 1)), "size or count limit reached: a new blob is created"):
            return False
        val = payload.fields.get(("Ok", 0))
        if val is not None:
            if not P.prove(ex, res, o, z3.Implies(z3.And(isok, cfg_ok), val.t == full), "Ok(true) iff the active blob had reached a limit"):
                return False
        if news:
            n_ok = ex.get_discr(o, news[0][3]).t == BV64(0)
            if not P.prove(ex, res, o, z3.Implies(n_ok, z3.BoolVal(len(reps) == 1)), "the created blob is installed"):
                return False
            if reps:
                newb = ex._get_field(o, news[0][3], "Ok", 0, "?")
                arg = reps[0][2][1]
                argv = S.deref_val(ex, o, arg) if isinstance(arg, Ref) else arg
                if isinstance(newb, Obj) and isinstance(argv, Obj) and newb.oid != argv.oid:
                    res.status = "violated"; res.detail = "the blob installed is not the blob created"; return False
                r_ok = ex.get_discr(o, reps[0][3]).t == BV64(0)
                if not P.prove(ex, res, o, isok == z3.And(n_ok, r_ok), "Ok iff creating and installing succeeded"):
                    return False
                P.cover(ex, res, o, z3.And(isok, z3.UGE(count, mcnt), z3.ULT(size, msz)), "rotated because of the record count alone")
                P.cover(ex, res, o, z3.And(isok, z3.UGE(size, msz), z3.ULT(count, mcnt)), "rotated because of the size alone")
            else:
                if not P.prove(ex, res, o, z3.Not(isok), "creation failed: error"):
                    return False
                P.cover(ex, res, o, z3.Not(n_ok), "creating the new blob failed")
        P.cover(ex, res, o, z3.And(cfg_ok, present, z3.Not(full), isok), "below the limits: no rotation")
        return True

    _check_paths(ex, res, outs, per_path)
    return P.finish(ex, res, ["rotated because of the record count alone", "rotated because of the size alone", "creating the new blob failed", "below the limits: no rotation"])


def rotation_request(crate):
    """C13: Storage::try_update_active_blob (runs after every write): once the active blob has reached the configured size
    or record count and is older than the debounce interval, a rotation request is sent to the worker; below both limits no
    request is sent; the call itself fails only when the limits are not configured."""
    res = P.ObResult("rotation_request")
    fn = crate.method("Storage", "try_update_active_blob")
    res.functions = ["Storage::try_update_active_blob (async body)"]
    res.bounds = "one call, arbitrary size / count / limits / blob age"
    ex = P.mk_executor(crate, cap=2, loop_bound=4, inline=[],
                       havoc=[r"^(std::time::)?SystemTime::elapsed$", r"^(std::time::)?SystemTimeError::duration$", r"^std::result::Result::<.*>::map_err$"])
    st = State()
    storage = Obj("storage::core::Storage<K>")
    sc = st.new_cell(storage)
    size, count = z3.BitVec("active_file_size", 64), z3.BitVec("active_records_count", 64)
    msz, mcnt = z3.BitVec("max_blob_size", 64), z3.BitVec("max_data_in_blob", 64)
    age, deb = z3.BitVec("blob_age_ms", 128), z3.BitVec("debounce_interval_ms", 64)
    cfg_ok = z3.Bool("limits_configured")

    def call_hook(ex_, st_, cname, args, dty):
        if cname in ("Config::max_blob_size", "Config::max_data_in_blob"):
            o = Obj(dty)
            o.discr = Sym(z3.If(cfg_ok, BV64(1), BV64(0)), "isize")
            o.fields[("Some", 0)] = Sym(msz if cname.endswith("max_blob_size") else mcnt, "u64")
            return [(o, None)]
        if cname == "Blob::file_size":
            return [(Sym(size, "u64"), None)]
        if cname == "Blob::records_count":
            return [(Sym(count, "usize"), None)]
        if cname == "Config::debounce_interval_ms":
            return [(Sym(deb, "u64"), None)]
        return None
    ex.call_hook = call_hook

    def h_millis(ex_, st_, frame, t, nf, args, dty):
        return [(Sym(age, "u128"), None)]
    ex.summaries.insert(0, (re.compile(r"^(std::time::|core::time::)?Duration::as_millis$"), h_millis))
    lock = Obj("async_lock::RwLock<blob::core::Blob<K>>")
    lock.fields[(None, 7000)] = Obj("blob::core::Blob<K>")
    bx = Ref(st.new_cell(lock), (), False, "Box<async_lock::RwLock<blob::core::Blob<K>>>")
    bc = st.new_cell(bx)
    outs = P.drive_async(ex, st, fn, [Ref(sc, (), False, "&storage::core::Storage<K>"), Ref(bc, (), False, "&Box<async_lock::RwLock<blob::core::Blob<K>>>")])
    res.paths = len(outs)

    def per_path(o, isok, payload):
        reqs = [e for e in P.events_of(o) if e[0] == "await" and e[1].endswith("Observer::try_update_active_blob")]
        full = z3.Or(z3.UGE(size, msz), z3.UGE(count, mcnt))
        old = z3.UGT(age, z3.ZeroExt(64, deb))
        if not P.prove(ex, res, o, isok == cfg_ok, "fails only when the limits are not configured"):
            return False
        if not P.prove(ex, res, o, z3.Implies(z3.And(cfg_ok, full, old), z3.BoolVal(len(reqs) == 1)), "limit reached and debounce interval passed: rotation requested"):
            return False
        if not P.prove(ex, res, o, z3.Implies(z3.Not(z3.And(cfg_ok, full)), z3.BoolVal(len(reqs) == 0)), "below both limits: no request"):
            return False
        P.cover(ex, res, o, z3.And(cfg_ok, full, old, z3.ULT(size, msz)), "requested because of the record count alone")
        P.cover(ex, res, o, z3.And(cfg_ok, full, z3.Not(old)), "debounced")
        P.cover(ex, res, o, z3.And(cfg_ok, z3.Not(full)), "below the limits")
        return True

    _check_paths(ex, res, outs, per_path)
    return P.finish(ex, res, ["requested because of the record count alone", "debounced", "below the limits"])


def dump_all_old_blobs(crate, B=2):
    """C13/C12: Safe::try_dump_old_blob_indexes: every closed blob's index dump is attempted exactly once, in order, however
    the time quanta fall (the lock is released between quanta and the scan resumes where it stopped, always making progress);
    a failed dump of one blob does not stop the others."""
    res = P.ObResult("dump_all_old_blobs[B<=%d]" % B)
    fn = crate.method("Safe", "try_dump_old_blob_indexes")
    res.functions = ["Safe::try_dump_old_blob_indexes (async body)"]
    res.bounds = "0..%d closed blobs (one run per count), every pattern of quantum expiry, every dump outcome" % B
    from . import iters as IT
    from .symex import FutureV
    total = 0
    q = s_ = 0
    for n in range(B + 1):
        def h_skip(ex_, st_, frame, t, nf, args, dty):
            it, _ = IT._get_iter(ex_, st_, args[0])
            k = z3.simplify(args[1].t)
            if not z3.is_bv_value(k):
                raise Unsupported("skip by a symbolic count")
            k = k.as_long()
            new = IT.IterV(it.slots[k:], it.item_ty, True, BV64(max(0, len(it.slots) - k)))
            return [(new, None)]

        def h_expired(ex_, st_, frame, t, nf, args, dty):
            return [(Sym(z3.Bool(IT.fresh_name("quantum_expired")), "bool"), None)]
        ex = P.mk_executor(crate, cap=B + 1, loop_bound=2 * B + 3, inline=[],
                           extra_summaries=[(r"^<.* as (\S*::)?Iterator>::skip$", h_skip), (r"^<(std::time::)?Duration as PartialOrd>::(gt|ge|lt|le)$", h_expired)],
                           havoc=[r"^(tokio::sync::)?Semaphore::acquire$", r"^<.*Semaphore.* as .*>::", r"^(tokio::time::)?Instant::(now|elapsed)$"])
        st = State()
        safe = Obj("storage::core::Safe<K>")
        lock = Obj("tokio::sync::RwLock<storage::core::Safe<K>>")
        lock.fields[(None, 7000)] = safe
        lc = st.new_cell(lock)
        cells = [st.new_cell(Obj("blob::core::Blob<K>")) for _ in range(n)]

        def call_hook(ex_, st_, cname, args, dty, _cells=cells):
            if cname == "HierarchicalFilters::iter_mut":
                slots = [(z3.BoolVal(True), Ref(c, (), True, "&mut blob::core::Blob<K>")) for c in _cells]
                st_.events.append(("scan", cname, None, None))
                return [(IT.IterV(slots, "&mut Blob<K>", True, BV64(len(_cells))), None)]
            return None
        ex.call_hook = call_hook

        def h_acq(ex_, st_, frame, t, nf, args, dty):
            return [(FutureV("Semaphore::acquire", args, None, "havoc"), None)]
        ex.summaries.insert(0, (re.compile(r"^(tokio::sync::)?Semaphore::acquire$"), h_acq))
        sem = Obj("std::sync::Arc<tokio::sync::Semaphore>")
        dur = Obj("std::time::Duration")
        outs = P.drive_async(ex, st, fn, [Ref(lc, (), False, "&tokio::sync::RwLock<storage::core::Safe<K>>"), sem, dur])
        total += len(outs)
        for o in outs:
            if o.status in ("infeasible", "unwind"):
                continue
            if o.status != "returned":
                if not P.prove(ex, res, o, z3.BoolVal(False), "no panic (%s)" % o.note):
                    return P.finish(ex, res, [])
                continue
            dumps = [e for e in P.events_of(o) if e[0] == "await" and e[1].endswith("Blob::dump")]
            order = [cells.index(e[2][0].cell) if isinstance(e[2][0], Ref) and e[2][0].cell in cells else -1 for e in dumps]
            if order != list(range(n)):
                # is this path feasible at all?
                if ex.feasible(o, z3.BoolVal(True)):
                    res.status = "violated"; res.detail = "%d closed blobs, dumps attempted for %s" % (n, order)
                    return P.finish(ex, res, [])
            if n == B:
                fails = [ex.get_discr(o, e[3]).t != BV64(0) for e in dumps]
                if fails:
                    P.cover(ex, res, o, fails[0], "first dump failed, the rest still attempted")
                exp = [e for e in o.events if e[0] == "call"]
            nq = len([e for e in o.events if e[0] == "scan"])
            if n == B and nq >= 2:
                P.cover(ex, res, o, z3.BoolVal(True), "a quantum expired in the middle and the scan resumed")
            if n == 0:
                P.cover(ex, res, o, z3.BoolVal(True), "no closed blobs")
        q += ex.queries; s_ += ex.solver_s
    res.paths = total
    r = P.finish(ex, res, ["first dump failed, the rest still attempted", "a quantum expired in the middle and the scan resumed", "no closed blobs"])
    r.queries, r.solver_s = q, s_
    return r


def replace_keeps_old_blob(crate):
    """C11/C04/C14: Safe::replace_active_blob (blob rotation): the new blob becomes the active blob and the previous active
    blob — with its in-memory index, the only copy — is always handed to the closed-blob list: nothing that can fail or be
    cancelled stands between taking it out of the slot and pushing it (no awaited fallible call, no early return)."""
    res = P.ObResult("replace_keeps_old_blob")
    fn = crate.method("Safe", "replace_active_blob")
    res.functions = ["Safe::replace_active_blob (async body)"]
    res.bounds = "one call, previous active blob present or absent"
    ex = P.mk_executor(crate, cap=2, loop_bound=4, inline=[], havoc=[r"^(async_lock::)?RwLock::(new|into_inner)$", r"^(async_lock::)?RwLock::<.*>::(new|into_inner)$"])
    st = State()
    safe = Obj("storage::core::Safe<K>")
    ab = Obj("std::option::Option<std::boxed::Box<async_lock::RwLock<blob::core::Blob<K>>>>")
    act = z3.BitVec("active_present", 64)
    st.pc.append(z3.Or(act == BV64(0), act == BV64(1)))
    ab.discr = Sym(act, "isize")
    old_lock = Obj("async_lock::RwLock<blob::core::Blob<K>>")
    ab.fields[("Some", 0)] = Ref(st.new_cell(old_lock), (), True, "Box<async_lock::RwLock<blob::core::Blob<K>>>")
    abi = crate.field_index("Safe", "active_blob")
    safe.fields[(None, abi)] = ab
    sc = st.new_cell(safe)
    newb = Obj("blob::core::Blob<K>"); newb.fields[("ghost", "new")] = Sym(BV64(1), "u64")

    def probe(ex_, st_, name, fargs, out_ty, dty):
        st_.events.append(("probe", name, None, None))
        return None
    ex.await_hook = probe
    outs = P.drive_async(ex, st, fn, [Ref(sc, (), True, "&mut storage::core::Safe<K>"), newb])
    res.paths = len(outs)

    def per_path(o, isok, payload):
        awaits = [e for e in o.events if e[0] == "await" or (e[0] == "probe")]
        pushes = [e for e in P.events_of(o) if e[0] == "await" and e[1].endswith("HierarchicalFilters::push")]
        if not P.prove(ex, res, o, isok, "rotation bookkeeping itself does not fail"):
            return False
        if not P.prove(ex, res, o, z3.Implies(act == BV64(1), z3.BoolVal(len(pushes) == 1)), "the previous active blob is pushed to the closed list"):
            return False
        if not P.prove(ex, res, o, z3.Implies(act == BV64(0), z3.BoolVal(len(pushes) == 0)), "nothing is pushed when there was no active blob"):
            return False
        # nothing fallible is awaited before the push (lock acquisition is the only other suspension point)
        for e in P.events_of(o):
            if e[0] == "await" and not e[1].endswith("HierarchicalFilters::push") and "lock" not in e[1].lower():
                res.status = "violated"; res.detail = "awaited call %s while the old blob is in neither place" % e[1][-50:]; return False
        s2 = o.mem[sc]
        ab2 = s2.fields[(None, abi)]
        if not P.prove(ex, res, o, ex.get_discr(o, ab2).t == BV64(1), "afterwards an active blob is set"):
            return False
        P.cover(ex, res, o, act == BV64(1), "old blob moved to the closed list")
        P.cover(ex, res, o, act == BV64(0), "first active blob")
        return True
    _check_paths(ex, res, outs, per_path)
    return P.finish(ex, res, ["old blob moved to the closed list", "first active blob"])


def send_msg_delivers(crate):
    """C13: Observer::send_msg (behind every background request: rotation, close, create, restore, dumps, fsync): while the
    worker runs, the message is handed to the channel with the waiting `Sender::send` exactly once - so it is delivered
    unless the worker is gone - and never with a call that may drop it when the channel is full; nothing panics and no
    message is sent when the worker was not started."""
    res = P.ObResult("send_msg_delivers")
    fn = crate.method("Observer", "send_msg")
    res.functions = ["Observer::send_msg (async body)"]
    res.bounds = "one call, observer state Created / Running / Stopped, every outcome of the send"
    from .symex import FutureV

    def h_send(ex_, st_, frame, t, nf, args, dty):
        return [(FutureV(nf, args, None, "havoc"), None)]

    def h_lossy(ex_, st_, frame, t, nf, args, dty):
        st_.events.append(("lossy_send", nf, args, None))
        return [(ex_.fresh(dty, st_, "try_send"), None)]
    ex = P.mk_executor(crate, cap=2, loop_bound=4, inline=[], havoc=[r"^<.* as Clone>::clone$"],
                       extra_summaries=[(r"^(tokio::sync::mpsc::)?(bounded::)?Sender(::<.*>)?::send$", h_send),
                                        (r"^(tokio::sync::mpsc::)?(bounded::)?Sender(::<.*>)?::(try_send|send_timeout|try_reserve|blocking_send)$", h_lossy)])
    st = State()
    ob = Obj("storage::observer::Observer<K>")
    stt = Obj("storage::observer::ObserverState<K>")
    d = z3.BitVec("observer_state", 64)
    st.pc.append(z3.ULE(d, BV64(2)))
    stt.discr = Sym(d, "isize")
    ob.fields[(None, crate.field_index("Observer", "state"))] = stt
    oc = st.new_cell(ob)
    msg = Obj("storage::observer::Msg")
    msg.fields[("ghost", "id")] = Sym(BV64(77), "u64")
    outs = P.drive_async(ex, st, fn, [Ref(oc, (), False, "&storage::observer::Observer<K>"), msg])
    res.paths = len(outs)
    running = d == BV64(crate.enums["ObserverState"]["Running"])
    for o in outs:
        if o.status in ("infeasible", "unwind"):
            continue
        if o.status != "returned":
            if not P.prove(ex, res, o, z3.BoolVal(False), "no panic (%s: %s)" % (o.status, o.note)):
                break
            continue
        ready, _ = P.poll_payload(ex, o, o.result)
        if not P.prove(ex, res, o, ready, "no spurious Pending"):
            break
        lossy = [e for e in o.events if e[0] == "lossy_send"]
        if lossy and ex.feasible(o, z3.BoolVal(True)):
            res.status = "violated"
            res.detail = "the request is handed over with %s: it is dropped when the channel is full" % lossy[0][1].rsplit("::", 1)[1]
            res.counterexample = {"call": lossy[0][1]}
            break
        sends = [e for e in o.events if e[0] == "await" and e[1].endswith("::send")]
        if not P.prove(ex, res, o, z3.BoolVal(len(sends) == 1) == running, "sent exactly once iff the worker runs"):
            break
        if sends:
            m = sends[0][2][1] if len(sends[0][2]) > 1 else None
            if not (isinstance(m, Obj) and ("ghost", "id") in m.fields):
                res.status = "violated"; res.detail = "the value sent is not the caller's message"; break
            P.cover(ex, res, o, running, "sent")
        else:
            P.cover(ex, res, o, z3.Not(running), "worker not running: nothing sent")
    return P.finish(ex, res, ["sent", "worker not running: nothing sent"])


def observer_requests_typed(crate):
    """C13: each request method of the Observer sends exactly one message, of its own operation type (close -> CloseActiveBlob,
    create -> CreateActiveBlob, restore -> RestoreActiveBlob, try_update -> TryUpdateActiveBlob, force_update ->
    ForceUpdateActiveBlob with the caller's predicate, try_dump -> TryDumpBlobIndexes, defer_dump ->
    DeferredDumpBlobIndexes, try_fsync_data -> TryFsyncData): what process_msg_dispatch decides per type is what was asked."""
    res = P.ObResult("observer_requests_typed")
    want = {"close_active_blob": "CloseActiveBlob", "create_active_blob": "CreateActiveBlob", "restore_active_blob": "RestoreActiveBlob",
            "try_update_active_blob": "TryUpdateActiveBlob", "force_update_active_blob": "ForceUpdateActiveBlob",
            "try_dump_old_blob_indexes": "TryDumpBlobIndexes", "defer_dump_old_blob_indexes": "DeferredDumpBlobIndexes",
            "try_fsync_data": "TryFsyncData"}
    res.functions = ["Observer::%s (async body)" % k for k in want] + ["Msg::new"]
    res.bounds = "one call each; send_msg replaced by its contract (send_msg_delivers)"
    OT = crate.enums["OperationType"]
    tq = ts = 0
    for meth, op in want.items():
        ex = P.mk_executor(crate, cap=2, loop_bound=3, inline=[r"^Msg::new$"])
        st = State()
        oc = st.new_cell(Obj("storage::observer::Observer<K>"))

        def hook(ex_, st_, name, fargs, out_ty, dty):
            if name.endswith("send_msg"):
                st_.events.append(("await", name, fargs, UNIT))
                return [(S.poll_ready(dty, UNIT), None)]
            return None
        ex.await_hook = hook
        fn = crate.method("Observer", meth)
        args = [Ref(oc, (), False, "&storage::observer::Observer<K>")]
        if meth == "force_update_active_blob":
            pred = Obj("ActiveBlobPred"); pred.fields[("ghost", "id")] = Sym(BV64(9), "u64")
            args.append(pred)
        outs = P.drive_async(ex, st, fn, args)
        res.paths += len(outs)
        for o in outs:
            if o.status in ("infeasible", "unwind"):
                continue
            if o.status != "returned":
                if not P.prove(ex, res, o, z3.BoolVal(False), "no panic in %s (%s)" % (meth, o.note)):
                    return P.finish(ex, res, [])
                continue
            sends = [e for e in o.events if e[0] == "await" and e[1].endswith("send_msg")]
            if len(sends) != 1:
                res.status = "violated"; res.detail = "%s sends %d messages" % (meth, len(sends)); return P.finish(ex, res, [])
            msg = sends[0][2][1]
            if isinstance(msg, Ref):
                msg = S.deref_val(ex, o, msg)
            ot = msg.fields.get((None, crate.field_index("Msg", "optype"))) if isinstance(msg, Obj) else None
            if ot is None:
                res.status = "inconclusive"; res.detail = "message of %s not modelled" % meth; return P.finish(ex, res, [])
            d = ex.get_discr(o, ot).t if isinstance(ot, Obj) else ot.t
            if not P.prove(ex, res, o, d == BV64(OT[op]), "%s asks for %s" % (meth, op)):
                return P.finish(ex, res, [])
            pr = msg.fields.get((None, crate.field_index("Msg", "predicate")))
            if meth == "force_update_active_blob":
                pv = pr.fields.get(("Some", 0)) if isinstance(pr, Obj) else None
                has = isinstance(pv, Obj) and ("ghost", "id") in pv.fields
                if not (has and P.prove(ex, res, o, ex.get_discr(o, pr).t == BV64(1), "force_update carries the caller's predicate")):
                    if res.status == "holds":
                        res.status = "violated"; res.detail = "force_update_active_blob does not carry the caller's predicate"
                    return P.finish(ex, res, [])
            elif isinstance(pr, Obj):
                if not P.prove(ex, res, o, ex.get_discr(o, pr).t == BV64(0), "%s carries no predicate (it always applies)" % meth):
                    return P.finish(ex, res, [])
            P.cover(ex, res, o, z3.BoolVal(True), "%s sent" % meth)
        tq += ex.queries; ts += ex.solver_s
    r = P.finish(ex, res, ["%s sent" % k for k in want])
    r.queries, r.solver_s = tq, ts
    return r


def storage_background_requests(crate):
    """C13: the public *_in_background / force_update entry points forward exactly the requests their documentation names,
    in order: create -> [create]; close -> [close, dump old indexes]; restore -> [restore]; force_update(p) ->
    [force_update(p), dump old indexes]."""
    res = P.ObResult("storage_background_requests")
    want = {"create_active_blob_in_background": ["create_active_blob"],
            "close_active_blob_in_background": ["close_active_blob", "try_dump_old_blob_indexes"],
            "restore_active_blob_in_background": ["restore_active_blob"],
            "force_update_active_blob": ["force_update_active_blob", "try_dump_old_blob_indexes"]}
    res.functions = ["Storage::%s (async body)" % k for k in want]
    res.bounds = "one call each; Observer methods replaced by their contracts (observer_requests_typed, send_msg_delivers)"
    tq = ts = 0
    for meth, seq in want.items():
        ex = P.mk_executor(crate, cap=2, loop_bound=3, inline=[])
        st = State()
        sc = st.new_cell(Obj("storage::core::Storage<K>"))
        fn = crate.method("Storage", meth)
        args = [Ref(sc, (), False, "&storage::core::Storage<K>")]
        if meth == "force_update_active_blob":
            pred = Obj("ActiveBlobPred"); pred.fields[("ghost", "id")] = Sym(BV64(9), "u64")
            args.append(pred)
        outs = P.drive_async(ex, st, fn, args)
        res.paths += len(outs)
        for o in outs:
            if o.status in ("infeasible", "unwind"):
                continue
            if o.status != "returned":
                if not P.prove(ex, res, o, z3.BoolVal(False), "no panic in %s (%s)" % (meth, o.note)):
                    return P.finish(ex, res, [])
                continue
            got = [e[1].rsplit("::", 1)[-1] for e in o.events if e[0] == "await" and "Observer" in e[1]]
            if got != seq and ex.feasible(o, z3.BoolVal(True)):
                res.status = "violated"; res.detail = "%s forwards %s, documented: %s" % (meth, got, seq)
                res.counterexample = {"method": meth, "requests": got}
                return P.finish(ex, res, [])
            if meth == "force_update_active_blob":
                ev = [e for e in o.events if e[0] == "await" and e[1].endswith("Observer::force_update_active_blob")][0]
                p = ev[2][1] if len(ev[2]) > 1 else None
                if not (isinstance(p, Obj) and ("ghost", "id") in p.fields):
                    res.status = "violated"; res.detail = "force_update_active_blob does not pass the caller's predicate on"; return P.finish(ex, res, [])
            P.cover(ex, res, o, z3.BoolVal(True), "%s forwarded" % meth)
        tq += ex.queries; ts += ex.solver_s
    r = P.finish(ex, res, ["%s forwarded" % k for k in want])
    r.queries, r.solver_s = tq, ts
    return r


def storage_close_dumps(crate):
    """C12/C13: Storage::close: the active blob (if any) is dumped exactly once - Blob::dump syncs the blob before it writes
    the index (dump_order) - the dump's error is what close returns, and the worker shutdown is awaited exactly once on
    every path, after the storage lock was released (also when the dump failed): close neither skips the sync of
    acknowledged data nor leaves the worker running."""
    res = P.ObResult("storage_close_dumps")
    fn = crate.method("Storage", "close")
    res.functions = ["Storage::close (async body)"]
    res.bounds = "one call, active blob present or not, every outcome of the dump"
    ex = P.mk_executor(crate, cap=2, loop_bound=3, inline=[], havoc=[r"^Blob::name$", r"^(std::result::)?Result(::<.*>)?::map$"])
    st = State()
    storage = Obj("storage::core::Storage<K>")

    def hook(ex_, st_, name, fargs, out_ty, dty):
        if name.endswith("Blob::dump") or name.endswith("::dump"):
            r = ex_.fresh(out_ty, st_, "dump")
            st_.events.append(("await", name, fargs, r))
            return [(S.poll_ready(dty, r), None)]
        return None
    ex.await_hook = hook
    outs = P.drive_async(ex, st, fn, [storage])
    res.paths = len(outs)
    from .ob_blob import _check_paths, _ev_result_ok

    def per_path(o, isok, payload):
        evs = [e for e in o.events if e[0] == "await"]
        names = [e[1] for e in evs]
        dumps = [e for e in evs if e[1].endswith("::dump")]
        shut = [i for i, n in enumerate(names) if n.endswith("Observer::shutdown")]
        if len(shut) != 1:
            res.status = "violated"; res.detail = "worker shutdown awaited %d times on a path of close (%s)" % (len(shut), [n.rsplit('::', 1)[-1] for n in names]); return False
        if len(dumps) > 1:
            res.status = "violated"; res.detail = "active blob dumped %d times" % len(dumps); return False
        if dumps:
            if names.index(dumps[0][1]) > shut[0]:
                res.status = "violated"; res.detail = "worker shut down before the active blob was dumped"; return False
            if not P.prove(ex, res, o, isok == _ev_result_ok(ex, o, dumps[0]), "close returns the result of the dump"):
                return False
            P.cover(ex, res, o, z3.Not(isok), "dump failed: error returned, worker still shut down")
            P.cover(ex, res, o, isok, "dumped and closed")
        else:
            if not P.prove(ex, res, o, isok, "no active blob: Ok"):
                return False
            P.cover(ex, res, o, isok, "no active blob")
        locks = [e for e in o.events if e[0] == "await" and ("RwLock" in e[1] or e[1].endswith("::write"))]
        return True
    _check_paths(ex, res, outs, per_path)
    return P.finish(ex, res, ["dump failed: error returned, worker still shut down", "dumped and closed", "no active blob"])
