"""Obligations on src/blob/entry.rs, src/blob/core.rs (RawRecords), src/record/record.rs: what is read from where, and that
the checksum audits dominate every successful return (C05, C06)."""
import re
import z3
from .symex import State, Sym, Obj, VecV, Ref, FnItem, FutureV, UNIT, Unsupported, fresh_name, generic_args, base_type
from . import pearl as P
from . import summaries as S
from .pearl import BV64
from .ob_blob import idx, _check_paths, _ev_result_ok, INLINE_BLOB, file_obj

# ---- byte buffers as file ranges ----------------------------------------------------------------------------------

def mk_buf(length, off=None, tag="buf"):
    b = Obj("bytes::BytesMut")
    b.fields[("g", "len")] = Sym(length, "usize")
    b.fields[("g", "off")] = Sym(off, "u64") if off is not None else None
    b.tag = ("bytes", tag)
    return b


def _buf(ex, st, v):
    b = S.deref_val(ex, st, v)
    if not (isinstance(b, Obj) and ("g", "len") in b.fields):
        raise Unsupported("not a modelled byte buffer: %r" % (b,))
    return b


def h_bytes_zeroed(ex, st, frame, t, nf, args, dty):
    return [(mk_buf(args[0].t), None)]


def h_bytes_with_capacity(ex, st, frame, t, nf, args, dty):
    return [(mk_buf(BV64(0)), None)]


def h_bytes_len(ex, st, frame, t, nf, args, dty):
    return [(_buf(ex, st, args[0]).fields[("g", "len")], None)]


def h_bytes_resize(ex, st, frame, t, nf, args, dty):
    b = _buf(ex, st, args[0])
    n = args[1].t
    old = b.fields[("g", "len")].t
    b.fields[("g", "len")] = Sym(n, "usize")
    # growing appends zeros that were not read from the file; shrinking keeps the prefix
    if b.fields.get(("g", "off")) is not None:
        st.events.append(("note", "resize", None, Sym(z3.UGT(n, old), "bool")))
    return [(UNIT, None)]


def h_bytes_freeze(ex, st, frame, t, nf, args, dty):
    return [(args[0], None)]


def h_bytes_split_off(ex, st, frame, t, nf, args, dty):
    b = _buf(ex, st, args[0])
    at = args[1].t
    ln = b.fields[("g", "len")].t
    off = b.fields.get(("g", "off"))
    tail = mk_buf(ln - at, (off.t + at) if off is not None else None)
    b.fields[("g", "len")] = Sym(at, "usize")
    inb = z3.ULE(at, ln)
    return [(tail, inb), (("panic", "split_off out of bounds"), z3.Not(inb))]


def h_bytes_deref(ex, st, frame, t, nf, args, dty):
    return [(S.vec_ref_any(ex, st, args[0]), None)]


BYTES_SUMMARIES = [
    (r"^(bytes::)?BytesMut::zeroed$", h_bytes_zeroed),
    (r"^(bytes::)?BytesMut::with_capacity$", h_bytes_with_capacity),
    (r"^(bytes::)?(BytesMut|Bytes)::len$", h_bytes_len),
    (r"^(bytes::)?BytesMut::resize$", h_bytes_resize),
    (r"^(bytes::)?BytesMut::freeze$", h_bytes_freeze),
    (r"^(bytes::)?(BytesMut|Bytes)::split_off$", h_bytes_split_off),
    (r"^<(bytes::)?(BytesMut|Bytes) as (std::ops::)?Deref>::deref$", h_bytes_deref),
    (r"^<(bytes::)?BytesMut as (std::ops::)?DerefMut>::deref_mut$", h_bytes_deref),
    (r"^<u64 as (std::convert::)?TryInto<usize>>::try_into$", lambda ex, st, fr, t, nf, a, d: [(S.ok(Sym(a[0].t, "usize"), d), None)]),
]


def _identity(ex, st, a):
    if isinstance(a, Ref):
        try:
            v = ex.read_path(st, a.cell, a.proj)
        except Unsupported:
            return ("ref", a.cell, tuple(str(p) for p in a.proj))
        return _identity(ex, st, v)
    if isinstance(a, Obj):
        return ("obj", a.oid)
    if isinstance(a, Sym):
        return ("sym", a.t.sexpr())
    return ("other", repr(a))


def pure_call_hook(names):
    """functions treated as uninterpreted pure functions of their arguments' identities (same args -> same value)"""
    rx = [re.compile(n) for n in names]
    memo = {}

    def hook(ex, st, cname, args, dty):
        if not any(r.search(cname) for r in rx):
            return None
        key = (cname,) + tuple(_identity(ex, st, a) for a in args)
        if key not in memo:
            memo[key] = ex.fresh(dty, st, "pure")
        v = memo[key]
        if isinstance(v, Sym) and z3.is_bv(v.t):
            st.pc.append(z3.ULT(v.t, z3.BitVecVal(1 << 20, v.t.size())))   # sizes of serialized headers are small
        st.events.append(("call", cname, args, v))
        return [(v, None)]
    return hook


def file_read_hook(st0_events_filter=None):
    """File::read_exact_at_allocate(size, off) / read_exact_at(buf, off): Ok(buffer covering [off, off+len)) or Err"""
    def hook(ex, st, name, fargs, out_ty, dty):
        if "read_exact_at_allocate" in name:
            size, off = fargs[1], fargs[2]
            buf = mk_buf(size.t, off.t, "read")
        elif "read_exact_at" in name:
            b = _buf(ex, st, fargs[1])
            off = fargs[2]
            buf = mk_buf(b.fields[("g", "len")].t, off.t, "read")
        else:
            return None
        okv = z3.Bool(fresh_name("read_ok"))
        r = Obj(out_ty)
        r.discr = Sym(z3.If(okv, BV64(0), BV64(1)), "isize")
        r.fields[("Ok", 0)] = buf
        r.fields[("Err", 0)] = S.raw_io_error(st)
        st.events.append(("await", name, fargs, r))
        return [(S.poll_ready(dty, r), None)]
    return hook


INLINE_REC = INLINE_BLOB + [r"^Header::(meta_size|data_size|meta_offset|data_offset|blob_offset)$", r"^Record::(new|validate|check_data_checksum|header)$",
                            r"^Entry::", r"^RawRecords::"]


def _entry_state(crate, ex, st):
    e = Obj("blob::entry::Entry")
    h = P.mk_header(crate, "eh")
    hf = P.record_header_fields(crate)
    h.fields[(None, hf["meta_size"])] = Sym(z3.BitVec("eh_msz", 64), "u64")
    e.fields[(None, crate.field_index("Entry", "header"))] = h
    f, size, synced = file_obj(crate, st, "blobfile")
    e.fields[(None, crate.field_index("Entry", "blob_file"))] = f
    # realistic sizes (no wrap-around in offset arithmetic)
    for fld in ("meta_size", "data_size", "blob_offset"):
        st.pc.append(z3.ULT(P.hdrl(crate, ex, st, h, fld), BV64(1 << 40)))
    return e, h


def entry_load_audits(crate, which="load"):
    """C05: Entry::load / Entry::load_data: a successful return implies the data bytes were read from
    [header.data_offset, +data_size) of the blob file and passed the CRC audit against header.data_checksum."""
    res = P.ObResult("entry_%s_audits" % which)
    fn = crate.method("Entry", which)
    res.functions = ["Entry::%s (async body)" % which, "Record::validate", "Record::check_data_checksum",
                     "RecordHeader::{meta_offset,data_offset,meta_size,data_size}"]
    res.bounds = "one entry, arbitrary header fields (< 2^40), every outcome of read / deserialize / audits; meta already loaded or not"
    ex = P.mk_executor(crate, cap=2, loop_bound=4, inline=[x for x in INLINE_REC if x != r"^Entry::"] + [r"^Entry::(load|load_data)$"],
                       extra_summaries=BYTES_SUMMARIES)
    ex.call_hook = pure_call_hook([r"^Header::serialized_size$"])
    ex.await_hook = file_read_hook()
    st = State()
    e, h = _entry_state(crate, ex, st)
    ec = st.new_cell(e)
    arg = e if which == "load" else Ref(ec, (), False, "&blob::entry::Entry")
    outs = P.drive_async(ex, st, fn, [arg])
    res.paths = len(outs)
    hf = P.record_header_fields(crate)

    def per_path(o, isok, payload):
        evs = P.events_of(o)
        names = [x[1] for x in evs]
        audits = [x for x in evs if "data_checksum_audit" in x[1]]
        if not audits:
            if not P.prove(ex, res, o, z3.Not(isok), "Ok => the data checksum was audited"):
                return False
            P.cover(ex, res, o, z3.BoolVal(True), "failed before the audit")
            return True
        a = audits[-1]
        a_ok = _ev_result_ok(ex, o, a)
        if not P.prove(ex, res, o, z3.Implies(isok, a_ok), "Ok => the audit succeeded"):
            return False
        # the audit is against this entry's header ...
        ah = S.deref_val(ex, o, a[2][0])
        hs = P.hdrl(crate, ex, o, ah, "seq")
        if not P.prove(ex, res, o, hs == P.hdr(crate, h, "seq"), "audit uses the entry's own header"):
            return False
        # ... over exactly the record's data bytes
        data = _buf(ex, o, a[2][1])
        off = data.fields.get(("g", "off"))
        if off is None:
            res.status = "violated"; res.detail = "audited bytes do not come from a file read"; return False
        ser = [x for x in evs if "serialized_size" in x[1]]
        if not ser:
            res.status = "violated"; res.detail = "data offset computed without the header size"; return False
        hsize = ser[0][3].t
        want_off = P.hdr(crate, h, "blob_offset") + hsize + P.hdrl(crate, ex, o, h, "meta_size")
        if not P.prove(ex, res, o, z3.Implies(isok, z3.And(off.t == want_off, data.fields[("g", "len")].t == P.hdr(crate, h, "data_size"))),
                       "audited bytes = file[data_offset, data_offset + data_size)"):
            return False
        grow = [x for x in evs if x[0] == "note" and x[1] == "resize"]
        P.cover(ex, res, o, isok, "loaded and audited")
        P.cover(ex, res, o, z3.Not(a_ok), "audit failed")
        return True

    _check_paths(ex, res, outs, per_path)
    return P.finish(ex, res, ["loaded and audited", "audit failed", "failed before the audit"])


def entry_load_data_audits(crate):
    return entry_load_audits(crate, "load_data")


def _raw_records_state(crate, ex, st):
    rr = Obj("blob::core::RawRecords")
    cur = z3.BitVec("rr_current_offset", 64)
    rhs = z3.BitVec("rr_record_header_size", 64)
    rr.fields[(None, crate.field_index("RawRecords", "current_offset"))] = Sym(cur, "u64")
    rr.fields[(None, crate.field_index("RawRecords", "record_header_size"))] = Sym(rhs, "u64")
    vd = z3.Bool("rr_validate_data")
    rr.fields[(None, crate.field_index("RawRecords", "validate_data"))] = Sym(vd, "bool")
    f, size, synced = file_obj(crate, st, "blobfile")
    rr.fields[(None, crate.field_index("RawRecords", "file"))] = f
    st.pc.append(z3.And(z3.ULT(cur, BV64(1 << 40)), z3.ULT(rhs, BV64(1 << 20)), z3.UGT(rhs, BV64(0))))
    return rr, cur, rhs, vd, size


def _hdr_from_raw_hook(crate, bound=True):
    """Header::from_raw(&buf): arbitrary Result<Header>; sizes of the parsed header are bounded (< 2^40) to keep offset
    arithmetic from wrapping (a separate concern: overflow checks are on in debug builds)."""
    def hook(ex, st, cname, args, dty):
        if cname != "Header::from_raw":
            return None
        r = ex.fresh(dty, st, "parsed")
        h = r.fields[("Ok", 0)]
        for fld in ("meta_size", "data_size"):
            st.pc.append(z3.ULT(P.hdrl(crate, ex, st, h, fld), BV64(1 << 40)))
        st.events.append(("call", cname, args, r))
        return [(r, None)]
    return hook


def read_current_record_step(crate):
    """C05/C06: RawRecords::read_current_record: the header is read from [cur, cur+hsize) and validated (magic + CRC)
    before anything is returned; with read_data the data buffer is exactly file[cur+hsize+meta_size, +data_size);
    the cursor advances by hsize + meta_size + data_size; every read / parse / validation error is returned."""
    res = P.ObResult("read_current_record_step")
    fn = crate.method("RawRecords", "read_current_record")
    res.functions = ["RawRecords::read_current_record (async body)", "RecordHeader::{meta_size,data_size}"]
    res.bounds = "one record, arbitrary cursor (< 2^40) and parsed header sizes (< 2^40), every outcome of reads / parse / validation"
    ex = P.mk_executor(crate, cap=2, loop_bound=4, inline=[x for x in INLINE_REC if x not in (r"^RawRecords::", r"^Entry::")] + [r"^RawRecords::read_current_record$"],
                       extra_summaries=BYTES_SUMMARIES)
    ex.call_hook = _hdr_from_raw_hook(crate)
    ex.await_hook = file_read_hook()
    ex.classify_reads = True
    st = State()
    rr, cur, rhs, vd, size = _raw_records_state(crate, ex, st)
    rc = st.new_cell(rr)
    read_data = z3.Bool("read_data")
    outs = P.drive_async(ex, st, fn, [Ref(rc, (), True, "&mut blob::core::RawRecords"), Sym(read_data, "bool")])
    res.paths = len(outs)
    coi = crate.field_index("RawRecords", "current_offset")

    def per_path(o, isok, payload):
        evs = P.events_of(o)
        names = [x[1] for x in evs]
        reads = [x for x in evs if x[0] == "await" and "read_exact_at" in x[1]]
        i_parse = idx(names, "Header::from_raw")
        i_val = idx(names, "Header::validate")
        cur2 = o.mem[rc].fields[(None, coi)].t
        if not reads:
            res.status = "violated"; res.detail = "no header read"; return False
        r0 = reads[0]
        b0 = r0[3].fields[("Ok", 0)]
        if not P.prove(ex, res, o, z3.And(b0.fields[("g", "off")].t == cur, b0.fields[("g", "len")].t == rhs), "header read = file[cur, cur + header size)"):
            return False
        all_ok = [_ev_result_ok(ex, o, r0)]
        if i_parse is not None:
            all_ok.append(_ev_result_ok(ex, o, evs[i_parse]))
        if i_val is not None:
            all_ok.append(_ev_result_ok(ex, o, evs[i_val]))
        if not P.prove(ex, res, o, z3.Implies(isok, z3.And(z3.BoolVal(i_parse is not None), z3.BoolVal(i_val is not None), *all_ok)),
                       "Ok => header parsed and validated"):
            return False
        if i_val is None or i_parse is None:
            if not P.prove(ex, res, o, cur2 == cur, "failure before validation leaves the cursor in place"):
                return False
            P.cover(ex, res, o, z3.Not(all_ok[0]), "header read failed")
            return True
        if not P.prove(ex, res, o, z3.Implies(z3.Not(z3.And(*all_ok)), z3.And(z3.Not(isok), cur2 == cur)), "invalid header: Err, cursor unchanged"):
            return False
        hobj = evs[i_parse][3].fields[("Ok", 0)]
        msz, dsz = P.hdrl(crate, ex, o, hobj, "meta_size"), P.hdrl(crate, ex, o, hobj, "data_size")
        vh = S.deref_val(ex, o, evs[i_val][2][0])
        if not P.prove(ex, res, o, z3.BoolVal(vh.oid == hobj.oid), "the validated header is the parsed one"):
            return False
        if len(reads) > 1:
            r1 = reads[1]
            b1 = r1[3].fields[("Ok", 0)]
            if not P.prove(ex, res, o, z3.And(read_data, b1.fields[("g", "off")].t == cur + rhs + msz, b1.fields[("g", "len")].t == dsz),
                           "data read = file[cur + hsize + meta_size, + data_size)"):
                return False
            d_ok = _ev_result_ok(ex, o, r1)
            if not P.prove(ex, res, o, z3.Implies(z3.Not(d_ok), z3.Not(isok)), "data read error returned"):
                return False
            out = payload.fields.get(("Ok", 0))
            if out is not None:
                ob = ex._get_field(o, out, None, 1, "Option<BytesMut>")
                if not P.prove(ex, res, o, z3.Implies(isok, ex.get_discr(o, ob).t == BV64(1)), "with read_data the data is returned"):
                    return False
                db = ob.fields.get(("Some", 0))
                if db is not None and ("g", "off") in db.fields and db.fields[("g", "off")] is not None:
                    if not P.prove(ex, res, o, z3.Implies(isok, z3.And(db.fields[("g", "off")].t == cur + rhs + msz, db.fields[("g", "len")].t == dsz)),
                                   "returned data buffer = the record's data bytes"):
                        return False
                P.cover(ex, res, o, z3.And(isok, z3.ULT(dsz, rhs)), "data shorter than a header")
                P.cover(ex, res, o, z3.And(isok, z3.UGT(dsz, rhs)), "data longer than a header")
        else:
            if not P.prove(ex, res, o, z3.Implies(isok, z3.Not(read_data)), "Ok without data read only when read_data is false"):
                return False
            P.cover(ex, res, o, isok, "header only")
        if not P.prove(ex, res, o, z3.Implies(isok, cur2 == cur + rhs + msz + dsz), "cursor advances by header + meta + data"):
            return False
        P.cover(ex, res, o, z3.And(z3.Not(isok), all_ok[0]), "invalid header")
        return True

    _check_paths(ex, res, outs, per_path)
    return P.finish(ex, res, ["data shorter than a header", "data longer than a header", "header only", "invalid header", "header read failed"])


def rawrecords_all_or_nothing(crate, N=3):
    """C06/C05: RawRecords::load returns Ok(headers) only if every record up to the end of the file parsed and validated
    (and, with validate_data, passed the data CRC audit) in order; the first failure is returned: a torn tail never
    yields a partially indexed blob.  Headers are returned in file order."""
    res = P.ObResult("rawrecords_all_or_nothing[N<=%d]" % N)
    fn = crate.method("RawRecords", "load")
    res.functions = ["RawRecords::load (async body)", "File::size"]
    res.bounds = "<= %d records before the end of file (longer files are outside: loop unwound %d times, deeper paths dropped)" % (N, N + 1)
    ex = P.mk_executor(crate, cap=N + 3, loop_bound=N + 1, inline=[x for x in INLINE_REC if x not in (r"^RawRecords::", r"^Entry::")] + [r"^RawRecords::load$"],
                       extra_summaries=BYTES_SUMMARIES)
    ex.unwind_assume = True
    st = State()
    rr, cur, rhs, vd, size = _raw_records_state(crate, ex, st)
    rc = st.new_cell(rr)
    coi = crate.field_index("RawRecords", "current_offset")

    def hook(ex_, st_, name, fargs, out_ty, dty):
        if "read_current_record" not in name:
            return None
        k = len([e for e in st_.events if e[0] == "await" and "read_current_record" in e[1]])
        r = ex_.fresh(out_ty, st_, "rec%d" % k)
        tup = r.fields[("Ok", 0)]
        h = P.mk_header(crate, "rec%d" % k)
        tup.fields[(None, 0)] = h
        # effect on the cursor: advances by a positive amount on Ok, unchanged on Err
        me = S.deref_val(ex_, st_, fargs[0]) if fargs else None
        rro = st_.mem[rc]
        adv = z3.BitVec("adv%d" % k, 64)
        st_.pc.append(z3.And(z3.UGT(adv, BV64(0)), z3.ULT(adv, BV64(1 << 40))))
        okk = ex_.get_discr(st_, r).t == BV64(0)
        oldc = rro.fields[(None, coi)].t
        rro.fields[(None, coi)] = Sym(z3.If(okk, oldc + adv, oldc), "u64")
        st_.events.append(("await", name, fargs, r))
        return [(S.poll_ready(dty, r), None)]
    ex.await_hook = hook
    outs = P.drive_async(ex, st, fn, [rr])
    res.paths = len(outs)

    def per_path(o, isok, payload):
        evs = P.events_of(o)
        recs = [x for x in evs if x[0] == "await" and "read_current_record" in x[1]]
        audits = [x for x in evs if "data_checksum_audit" in x[1]]
        oks = [_ev_result_ok(ex, o, x) for x in recs]
        # every record read must have been Ok for an Ok result
        if not P.prove(ex, res, o, z3.Implies(isok, z3.And(oks) if oks else z3.BoolVal(True)), "Ok => every record parsed and validated"):
            return False
        # an Err of a record is returned immediately (no later record is read)
        for i, x in enumerate(recs[:-1]):
            if not P.prove(ex, res, o, oks[i], "no record is read after a failed one"):
                return False
        if recs:
            if not P.prove(ex, res, o, z3.Implies(z3.Not(oks[-1]), z3.Not(isok)), "the first failure is returned"):
                return False
        # with validate_data every returned data buffer is audited and a failed audit is returned
        for x in audits:
            if not P.prove(ex, res, o, z3.Implies(z3.Not(_ev_result_ok(ex, o, x)), z3.Not(isok)), "failed data audit is returned"):
                return False
        out = payload.fields.get(("Ok", 0))
        if out is not None:
            d = ex.get_discr(o, out).t
            if not P.prove(ex, res, o, z3.Implies(isok, (d == BV64(1)) == z3.BoolVal(len(recs) > 0)), "Some(headers) iff at least one record"):
                return False
            if len(recs) > 0 and ("Some", 0) in out.fields and isinstance(out.fields[("Some", 0)], VecV):
                v = out.fields[("Some", 0)]
                cs = [v.len.t == BV64(len(recs))]
                for k, x in enumerate(recs):
                    hk = x[3].fields[("Ok", 0)].fields[(None, 0)]
                    e = v.elems[k] if k < v.cap else None
                    if e is None:
                        cs.append(z3.BoolVal(False))
                    else:
                        cs.append(P.hdrl(crate, ex, o, e, "seq") == P.hdr(crate, hk, "seq"))
                if not P.prove(ex, res, o, z3.Implies(isok, z3.And(cs)), "headers returned in file order, none missing"):
                    return False
                P.cover(ex, res, o, z3.And(isok, z3.BoolVal(len(recs) >= 2)), "two or more records")
        P.cover(ex, res, o, z3.And(z3.Not(isok), z3.BoolVal(len(recs) >= 2)), "torn tail after valid records")
        P.cover(ex, res, o, z3.And(isok, z3.BoolVal(len(recs) == 0)), "empty blob")
        if audits:
            P.cover(ex, res, o, z3.Not(_ev_result_ok(ex, o, audits[-1])), "data audit failed")
        return True

    _check_paths(ex, res, outs, per_path)
    return P.finish(ex, res, ["two or more records", "torn tail after valid records", "empty blob", "data audit failed"])


def rawrecords_tiles_file(crate, N=2):
    """C06: RawRecords::load + read_current_record against a file of arbitrary size: an Ok result means the records
    returned tile [first record, end of file) exactly — every returned header's meta and data bytes lie inside the
    file.  A blob whose last record is torn anywhere (header, meta or data; data validation on or off) is therefore
    rejected by the scan (and goes to quarantine) instead of being indexed with a record that cannot be read and whose
    declared extent later writes would land in.  File reads: Ok implies the whole range is inside the file
    (read_exact semantics); any read may fail."""
    res = P.ObResult("rawrecords_tiles_file[N<=%d]" % N)
    fn = crate.method("RawRecords", "load")
    res.functions = ["RawRecords::load (async body)", "RawRecords::read_current_record (async body)", "File::size",
                     "RecordHeader::{meta_size,data_size}"]
    res.bounds = "<= %d records before the end of file (loop unwound %d times, deeper paths dropped), arbitrary file size / cursor / header sizes (< 2^40), data validation on and off" % (N, N + 1)
    ex = P.mk_executor(crate, cap=N + 3, loop_bound=N + 1, inline=[x for x in INLINE_REC if x not in (r"^RawRecords::", r"^Entry::")] + [r"^RawRecords::(load|read_current_record)$"],
                       extra_summaries=BYTES_SUMMARIES)
    ex.unwind_assume = True
    ex.call_hook = _hdr_from_raw_hook(crate)
    st = State()
    rr, cur, rhs, vd, size = _raw_records_state(crate, ex, st)
    st.pc.append(z3.ULT(size, BV64(1 << 40)))
    rc = st.new_cell(rr)
    coi = crate.field_index("RawRecords", "current_offset")
    inner = file_read_hook()

    def hook(ex_, st_, name, fargs, out_ty, dty):
        out = inner(ex_, st_, name, fargs, out_ty, dty)
        if out is None:
            return None
        ev = st_.events[-1]
        b = ev[3].fields[("Ok", 0)]
        okk = ex_.get_discr(st_, ev[3]).t == BV64(0)
        st_.pc.append(z3.Implies(okk, z3.ULE(b.fields[("g", "off")].t + b.fields[("g", "len")].t, size)))
        return out
    ex.await_hook = hook
    ex.classify_reads = True
    outs = P.drive_async(ex, st, fn, [rr])
    res.paths = len(outs)

    def per_path(o, isok, payload):
        evs = P.events_of(o)
        parses = [x for x in evs if x[0] == "call" and x[1] == "Header::from_raw"]
        # the cursor after the scan: the coroutine owns `self`; recompute it from the parsed headers
        end = cur
        for x in parses:
            h = x[3].fields[("Ok", 0)]
            end = end + rhs + P.hdrl(crate, ex, o, h, "meta_size") + P.hdrl(crate, ex, o, h, "data_size")
        if not P.prove(ex, res, o, z3.Implies(z3.And(isok, z3.ULE(cur, size)), end == size),
                       "Ok => the scanned records end exactly at the end of the file (no record extends past EOF)"):
            return False
        P.cover(ex, res, o, z3.And(isok, z3.BoolVal(len(parses) >= 2), z3.Not(vd)), "two records, validation off")
        P.cover(ex, res, o, z3.And(isok, z3.BoolVal(len(parses) >= 1), vd), "record accepted with validation on")
        P.cover(ex, res, o, z3.And(z3.Not(isok), z3.BoolVal(len(parses) >= 2)), "rejected after a complete record")
        return True

    _check_paths(ex, res, outs, per_path)
    return P.finish(ex, res, ["two records, validation off", "record accepted with validation on", "rejected after a complete record"])


# ---------------------------------------------------------------------------------------------
# classification of a short file: every failed read on a parse path goes through into_bincode_if_unexpected_eof
# ---------------------------------------------------------------------------------------------
def _h_map_err_run(ex, st, frame, t, nf, args, dty):
    """Result::map_err with the closure always executed on the Err path (this obligation follows the error value)."""
    v, f = args[0], args[1]
    good = S.split_enum(ex, st, v, 0)
    outs = []
    if ex.feasible(st, good):
        s_ok = st.fork()
        s_ok.pc.append(good)
        ex.set_dest_and_goto(s_ok, t, S.ok(ex._get_field(s_ok, v, "Ok", 0, "?"), dty))
        outs.append(s_ok)
    if ex.feasible(st, z3.Not(good)):
        st.pc.append(z3.Not(good))
        payload = ex._get_field(st, v, "Err", 0, "?")
        S.call_value(ex, st, frame, f, [payload], t.dest, t.targets.get("return"))

        def w(ex_, st_, val, _dty=dty):
            return S.err(val, _dty)
        st.frames[-1].ret_wrap = w
        outs.append(st)
    return ("states", outs)


def _h_classify(ex, st, frame, t, nf, args, dty):
    e = Obj("error")
    e.tag = ("classified", args[0])
    st.events.append(("classify", nf, args, None))
    return [(e, None)]


def _error_chain(e, depth=0):
    """objects an error value was derived from (through with_context / map_err wrappers)"""
    out = []
    while isinstance(e, Obj) and depth < 12:
        out.append(e)
        tg = getattr(e, "tag", None)
        e = tg[1] if isinstance(tg, tuple) and len(tg) > 1 and tg[0] in ("mapped_error", "classified") else None
        depth += 1
    return out


def header_read_classified(crate):
    """C06: blob Header::from_file: the header is read with ONE read of exactly the serialized header size at offset 0 and
    a failed read reaches the caller only through into_bincode_if_unexpected_eof, i.e. a blob file shorter than its header
    (torn at creation) is reported as a deserialization error - which init treats as a corrupted blob - and never as a
    plain I/O error (which makes init fail)."""
    res = P.ObResult("header_read_classified")
    fn = crate.find(r"blob::header::<impl at [^>]*>::from_file$|^header::<impl at src/blob/header\.rs[^>]*>::from_file$")
    res.functions = ["blob::header::Header::from_file (async body) + its map_err closures"]
    res.bounds = "one call, every outcome of the read; deserialize / validate opaque"
    hsz = z3.BitVec("serialized_header_size", 64)
    ex = P.mk_executor(crate, cap=2, loop_bound=4, inline=[],
                       havoc=[r"^(bincode::)?deserialize$", r"^blob::header::Header::new$|^Header::new$", r"^Header::validate$"],
                       extra_summaries=BYTES_SUMMARIES + [
                           (r"^(std::result::)?Result(::<.*>)?::map_err$", _h_map_err_run),
                           (r"into_bincode_if_unexpected_eof$", _h_classify),
                           (r"^(bincode::)?serialized_size$", lambda ex_, st_, fr, t, nf, a, d: [(S.ok(Sym(hsz, "u64"), d), None)])])
    st = State()
    st.pc.append(z3.ULT(hsz, BV64(1 << 20)))
    from .ob_blob import file_obj
    f, size0, synced0 = file_obj(crate, st, "f")
    fc = st.new_cell(f)

    def hook(ex_, st_, name, fargs, out_ty, dty):
        if "read_exact_at" in name or name.endswith("read_all"):
            okv = z3.Bool(fresh_name("read_ok"))
            r = Obj(out_ty)
            r.discr = Sym(z3.If(okv, BV64(0), BV64(1)), "isize")
            if "read_exact_at_allocate" in name:
                r.fields[("Ok", 0)] = mk_buf(fargs[1].t, fargs[2].t, "read")
            e = Obj("std::io::Error"); e.tag = ("raw_io", len(st_.events))
            r.fields[("Err", 0)] = e
            st_.events.append(("await", name, fargs, r))
            return [(S.poll_ready(dty, r), None)]
        return None
    ex.await_hook = hook
    path = Obj("&std::path::Path")
    outs = P.drive_async(ex, st, fn, [Ref(fc, (), False, "&io::unix::sync::File"), path])
    res.paths = len(outs)

    def per_path(o, isok, payload):
        reads = [e for e in o.events if e[0] == "await" and "read" in e[1]]
        if reads:
            r0 = reads[0]
            if "read_exact_at_allocate" in r0[1]:
                if not P.prove(ex, res, o, z3.And(r0[2][1].t == hsz, r0[2][2].t == BV64(0)), "the first read covers exactly the serialized header at offset 0"):
                    return False
        for e in reads:
            r_failed = ex.get_discr(o, e[3]).t == BV64(1)
            if not ex.feasible(o, r_failed):
                continue
            if not P.prove(ex, res, o, z3.Implies(r_failed, z3.Not(isok)), "a failed read fails the call"):
                return False
            errv = payload.fields.get(("Err", 0)) if isinstance(payload, Obj) else None
            chain = _error_chain(errv)
            raw = e[3].fields.get(("Err", 0))
            cls = [c for c in chain if getattr(c, "tag", None) and c.tag[0] == "classified"]
            def _src(c):
                v = S.deref_val(ex, o, c.tag[1]) if isinstance(c.tag[1], Ref) else c.tag[1]
                return getattr(v, "tag", None)
            ok_chain = any(_src(c) == raw.tag for c in cls)
            if not ok_chain:
                import os
                if os.environ.get("VERIF_DEBUG"):
                    print("chain", [(c.ty, getattr(c, "tag", None)) for c in chain], "raw", raw, id(raw))
                res.status = "violated"
                res.detail = ("a failed read of the blob header (%s) is returned without into_bincode_if_unexpected_eof: a file "
                              "cut inside its header is reported as an I/O error, not as a corrupted blob" % e[1].rsplit("::", 1)[-1])
                return False
            P.cover(ex, res, o, r_failed, "failed read classified")
        if not reads:
            res.status = "violated"; res.detail = "header produced without reading the file"; return False
        P.cover(ex, res, o, isok, "header read")
        return True
    from .ob_blob import _check_paths
    _check_paths(ex, res, outs, per_path)
    return P.finish(ex, res, ["failed read classified", "header read"])
