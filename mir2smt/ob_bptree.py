"""Obligations on src/blob/index/bptree/serializer.rs: the two loops that group nodes into upper-layer nodes must agree."""
import re
import z3
from .symex import State, Sym, Obj, VecV, Ref, FnItem, UNIT, Unsupported, fresh_name
from . import pearl as P
from . import summaries as S
from .pearl import BV64

INLINE_SER = [r"^Node::serialized_size_with_keys$", r"^HeaderStage::(collect_next_layer_nodes|shift_all_and_write|max_nonleaf_node_capacity)$"]


def _nodes(st, n_cap, klen):
    """&[(Vec<u8>, u64)] with n symbolic, every key of length klen; ghost id on each element"""
    elems = []
    for k in range(n_cap):
        tup = Obj("(std::vec::Vec<u8>, u64)")
        key = VecV("u8", 1, Sym(klen, "usize"), [Sym(z3.BitVecVal(k, 8), "u8")])   # first byte doubles as identity
        tup.fields[(None, 0)] = key
        tup.fields[(None, 1)] = Sym(z3.BitVec("node%d_off" % k, 64), "u64")
        tup.fields[("ghost", 0)] = Sym(BV64(k), "u64")
        elems.append(tup)
    n = z3.BitVec("nodes_len", 64)
    st.pc.append(z3.And(z3.UGE(n, BV64(2)), z3.ULE(n, BV64(n_cap))))
    return VecV("(std::vec::Vec<u8>, u64)", n_cap, Sym(n, "usize"), elems), n


def partition_agree(crate, N=10):
    """C09: for every node count n <= N, fan-out max and min = (max-1)/2+1: shift_all_and_write emits contiguous portions
    covering the layer in order, each of min..=max nodes (one smaller portion only when n < min); collect_next_layer_nodes
    describes exactly the same portions: same count, first key of each, offset = sum of the serialized sizes of the
    preceding portions, layer size = total."""
    res = P.ObResult("partition_agree[n<=%d]" % N)
    collect = crate.method("HeaderStage", "collect_next_layer_nodes")
    shift = crate.method("HeaderStage", "shift_all_and_write")
    res.functions = ["HeaderStage::collect_next_layer_nodes", "HeaderStage::shift_all_and_write", "Node::serialized_size_with_keys"]
    res.bounds = "2 <= nodes <= %d, 2 <= max fan-out <= %d, key length <= 1024, NodeMeta size = 8 (bincode of one u64)" % (N, N)
    ex = P.mk_executor(crate, cap=N, loop_bound=N + 2, inline=INLINE_SER, max_paths=4000)

    def call_hook(ex_, st_, cname, args, dty):
        if cname == "NodeMeta::serialized_size_default":
            return [(S.ok(Sym(BV64(8), "u64"), dty), None)]
        if cname == "HeaderStage::process_keys_portion":
            v = S.as_vec(ex_, st_, args[1])
            st_.events.append(("call", cname, [getattr(v, "view_start", None), v.len.t, args[2].t], None))
            return [(S.ok(S.UNIT, dty), None)]
        return None
    ex.call_hook = call_hook
    st = State()
    klen = z3.BitVec("key_len", 64)
    st.pc.append(z3.And(z3.UGE(klen, BV64(1)), z3.ULE(klen, BV64(1024))))
    nodes, n = _nodes(st, N, klen)
    mx = z3.BitVec("max_amount", 64)
    mn = z3.BitVec("min_amount", 64)
    st.pc.append(z3.And(z3.UGE(mx, BV64(2)), z3.ULE(mx, BV64(N)), mn == z3.UDiv(mx - 1, BV64(2)) + 1))
    nc = st.new_cell(nodes)
    nref = Ref(nc, (), False, "&[(Vec<u8>, u64)]")
    mm = Obj("(usize, usize)")
    mm.fields[(None, 0)] = Sym(mn, "usize")
    mm.fields[(None, 1)] = Sym(mx, "usize")
    # 1. the writer
    bufc = st.new_cell(Obj("Vec<u8>"))
    base = z3.BitVec("base_offset", 64)
    ex.push_frame(st, shift, [Ref(bufc, (), True, "&mut Vec<u8>"), nref, Sym(base, "u64"), mm], None, None)
    outs1 = ex.run(st)
    total_paths = 0
    for o1 in outs1:
        if o1.status == "infeasible":
            continue
        if o1.status != "returned":
            if not P.prove(ex, res, o1, z3.BoolVal(False), "no panic in shift_all_and_write (%s)" % o1.note):
                return P.finish(ex, res, [])
            continue
        portions = [e[2] for e in o1.events if e[0] == "call" and "process_keys_portion" in e[1]]
        # (a) contiguous cover, sizes within [min, max]
        cs = []
        pos = BV64(0)
        for (start, ln, shift_) in portions:
            if start is None:
                res.status = "violated"; res.detail = "portion is not a sub-slice of the layer"; return P.finish(ex, res, [])
            cs.append(start == pos)
            cs.append(shift_ == base)
            pos = pos + ln
        cs.append(pos == n)
        for i, (start, ln, _) in enumerate(portions):
            cs.append(z3.ULE(ln, mx))
            cs.append(z3.UGE(ln, BV64(1)))
            cs.append(z3.Or(z3.UGE(ln, mn), z3.And(z3.BoolVal(len(portions) == 1), z3.ULT(n, mn))))
        if not P.prove(ex, res, o1, z3.And(cs), "writer: portions cover the layer in order, each of min..=max nodes"):
            return P.finish(ex, res, [])
        # 2. the describer, from the same pre-state
        o1.status = "running"
        ex.push_frame(o1, collect, [nref, mm], None, None)
        outs2 = ex.run(o1)
        for o2 in outs2:
            if o2.status == "infeasible":
                continue
            total_paths += 1
            if o2.status != "returned":
                if not P.prove(ex, res, o2, z3.BoolVal(False), "no panic in collect_next_layer_nodes (%s)" % o2.note):
                    return P.finish(ex, res, [])
                continue
            r = o2.result
            if not P.prove(ex, res, o2, ex.get_discr(o2, r).t == BV64(0), "collect returns Ok"):
                return P.finish(ex, res, [])
            tup = r.fields[("Ok", 0)]
            newn = tup.fields[(None, 0)]
            lsize = tup.fields[(None, 1)]
            cl = []
            cl.append(newn.len.t == BV64(len(portions)))
            off = BV64(0)
            for i, (start, ln, _) in enumerate(portions):
                if i < newn.cap and newn.elems[i] is not None:
                    e = newn.elems[i]
                    eo = ex._get_field(o2, e, None, 1, "u64")
                    cl.append(z3.Implies(z3.ULT(BV64(i), newn.len.t), eo.t == off))
                    ek = ex._get_field(o2, e, None, 0, "Vec<u8>")
                    # first key of the portion = key of nodes[start]
                    gid = ek.elems[0] if isinstance(ek, VecV) and ek.elems and ek.elems[0] is not None else None
                    if gid is None:
                        cl.append(z3.BoolVal(False))
                    else:
                        cl.append(z3.Implies(z3.ULT(BV64(i), newn.len.t), z3.ZeroExt(56, gid.t) == start))
                else:
                    cl.append(z3.BoolVal(False))
                off = off + BV64(8) + klen * (ln - 1) + ln * 8
            cl.append(lsize.t == off)
            if not P.prove(ex, res, o2, z3.And(cl), "describer agrees with the writer: same portions, offsets = running serialized size"):
                return P.finish(ex, res, [])
            P.cover(ex, res, o2, n == mx, "node count equals the fan-out")
            P.cover(ex, res, o2, z3.And(z3.UGT(n, mx), z3.URem(n, mx) == BV64(0)), "node count is a multiple of the fan-out")
            P.cover(ex, res, o2, z3.And(z3.UGT(n, mx), z3.ULT(z3.URem(n, mx), mn), z3.URem(n, mx) != BV64(0)), "short remainder is rebalanced")
            P.cover(ex, res, o2, z3.BoolVal(len(portions) >= 3), "three or more portions")
    res.paths = total_paths
    return P.finish(ex, res, ["node count equals the fan-out", "node count is a multiple of the fan-out", "short remainder is rebalanced",
                              "three or more portions"])


def from_records_order(crate):
    """C03/C12/C11: BPTreeFileIndex::from_records: the index body is appended first (serialized with written = false),
    only after that succeeded is the written flag set and the header rewritten at offset 0, then the file is synced;
    any failure returns Err before the flag is written, so a half-written index is never marked complete."""
    from .ob_blob import idx, _check_paths, _ev_result_ok, INLINE_BLOB
    res = P.ObResult("from_records_order")
    fn = crate.method("BPTreeFileIndex", "from_records", "FileIndexTrait")
    res.functions = ["<BPTreeFileIndex as FileIndexTrait>::from_records (async block)"]
    res.bounds = "single call, every outcome of clean_file / serialize / create / append / rewrite / sync / read_root"
    ex = P.mk_executor(crate, cap=2, loop_bound=4, inline=[])
    st = State()
    path = Obj("&std::path::Path")
    headers = Ref(st.new_cell(Obj("InMemoryIndex<K>")), (), False, "&InMemoryIndex<K>")
    outs = P.drive_async(ex, st, fn, [path, Obj("io::unix::sync::IoDriver"), headers, Obj("Vec<u8>"), Sym(z3.Bool("recreate"), "bool"),
                                      Sym(z3.BitVec("blob_size", 64), "u64")])
    res.paths = len(outs)

    def per_path(o, isok, payload):
        evs = P.events_of(o)
        names = [e[1] for e in evs]
        i_ser = idx(names, "BPTreeFileIndex::serialize")
        i_create = idx(names, "IoDriver::create")
        i_app = idx(names, "write_append_all")
        i_flag = idx(names, "set_written")
        i_rew = idx(names, "File::write_all_at")
        i_sync = idx(names, "fsyncdata")
        order = [("serialize", i_ser), ("create", i_create), ("append body", i_app), ("set written", i_flag), ("rewrite header", i_rew), ("sync", i_sync)]
        present = [(n, i) for n, i in order if i is not None]
        if [i for _, i in present] != sorted(i for _, i in present):
            res.status = "violated"; res.detail = "steps out of order: %s" % [n for n, _ in sorted(present, key=lambda x: x[1])]; return False
        if i_flag is not None:
            if i_app is None:
                res.status = "violated"; res.detail = "written flag set without the body having been appended"; return False
            if not P.prove(ex, res, o, _ev_result_ok(ex, o, evs[i_app]), "flag set only after the body append succeeded"):
                return False
            flag_arg = evs[i_flag][2][1]
            if not (isinstance(flag_arg, Sym) and P.prove(ex, res, o, flag_arg.t, "set_written(true)")):
                return False
        if i_rew is not None:
            if i_flag is None:
                res.status = "violated"; res.detail = "header rewritten without setting the written flag"; return False
            off = evs[i_rew][2][1]
            if not (isinstance(off, Sym) and P.prove(ex, res, o, off.t == BV64(0), "header rewritten at offset 0")):
                return False
        needed = [i_ser, i_create, i_app, i_flag, i_rew, i_sync]
        if not P.prove(ex, res, o, z3.Implies(isok, z3.BoolVal(all(i is not None for i in needed))), "Ok => every step happened"):
            return False
        oks = []
        for i in (i_ser, i_create, i_app, i_rew, i_sync):
            if i is not None:
                oks.append(_ev_result_ok(ex, o, evs[i]))
        if not P.prove(ex, res, o, z3.Implies(isok, z3.And(oks) if oks else z3.BoolVal(True)), "Ok => every step succeeded"):
            return False
        P.cover(ex, res, o, isok, "index written, marked and synced")
        if i_app is not None and i_flag is None:
            P.cover(ex, res, o, z3.Not(_ev_result_ok(ex, o, evs[i_app])), "body append failed: flag never set")
        if i_sync is not None:
            P.cover(ex, res, o, z3.Not(_ev_result_ok(ex, o, evs[i_sync])), "sync failed")
        return True

    _check_paths(ex, res, outs, per_path)
    return P.finish(ex, res, ["index written, marked and synced", "body append failed: flag never set", "sync failed"])


def go_right_continues(crate, R=3):
    """C09: BPTreeFileIndex::go_right (all versions of a key to the right of the hit, continuing in the file when the 4 KiB
    buffer ends): the records decoded from the buffer are the consecutive ones after the hit, and the continuation in the
    file starts at the ABSOLUTE file offset of the first record the buffer scan did not decode (leaf offset + position in
    the buffer), so no version is skipped or read twice."""
    from .ob_blob import _check_paths, _ev_result_ok, idx
    from .ob_record import mk_buf, _buf, BYTES_SUMMARIES
    res = P.ObResult("go_right_continues[<=%d records in buffer]" % R)
    fn = crate.method("BPTreeFileIndex", "go_right")
    res.functions = ["BPTreeFileIndex::go_right (async body)"]
    RHS = 60
    res.bounds = "record header size %d (concrete), buffer <= %d records, arbitrary leaf / leaves offsets and records count (< 2^32)" % (RHS, R + 1)

    def h_u8_index(ex_, st_, frame, t, nf, args, dty):
        b = S.deref_val(ex_, st_, args[0])
        if not (isinstance(b, Obj) and ("g", "len") in b.fields):
            raise Unsupported("index into an unmodelled byte slice")
        rng = args[1]
        start, end = ex_._get_field(st_, rng, None, 0, "usize").t, ex_._get_field(st_, rng, None, 1, "usize").t
        ln, off = b.fields[("g", "len")].t, b.fields[("g", "off")].t
        sub = mk_buf(end - start, off + start)
        inb = z3.And(z3.ULE(start, end), z3.ULE(end, ln))
        return [(Ref(st_.new_cell(sub), (), False, "&[u8]"), inb), (("panic", "byte slice index out of range"), z3.Not(inb))]

    def h_deser(ex_, st_, frame, t, nf, args, dty):
        b = S.deref_val(ex_, st_, args[0])
        r = ex_.fresh(dty, st_, "hdr")
        st_.events.append(("decode", "bincode::deserialize", [b.fields[("g", "off")].t, b.fields[("g", "len")].t], r))
        return [(r, None)]

    def h_slice_len(ex_, st_, frame, t, nf, args, dty):
        b = S.deref_val(ex_, st_, args[0])
        if isinstance(b, Obj) and ("g", "len") in b.fields:
            return [(b.fields[("g", "len")], None)]
        return S.h_vec_len(ex_, st_, frame, t, nf, args, dty)
    def h_keycmp(ex_, st_, frame, t, nf, args, dty):
        # one comparison per decoded record: "is this record's key the key of the run?"  (eq / ne are the same question)
        i = len([e for e in st_.events if e[0] == "keycmp"])
        same = z3.Bool("same_key_%d" % i)
        st_.events.append(("keycmp", nf, same, None))
        return [(Sym(same if nf.endswith("::eq") else z3.Not(same), "bool"), None)]
    extra = [(r"^<\[u8\] as (std::ops::)?Index<(std::ops::)?Range<usize>>>::index$", h_u8_index), (r"^bincode::deserialize$", h_deser),
             (r"^<\[u8\] as PartialEq>::(eq|ne)$", h_keycmp),
             (r"^core::slice::(<impl[^>]*>::)?len$", h_slice_len)] + BYTES_SUMMARIES
    ex = P.mk_executor(crate, cap=R + 3, loop_bound=R + 3, inline=[], extra_summaries=extra)
    st = State()
    me = Obj("bptree::core::BPTreeFileIndex<K>")
    hdr = Obj("blob::index::header::IndexHeader")
    rc = z3.BitVec("records_count", 64)
    hdr.fields[(None, crate.field_index("IndexHeader", "record_header_size"))] = Sym(BV64(RHS), "usize")
    hdr.fields[(None, crate.field_index("IndexHeader", "records_count"))] = Sym(rc, "usize")
    me.fields[(None, crate.field_index("BPTreeFileIndex", "header"))] = hdr
    meta = Obj("bptree::meta::TreeMeta")
    leaves = z3.BitVec("leaves_offset", 64)
    meta.fields[(None, crate.field_index("TreeMeta", "leaves_offset"))] = Sym(leaves, "u64")
    me.fields[(None, crate.field_index("BPTreeFileIndex", "metadata"))] = meta
    mc = st.new_cell(me)
    leaf = z3.BitVec("leaf_offset", 64)
    blen = z3.BitVec("buf_len", 64)
    hit = z3.BitVec("hit_offset_in_buf", 64)
    st.pc.append(z3.And(z3.ULT(rc, BV64(1 << 20)), z3.ULT(leaves, BV64(1 << 32)), z3.UGE(leaf, leaves), z3.ULT(leaf, BV64(1 << 33)),
                        z3.ULE(blen, BV64(RHS * (R + 1))), z3.ULT(hit, BV64(1 << 20)), z3.URem(hit, BV64(RHS)) == BV64(0), z3.ULE(hit + BV64(RHS), blen),
                        # the leaf lies inside the leaf region and the buffer does not extend past the file's records more than a block
                        z3.ULE(leaf - leaves, BV64(RHS) * rc)))
    buf = mk_buf(blen, leaf)
    bc = st.new_cell(buf)
    headers = VecV(P.HEADER_TY, R + 3, Sym(BV64(1), "usize"), [P.mk_header(crate, "hit")] + [None] * (R + 2))
    hc = st.new_cell(headers)
    outs = P.drive_async(ex, st, fn, [Ref(mc, (), False, "&BPTreeFileIndex<K>"), Ref(hc, (), True, "&mut Vec<Header>"), Ref(bc, (), False, "&[u8]"),
                                      Sym(hit, "usize"), Sym(leaf, "u64")])
    res.paths = len(outs)

    def per_path(o, isok, payload):
        dec = [e for e in o.events if e[0] == "decode"]
        cont = [e for e in P.events_of(o) if "go_right_file" in e[1]]
        cs = []
        pos = hit + BV64(RHS)
        for e in dec:
            off, ln = e[2]
            cs.append(z3.And(off == leaf + pos, ln == BV64(RHS)))
            pos = pos + BV64(RHS)
        if cs and not P.prove(ex, res, o, z3.And(cs), "buffer records are decoded consecutively after the hit"):
            return False
        cmps = [e[2] for e in o.events if e[0] == "keycmp"]
        ok_dec = [e[3] for e in dec]
        if len(cmps) > len(dec):
            res.status = "violated"; res.detail = "more key comparisons than decoded records"; return False
        # the run continues exactly while the decoded record has the run's key
        for j in range(len(cmps) - 1):
            if not P.prove(ex, res, o, cmps[j], "the scan goes on only past records of the same key"):
                return False
        hv = o.mem[hc]
        if isok is not None and isinstance(hv, VecV):
            same_all = z3.And(cmps) if cmps else z3.BoolVal(True)
            npush = sum([z3.If(c, BV64(1), BV64(0)) for c in cmps], BV64(0)) if cmps else BV64(0)
            if not P.prove(ex, res, o, z3.Implies(isok, hv.len.t == BV64(1) + npush), "every decoded record of the run's key is collected, the first other key is not"):
                return False
            if cont and not P.prove(ex, res, o, same_all, "the file continuation is entered only if the whole buffer tail belongs to the run"):
                return False
            if not cont and cmps:
                if not P.prove(ex, res, o, z3.Implies(isok, z3.Not(cmps[-1])), "the scan ends inside the buffer only at a record of another key"):
                    return False
        if cont:
            arg = cont[0][2][2] if len(cont[0][2]) > 2 else None
            if not isinstance(arg, Sym):
                res.status = "inconclusive"; res.detail = "continuation offset not found"; return False
            if not P.prove(ex, res, o, arg.t == leaf + pos, "file continuation starts at leaf_offset + first undecoded position"):
                return False
            P.cover(ex, res, o, z3.And(leaf != leaves, z3.BoolVal(len(dec) >= 1)), "continuation from a leaf that is not the first one, after in-buffer records")
            P.cover(ex, res, o, leaf != leaves, "continuation from a later leaf")
        else:
            P.cover(ex, res, o, z3.BoolVal(len(dec) >= 1), "run ends inside the buffer")
        return True

    _check_paths(ex, res, outs, per_path)
    return P.finish(ex, res, ["continuation from a later leaf", "run ends inside the buffer"])


def _leaf_env(crate, M, RHS):
    """shared model for the in-leaf search obligations: a buffer of m <= M records of RHS bytes with abstract sorted keys"""
    from .ob_record import mk_buf, BYTES_SUMMARIES
    kid = [z3.BitVec("leaf_key_%d" % i, 16) for i in range(M)]
    m = z3.BitVec("records_in_buffer", 64)
    q = z3.BitVec("query_key", 16)
    base = z3.BitVec("buf_file_off", 64)

    def key_of_index(ix):
        v = kid[M - 1]
        for i in range(M - 2, -1, -1):
            v = z3.If(ix == BV64(i), kid[i], v)
        return v

    def keyobj(term):
        o = Obj("&[u8]")
        o.fields[("g", "kid")] = Sym(term, "u16")
        return o

    def h_u8_index(ex_, st_, frame, t, nf, args, dty):
        b = S.deref_val(ex_, st_, args[0])
        rng = args[1]
        start, end = ex_._get_field(st_, rng, None, 0, "usize").t, ex_._get_field(st_, rng, None, 1, "usize").t
        ln, off = b.fields[("g", "len")].t, b.fields[("g", "off")].t
        sub = mk_buf(end - start, off + start)
        inb = z3.And(z3.ULE(start, end), z3.ULE(end, ln))
        return [(Ref(st_.new_cell(sub), (), False, "&[u8]"), inb), (("panic", "byte slice index out of range"), z3.Not(inb))]

    def h_deser(ex_, st_, frame, t, nf, args, dty):
        b = S.deref_val(ex_, st_, args[0])
        off, ln = b.fields[("g", "off")].t, b.fields[("g", "len")].t
        ix = z3.UDiv(off - base, BV64(RHS))
        h = Obj(P.HEADER_TY)
        h.fields[("ghost", "kid")] = Sym(key_of_index(ix), "u16")
        h.fields[("ghost", "idx")] = Sym(ix, "usize")
        r = S.ok(h, dty)
        st_.events.append(("decode", "bincode::deserialize", [off, ln], r))
        # decoding is only meaningful for a whole record of the buffer
        aligned = z3.And(ln == BV64(RHS), z3.URem(off - base, BV64(RHS)) == BV64(0), z3.ULT(ix, m))
        return [(r, aligned), (("panic", "decode of a byte range that is not a whole record of the leaf"), z3.Not(aligned))]

    def h_key(ex_, st_, frame, t, nf, args, dty):
        h = S.deref_val(ex_, st_, args[0])
        return [(keyobj(h.fields[("ghost", "kid")].t), None)]

    def h_query(ex_, st_, frame, t, nf, args, dty):
        return [(keyobj(q), None)]

    def h_cmp(ex_, st_, frame, t, nf, args, dty):
        a, b = S.deref_val(ex_, st_, args[0]), S.deref_val(ex_, st_, args[1])
        x, y = a.fields[("g", "kid")].t, b.fields[("g", "kid")].t
        o = Obj("std::cmp::Ordering")
        o.discr = Sym(z3.If(z3.ULT(x, y), BV64(-1), z3.If(x == y, BV64(0), BV64(1))), "isize")
        return [(o, None)]

    def h_eq(ex_, st_, frame, t, nf, args, dty):
        a, b = S.deref_val(ex_, st_, args[0]), S.deref_val(ex_, st_, args[1])
        return [(Sym(a.fields[("g", "kid")].t == b.fields[("g", "kid")].t, "bool"), None)]

    def h_slice_len(ex_, st_, frame, t, nf, args, dty):
        b = S.deref_val(ex_, st_, args[0])
        if isinstance(b, Obj) and ("g", "len") in b.fields:
            return [(b.fields[("g", "len")], None)]
        return S.h_vec_len(ex_, st_, frame, t, nf, args, dty)
    extra = [(r"^<\[u8\] as (std::ops::)?Index<(std::ops::)?Range<usize>>>::index$", h_u8_index), (r"^bincode::deserialize$", h_deser),
             (r"^(record::record::)?Header::key$", h_key), (r"^<K as (\S*::)?Key<'_>>::as_ref_key$", h_query), (r"^<K as AsRef<\[u8\]>>::as_ref$", h_query),
             (r"^<\[u8\] as Into<<K as (\S*::)?Key<'_>>::Ref>>::into$", S.h_identity0), (r"^<<K as (\S*::)?Key(<'_>)?>::Ref as (std::cmp::)?Ord>::cmp$", h_cmp),
             (r"^<\[u8\] as PartialEq>::eq$", h_eq), (r"^core::slice::(<impl[^>]*>::)?len$", h_slice_len)] + BYTES_SUMMARIES
    sortedness = z3.And([z3.Implies(z3.ULT(BV64(i + 1), m), z3.ULE(kid[i], kid[i + 1])) for i in range(M - 1)])
    return kid, m, q, base, extra, sortedness, mk_buf


def leaf_search(crate, M=4):
    """C09/C01: in-leaf search of the on-disk index: read_header_buf finds a record with the key iff one is in the buffer
    (sorted by key); get_leftmost moves from any hit to the FIRST record of that key in the buffer (the newest version,
    since versions are stored newest first) — the on-disk counterpart of 'last element of the in-memory vector'."""
    RHS = 60
    res = P.ObResult("leaf_search[<=%d records]" % M)
    rhb = crate.method("BPTreeFileIndex", "read_header_buf")
    glm = crate.method("BPTreeFileIndex", "get_leftmost")
    res.functions = ["BPTreeFileIndex::read_header_buf", "BPTreeFileIndex::get_leftmost"]
    res.bounds = "leaf buffer of <= %d records of %d bytes, abstract totally ordered keys (16-bit), arbitrary query key" % (M, RHS)
    kid, m, q, base, extra, sortedness, mk_buf = _leaf_env(crate, M, RHS)
    # ---- read_header_buf
    ex = P.mk_executor(crate, cap=2, loop_bound=M + 3, inline=[], extra_summaries=extra)
    ex.named_consts = dict(getattr(ex, "named_consts", {}))
    st = State()
    st.pc.append(z3.And(z3.UGE(m, BV64(1)), z3.ULE(m, BV64(M)), sortedness, z3.ULT(base, BV64(1 << 40))))
    buf = mk_buf(m * BV64(RHS), base)
    bc = st.new_cell(buf)
    me = Ref(st.new_cell(Obj("bptree::core::BPTreeFileIndex<K>")), (), False, "&BPTreeFileIndex<K>")
    key = Ref(st.new_cell(Obj("K")), (), False, "&K")
    ex.push_frame(st, rhb, [me, Ref(bc, (), False, "&[u8]"), key, Sym(BV64(RHS), "usize")], None, None)
    outs = ex.run(st)
    res.paths = len(outs)
    present = z3.Or([z3.And(z3.ULT(BV64(i), m), kid[i] == q) for i in range(M)])
    for o in outs:
        if o.status in ("infeasible", "unwind"):
            continue
        if o.status != "returned":
            if not P.prove(ex, res, o, z3.BoolVal(False), "no panic in read_header_buf (%s)" % o.note):
                return P.finish(ex, res, [])
            continue
        r = o.result
        if not P.prove(ex, res, o, ex.get_discr(o, r).t == BV64(0), "read_header_buf returns Ok"):
            return P.finish(ex, res, [])
        opt = r.fields[("Ok", 0)]
        found = ex.get_discr(o, opt).t == BV64(1)
        if not P.prove(ex, res, o, found == present, "found iff a record with the key is in the buffer"):
            return P.finish(ex, res, [])
        if ("Some", 0) in opt.fields:
            tup = opt.fields[("Some", 0)]
            h, off = tup.fields[(None, 0)], tup.fields[(None, 1)]
            ix = z3.UDiv(off.t, BV64(RHS))
            if not P.prove(ex, res, o, z3.Implies(found, z3.And(z3.URem(off.t, BV64(RHS)) == BV64(0), z3.ULT(ix, m),
                                                              h.fields[("ghost", "kid")].t == q, h.fields[("ghost", "idx")].t == ix)),
                           "hit: returned offset addresses a record with the key, returned header is that record"):
                return P.finish(ex, res, [])
            P.cover(ex, res, o, z3.And(found, m == BV64(M)), "hit in a full buffer")
        P.cover(ex, res, o, z3.And(z3.Not(found), z3.UGT(q, kid[0]), m == BV64(M), z3.ULT(q, kid[M - 1])), "absent key between two present keys")
    # ---- get_leftmost
    ex2 = P.mk_executor(crate, cap=2, loop_bound=M + 3, inline=[], extra_summaries=extra)
    st2 = State()
    hit = z3.BitVec("hit_index", 64)
    st2.pc.append(z3.And(z3.UGE(m, BV64(1)), z3.ULE(m, BV64(M)), sortedness, z3.ULT(base, BV64(1 << 40)), z3.ULT(hit, m)))
    hk = kid[M - 1]
    for i in range(M - 2, -1, -1):
        hk = z3.If(hit == BV64(i), kid[i], hk)
    st2.pc.append(hk == q)
    buf2 = mk_buf(m * BV64(RHS), base)
    bc2 = st2.new_cell(buf2)
    prev = Obj(P.HEADER_TY)
    prev.fields[("ghost", "kid")] = Sym(q, "u16")
    prev.fields[("ghost", "idx")] = Sym(hit, "usize")
    me2 = Ref(st2.new_cell(Obj("bptree::core::BPTreeFileIndex<K>")), (), False, "&BPTreeFileIndex<K>")
    key2 = Ref(st2.new_cell(Obj("K")), (), False, "&K")
    ex2.push_frame(st2, glm, [me2, Ref(bc2, (), False, "&[u8]"), key2, Sym(hit * BV64(RHS), "usize"), prev, Sym(BV64(RHS), "usize")], None, None)
    first = BV64(M)
    for i in range(M - 1, -1, -1):
        first = z3.If(z3.And(z3.ULT(BV64(i), m), kid[i] == q), BV64(i), first)
    for o in ex2.run(st2):
        if o.status in ("infeasible", "unwind"):
            continue
        res.paths += 1
        if o.status != "returned":
            if not P.prove(ex2, res, o, z3.BoolVal(False), "no panic in get_leftmost (%s)" % o.note):
                break
            continue
        r = o.result
        if not P.prove(ex2, res, o, ex2.get_discr(o, r).t == BV64(0), "get_leftmost returns Ok"):
            break
        h = r.fields[("Ok", 0)]
        if not P.prove(ex2, res, o, z3.And(h.fields[("ghost", "idx")].t == first, h.fields[("ghost", "kid")].t == q),
                       "result = first (newest) record of the key in the buffer"):
            break
        P.cover(ex2, res, o, z3.And(z3.UGT(hit, first + 1)), "hit two or more records right of the first version")
        P.cover(ex2, res, o, first == BV64(0), "run starts at the beginning of the buffer")
        P.cover(ex2, res, o, z3.And(hit == first, z3.UGT(first, BV64(0))), "hit is already the first version")
    ex.queries += ex2.queries
    ex.solver_s += ex2.solver_s
    ex.unwind_hits += ex2.unwind_hits
    for k in ("calls_summarised", "calls_havoc", "calls_inlined"):
        ex.stats[k].update(ex2.stats[k])
    return P.finish(ex, res, ["hit in a full buffer", "absent key between two present keys", "hit two or more records right of the first version",
                              "run starts at the beginning of the buffer", "hit is already the first version"])


def validate_rejects_short_index(crate, wide=False):
    """C06/C03: BPTreeFileIndex::validate accepts an index file only if the file holds everything its header and tree
    meta describe: size >= leaves_offset + records_count * record_header_size (the record headers are the last section
    of the file).  An index whose tail is missing (power loss after the header rewrite, before the sync) is rejected and
    regenerated from the blob instead of silently hiding records.  Also: Ok => written bit set and blob_size matches."""
    from .ob_blob import file_obj
    res = P.ObResult("validate_rejects_short_index")
    fn = crate.method("BPTreeFileIndex", "validate", "FileIndexTrait")
    res.functions = ["<BPTreeFileIndex<K> as FileIndexTrait<K>>::validate", "IndexHeader::{is_written,version,key_size,blob_size,magic_byte}", "File::size"]
    res.bounds = "arbitrary header / tree meta / file size; records_count < 2^40, record_header_size < 2^20, leaves_offset < 2^60 (no wrap in the expected-length arithmetic)"
    ex = P.mk_executor(crate, cap=2, loop_bound=3, inline=[r"^IndexHeader::(is_written|version|key_size|blob_size|magic_byte)$", r"^File::size$"])
    MUL = z3.Function("product_u64_u64", z3.BitVecSort(64), z3.BitVecSort(64), z3.BitVecSort(128))
    if wide:
        # the double-width product is an uninterpreted function here: the claims follow from how the code USES the
        # product (high half zero, low half added and compared), not from what multiplication computes — this keeps
        # every query free of 128-bit multipliers (they made the obligation time out on a loaded machine, probe P28)
        def h_checked_mul_uf(ex_, st_, frame, t, nf, args, dty):
            a, b = args[0], args[1]
            w = MUL(a.t, b.t)
            ov = z3.Extract(127, 64, w) != z3.BitVecVal(0, 64)
            return [(S.none(dty), ov), (S.some(Sym(z3.Extract(63, 0, w), a.ty), dty), z3.Not(ov))]
        ex.summaries.insert(0, (re.compile(r"^core::num::(<impl \w+>::)?checked_mul$"), h_checked_mul_uf))
    st = State()
    idx = Obj("blob::index::bptree::core::BPTreeFileIndex<K>")
    f, size, synced = file_obj(crate, st, "indexfile")
    idx.fields[(None, crate.field_index("BPTreeFileIndex", "file"))] = f
    h = Obj("blob::index::header::IndexHeader")
    hv = {}
    for name, ty in (("magic_byte", "u64"), ("records_count", "usize"), ("record_header_size", "usize"), ("meta_size", "usize"),
                     ("version", "u8"), ("key_size", "u16"), ("blob_size", "u64")):
        hv[name] = z3.BitVec("ih_" + name, S.INT_W[ty])
        h.fields[(None, crate.field_index("IndexHeader", name))] = Sym(hv[name], ty)
    idx.fields[(None, crate.field_index("BPTreeFileIndex", "header"))] = h
    tm = Obj("blob::index::bptree::meta::TreeMeta")
    leaves = z3.BitVec("tm_leaves_offset", 64)
    tm.fields[(None, crate.field_index("TreeMeta", "leaves_offset"))] = Sym(leaves, "u64")
    tm.fields[(None, crate.field_index("TreeMeta", "tree_offset"))] = Sym(z3.BitVec("tm_tree_offset", 64), "u64")
    idx.fields[(None, crate.field_index("BPTreeFileIndex", "metadata"))] = tm
    if not wide:
        st.pc.append(z3.And(z3.ULT(hv["records_count"], BV64(1 << 40)), z3.ULT(hv["record_header_size"], BV64(1 << 20)), z3.ULT(leaves, BV64(1 << 60))))
    blob_size = z3.BitVec("blob_size_arg", 64)
    ic = st.new_cell(idx)
    ex.push_frame(st, fn, [Ref(ic, (), False, "&BPTreeFileIndex<K>"), Sym(blob_size, "u64")], None, None)
    outs = ex.run(st)
    res.paths = len(outs)
    need = leaves + hv["records_count"] * hv["record_header_size"]
    if wide:
        # no bound on the header values: the expected length is computed in 128(+1) bits, product uninterpreted (a corrupted header may hold anything)
        W = 129
        # the same double-width product term the checked_mul summary builds (operands in the code's order), one more bit for the sum
        prod = MUL(hv["records_count"], hv["record_header_size"])
        need_w = z3.ZeroExt(W - 64, leaves) + z3.ZeroExt(1, prod)
    for o in outs:
        if o.status in ("infeasible", "unwind"):
            continue
        if o.status != "returned":
            if not P.prove(ex, res, o, z3.BoolVal(False), "no panic in validate (%s)" % o.note):
                break
            continue
        isok = ex.get_discr(o, o.result).t == BV64(0)
        if not P.prove(ex, res, o, z3.Implies(isok, z3.And(z3.Extract(0, 0, hv["version"]) == 1, hv["blob_size"] == blob_size)),
                       "Ok => written bit set and the header describes exactly this blob length"):
            break
        if wide:
            if not P.prove(ex, res, o, z3.Implies(isok, z3.UGE(z3.ZeroExt(W - 64, size), need_w)),
                           "Ok => the file is at least as long as the header describes, computed without wrap-around (absurd header values are rejected)"):
                break
            P.cover(ex, res, o, z3.And(z3.Not(isok), z3.UGT(need_w, z3.ZeroExt(W - 64, z3.BitVecVal((1 << 64) - 1, 64))), z3.Extract(0, 0, hv["version"]) == 1, hv["blob_size"] == blob_size),
                    "header whose described length does not fit in 64 bits is rejected")
            continue
        if not P.prove(ex, res, o, z3.Implies(isok, z3.UGE(size, need)),
                       "Ok => the file is at least as long as header + meta + tree + records_count record headers"):
            break
        P.cover(ex, res, o, isok, "complete index accepted")
        P.cover(ex, res, o, z3.And(z3.Not(isok), z3.Extract(0, 0, hv["version"]) == 1, hv["blob_size"] == blob_size, z3.ULT(size, need),
                                   z3.UGT(size, leaves)), "short file with a valid header rejected")
    return P.finish(ex, res, ["header whose described length does not fit in 64 bits is rejected"] if wide else ["complete index accepted"])


def validate_rejects_absurd_index(crate):
    return validate_rejects_short_index(crate, wide=True)
