#!/usr/bin/env python3
"""Regenerates MANIFEST.json from props.py (single source of truth for what is claimed)."""
import json, os, sys
sys.path.insert(0, os.path.dirname(os.path.abspath(__file__)))
import props, manifest_text as T

checks = []
for pid in sorted(props.PROPS):
    spec = props.PROPS[pid]
    checks.append({
        "property_id": pid,
        "quick_cmd": "./check %s --tier quick" % pid,
        "thorough_cmd": "./check %s --tier thorough" % pid,
        "evidence_file": "/verif/evidence/%s.json" % pid,
        "replay_cmd_template": "cat {path}",
        "engine": "+".join(e for e, k in (("kani", "kani"), ("mir2smt", "mir")) if spec.get(k)),
        "level_claimed": {"category": "model_checking", "text": T.LEVEL_TEXT.get(pid, T.LEVEL_DEFAULT), "design_ref": "DESIGN.md §3 " + pid},
        "level_note": T.LEVEL_NOTE.get(pid, T.NOTE_DEFAULT),
        "technique": T.TECHNIQUE.get(pid, T.TECH_DEFAULT),
    })
na = [{"property_id": p, "reason": r} for p, r in sorted(T.NOT_APPLICABLE.items()) if p not in props.PROPS]
m = {
    "version": 1,
    "setup_cmd": "./setup.sh",
    "hooks": {"guard": "cfg(kani)", "enable": "no source hooks are committed to /repo: checks copy /repo's working tree to /var/tmp/pearl-verif/<id>.<pid>/ and apply a check-time overlay there (vlib/overlay.py: cfg(kani) twins for 5 runtime-boundary fns, InMemoryIndex alias, log macros, #[path] child modules); cfg(kani) is only ever set by cargo-kani",
              "baseline_off_cmd": "cd /repo && cargo test --workspace --no-fail-fast --offline", "source_commits": T.SOURCE_COMMITS, "add_only": True},
    "engines": [
        {"name": "kani", "path": "/verif/vlib/kani_engine.py", "serves_properties": [c["property_id"] for c in checks if "kani" in c["engine"]],
         "kind_free_text": "Kani 0.68 / CBMC 6.11 / CaDiCaL bounded model checking of the compiled crate; harnesses in /verif/kani/harness injected as cfg(kani) child modules of the files under test"},
        {"name": "mir2smt", "path": "/verif/mir2smt", "serves_properties": [c["property_id"] for c in checks if "mir2smt" in c["engine"]],
         "kind_free_text": "own symbolic executor over rustc's MIR dump of the crate (regenerated per run) producing z3 bit-vector queries; containers as bounded theories; deciding queries cross-checked with z3 4.8.12 and cvc5 1.0"},
    ],
    "checks": checks,
    "not_applicable": na,
    "notes": T.NOTES,
}
json.dump(m, open(os.path.join(os.path.dirname(os.path.abspath(__file__)), "MANIFEST.json"), "w"), indent=1)
print("MANIFEST.json: %d checks, %d not_applicable" % (len(checks), len(na)))
