"""Shared plumbing: scratch copies of /repo's working tree, process-group execution with
timeouts and memory caps, evidence writing, known-findings handling."""
import json, os, shutil, signal, subprocess, sys, time, resource, hashlib

VERIF = os.path.dirname(os.path.dirname(os.path.abspath(__file__)))
REPO = os.environ.get("VERIF_REPO", "/repo")
SCRATCH_ROOT = os.environ.get("VERIF_SCRATCH", "/var/tmp/pearl-verif")
CACHE = os.environ.get("VERIF_CACHE", os.path.join(SCRATCH_ROOT, "cache"))
# dev only (tools/seed_eval.py): where evidence/ and replays/ are written; registered commands never set it
OUT = os.environ.get("VERIF_OUT")

ENV = dict(os.environ)
ENV.update({"CARGO_NET_OFFLINE": "true", "CARGO_TERM_COLOR": "never", "RUST_BACKTRACE": "0"})


def log(*a):
    print(*a, flush=True)


def seed():
    try:
        return int(os.environ.get("VERIF_SEED", "0"))
    except ValueError:
        return 0


def scratch_dir(tag):
    d = os.path.join(SCRATCH_ROOT, "%s.%d" % (tag, os.getpid()))
    if os.path.exists(d):
        shutil.rmtree(d, ignore_errors=True)
    os.makedirs(d)
    return d


def copy_repo(dst):
    """rsync /repo's *working tree* (not HEAD) into dst, without build output and VCS data."""
    os.makedirs(dst, exist_ok=True)
    subprocess.check_call(["rsync", "-a", "--delete", "--exclude", "/target", "--exclude", "/.git",
                           REPO + "/", dst + "/"])
    return dst


def tree_hash(root=None):
    """sha256 over the sources that matter (src/, Cargo.toml, Cargo.lock, build.rs)."""
    root = root or REPO
    h = hashlib.sha256()
    paths = []
    for base, dirs, files in os.walk(os.path.join(root, "src")):
        dirs.sort()
        for f in sorted(files):
            paths.append(os.path.join(base, f))
    for f in ("Cargo.toml", "Cargo.lock", "build.rs"):
        p = os.path.join(root, f)
        if os.path.exists(p):
            paths.append(p)
    for p in paths:
        h.update(os.path.relpath(p, root).encode())
        with open(p, "rb") as fh:
            h.update(fh.read())
    return h.hexdigest()[:16]


def run(cmd, cwd=None, timeout=None, mem_gb=None, env=None, logfile=None, stdin=None):
    """Run cmd in its own process group; kill the whole group on timeout.
    Returns (rc, output, wall_s); rc = -9 on timeout."""
    e = dict(ENV)
    if env:
        e.update(env)

    def pre():
        os.setsid()
        if mem_gb:
            lim = int(mem_gb * (1 << 30))
            resource.setrlimit(resource.RLIMIT_AS, (lim, lim))

    t0 = time.time()
    out_f = open(logfile, "wb") if logfile else subprocess.PIPE
    p = subprocess.Popen(cmd, cwd=cwd, env=e, stdout=out_f, stderr=subprocess.STDOUT,
                         stdin=subprocess.PIPE if stdin is not None else subprocess.DEVNULL,
                         preexec_fn=pre)
    try:
        out, _ = p.communicate(input=stdin, timeout=timeout)
        rc = p.returncode
    except subprocess.TimeoutExpired:
        try:
            os.killpg(p.pid, signal.SIGKILL)
        except ProcessLookupError:
            pass
        out, _ = p.communicate()
        rc = -9
    finally:
        try:
            os.killpg(p.pid, signal.SIGKILL)
        except (ProcessLookupError, PermissionError):
            pass
    wall = time.time() - t0
    if logfile:
        out_f.close()
        with open(logfile, "rb") as fh:
            out = fh.read()
    return rc, (out or b"").decode("utf-8", "replace"), wall


def write_evidence(pid, tier, level, coverage, assumptions, wall_s, violations, extra=None):
    out = OUT or VERIF
    os.makedirs(os.path.join(out, "evidence"), exist_ok=True)
    ev = {
        "property_id": pid,
        "tier": tier,
        "seed": seed(),
        "level": level,
        "coverage": coverage,
        "assumptions": assumptions,
        "wall_s": round(wall_s, 2),
        "violations": violations,
    }
    if extra:
        ev.update(extra)
    path = os.path.join(out, "evidence", pid + ".json")
    tmp = path + ".tmp"
    with open(tmp, "w") as fh:
        json.dump(ev, fh, indent=1, sort_keys=False)
    os.replace(tmp, path)
    return path


def load_known_findings():
    """KNOWN_FINDINGS.txt lines:
         finding: property=<id> key=<key> <text>
         fixed: property=<id> <commit> <text>
       Only 'finding:' lines suppress anything."""
    res = {}
    p = os.path.join(VERIF, "KNOWN_FINDINGS.txt")
    if not os.path.exists(p):
        return res
    for line in open(p):
        line = line.strip()
        if not line.startswith("finding:"):
            continue
        parts = line[len("finding:"):].split()
        kv = dict(x.split("=", 1) for x in parts[:2] if "=" in x)
        if "property" in kv and "key" in kv:
            res.setdefault(kv["property"], {})[kv["key"]] = " ".join(parts[2:])
    return res
