"""Engine M driver: MIR dump of a scratch copy of /repo's working tree, obligation execution in a python3-vt
subprocess (z3 5.1 python API), cross-check of the deciding queries with /usr/bin/z3 4.8.12 and cvc5 1.0."""
import os, sys, json, time, subprocess, re, shutil
from . import common

MIR_FLAGS = ["-Zunpretty=mir", "-C", "debug-assertions=off", "-C", "overflow-checks=on"]


def dump_mir(scratch):
    """scratch/msrc = copy of the working tree; returns (mir_path, src_root) or raises RuntimeError."""
    src = os.path.join(scratch, "msrc")
    common.copy_repo(src)
    tgt = os.path.join(common.CACHE, "mir-target")
    os.makedirs(tgt, exist_ok=True)
    out = os.path.join(scratch, "pearl.mir")
    env = {"CARGO_TARGET_DIR": tgt}
    cmd = ["cargo", "+nightly", "rustc", "--offline", "--lib", "--"] + MIR_FLAGS
    # touch lib.rs so that cargo re-runs rustc even if the fingerprint is unchanged
    os.utime(os.path.join(src, "src", "lib.rs"), None)
    t0 = time.time()
    with open(out, "wb") as fh:
        e = dict(common.ENV)
        e.update(env)
        p = subprocess.run(cmd, cwd=src, env=e, stdout=fh, stderr=subprocess.PIPE, timeout=900)
    if p.returncode != 0 or os.path.getsize(out) < 1000:
        raise RuntimeError("MIR dump failed: " + p.stderr.decode("utf-8", "replace")[-2000:])
    return out, src, time.time() - t0


def run_obligations(scratch, mir_path, src_root, obligations, timeout):
    """Runs the obligations in up to VERIF_M_JOBS runner processes (each parses the MIR dump itself); results are
    returned in the order of `obligations`."""
    jobs = max(1, min(int(os.environ.get("VERIF_M_JOBS", "4")), len(obligations) // 2 or 1))
    if jobs == 1:
        return _run_obligations_one(scratch, mir_path, src_root, obligations, timeout, "")
    groups = [obligations[i::jobs] for i in range(jobs)]
    import threading
    outs = [None] * jobs

    def work(i):
        outs[i] = _run_obligations_one(scratch, mir_path, src_root, groups[i], timeout, "_%d" % i)
    ths = [threading.Thread(target=work, args=(i,)) for i in range(jobs)]
    t0 = time.time()
    for t in ths:
        t.start()
    for t in ths:
        t.join()
    by_name = {}
    for o in outs:
        for r in (o[0] if o else []):
            by_name[r["name"]] = r
    res = [by_name.get(o["name"], {"name": o["name"], "status": "inconclusive", "detail": "runner produced no result"}) for o in obligations]
    return res, time.time() - t0


def _run_obligations_one(scratch, mir_path, src_root, obligations, timeout, tag):
    """obligations: list of dicts {name, module, func, kwargs}. Runs mir2smt/runner.py under python3-vt.
    Returns list of result dicts."""
    spec = os.path.join(scratch, "ob_spec%s.json" % tag)
    outp = os.path.join(scratch, "ob_out%s.json" % tag)
    with open(spec, "w") as fh:
        json.dump({"mir": mir_path, "src_root": src_root, "obligations": obligations, "out": outp,
                   "smt_dir": os.path.join(scratch, "smt")}, fh)
    rc, out, wall = common.run(["python3-vt", os.path.join(common.VERIF, "mir2smt", "runner.py"), spec],
                               cwd=common.VERIF, timeout=timeout, mem_gb=24,
                               logfile=os.path.join(scratch, "mir_runner%s.log" % tag))
    if not os.path.exists(outp):
        return [{"name": o["name"], "status": "inconclusive", "detail": "runner failed rc=%s: %s" % (rc, out[-600:])}
                for o in obligations], wall
    res = json.load(open(outp))
    done = {r["name"] for r in res}
    for o in obligations:
        if o["name"] not in done:
            res.append({"name": o["name"], "status": "inconclusive", "detail": "runner stopped (rc=%s) before this obligation" % rc})
    return res, wall


def _wrap_queries(files):
    parts = []
    for f in files:
        txt = open(f).read()
        txt = re.sub(r"\(check-sat\)\s*", "", txt)
        txt = re.sub(r"\(set-info [^\n]*\)\n", "", txt)
        parts.append("(push 1)\n" + txt + "\n(check-sat)\n(pop 1)\n")
    return "(set-logic ALL)\n" + "".join(parts)


def cross_check(scratch, results, budget_s=240):
    """Re-ask every deciding query (written by the runner as smt2 files) to z3 4.8.12 and cvc5 (4 obligations at a time).
    Marks results 'inconclusive' on disagreement or solver error; a solver that does not finish inside its share of the
    budget is recorded as such (the in-process z3 5.1 verdict stands, the evidence says what was re-checked)."""
    import threading
    from concurrent.futures import ThreadPoolExecutor
    t_end = time.time() + budget_s
    summary = {"z3_4_8_12": 0, "cvc5": 0, "skipped": 0, "disagree": 0}
    lock = threading.Lock()
    per_solver_cap = max(20, min(90, budget_s // 2))

    def one(r):
        files = r.get("smt_files") or []
        if not files:
            return
        expected = r.get("smt_expected") or []
        batch = os.path.join(scratch, "xc_%s.smt2" % re.sub(r"\W", "_", r["name"]))
        with open(batch, "w") as fh:
            fh.write(_wrap_queries(files))
        r["cross"] = {}
        for solver, cmd in (("z3_4_8_12", ["/usr/bin/z3", "-smt2", batch]),
                            ("cvc5", ["cvc5", "--lang", "smt2", "--incremental", batch])):
            left = t_end - time.time()
            if left < 5:
                with lock:
                    summary["skipped"] += len(files)
                r["cross"][solver] = "skipped (budget)"
                continue
            rc, out, wall = common.run(cmd, timeout=min(left, per_solver_cap), mem_gb=12)
            answers = [l.strip() for l in out.splitlines() if l.strip() in ("sat", "unsat", "unknown")]
            if rc == -9:
                r["cross"][solver] = "timeout after %d answers" % len(answers)
                with lock:
                    summary["skipped"] += len(files) - len(answers)
            elif "(error" in out:
                r["cross"][solver] = "error: " + out[:200]
                if r["status"] == "holds":
                    r["status"] = "inconclusive"
                    r["detail"] = "%s reported an error on the exported queries" % solver
                continue
            bad = [i for i, a in enumerate(answers) if i < len(expected) and a != "unknown" and a != expected[i]]
            with lock:
                summary[solver] += len(answers)
            if bad:
                with lock:
                    summary["disagree"] += len(bad)
                r["cross"][solver] = "DISAGREE on queries %s" % bad[:5]
                r["status"] = "inconclusive"
                r["detail"] = "solver disagreement (%s) on %d queries" % (solver, len(bad))
            elif solver not in r["cross"]:
                r["cross"][solver] = "agree on %d/%d" % (len(answers), len(files))
    with ThreadPoolExecutor(max_workers=4) as pool:
        list(pool.map(one, results))
    return summary
