"""Engine K: run Kani harnesses (injected by the overlay) over a scratch copy of /repo's working tree."""
import os, re, shutil, time, json
from . import common, overlay

KANI_MEM_GB = float(os.environ.get("VERIF_KANI_MEM_GB", "14"))


class Harness:
    def __init__(self, name, desc, functions, bounds, covers=0, tier="quick", timeout=600, stubs=None,
                 finding_key=None):
        self.name = name            # function name of the #[kani::proof]
        self.desc = desc
        self.functions = functions  # real functions executed symbolically
        self.bounds = bounds        # stated bounds (string)
        self.covers = covers        # number of kani::cover! that must be SATISFIED (vacuity guard)
        self.tier = tier            # "quick" or "thorough"
        self.timeout = timeout
        self.stubs = stubs or []
        self.finding_key = finding_key  # if the harness is expected to expose a KNOWN finding


class Result:
    def __init__(self, h):
        self.h = h
        self.status = "missing"   # success | failed | timeout | error | missing | vacuous
        self.checks = 0
        self.failed_checks = []
        self.covers_sat = 0
        self.covers_total = 0
        self.time_s = 0.0
        self.raw = ""


def prepare_scratch(tag, harness_files=None):
    d = common.scratch_dir(tag)
    src = os.path.join(d, "src")
    common.copy_repo(src)
    done = overlay.apply(src, harness_files)
    return d, src, done


def _parse(out, harnesses):
    """Parse `cargo kani -j N --output-format terse` output."""
    by_name = {h.name: Result(h) for h in harnesses}
    thread_h = {}
    cur = None
    # sequential mode has no "Thread N:" prefix
    blocks = re.split(r"(?m)^(?=(?:Thread \d+: )?Checking harness )", out)
    for b in blocks:
        m = re.match(r"(?:Thread (\d+): )?Checking harness (\S+?)\.\.\.", b)
        if not m:
            continue
        full = m.group(2)
        short = full.split("::")[-1]
        if short in by_name:
            thread_h[m.group(1)] = short
    # result blocks: in -j mode "Thread N: \nVERIFICATION RESULT:...."; sequential: follows the Checking line
    for m in re.finditer(r"(?ms)^(?:Thread (\d+): )?(?:Checking harness (\S+?)\.\.\.)?(.*?)(VERIFICATION:- (SUCCESSFUL|FAILED)|CBMC timed out|TIMEOUT)", out):
        pass
    # Simpler, robust approach: walk lines, tracking current harness per thread
    cur_by_thread = {}
    cur_thread = None
    buf = {}
    for line in out.splitlines():
        m = re.match(r"(?:Thread (\d+): )?Checking harness (\S+?)\.\.\.", line)
        if m:
            t = m.group(1) or "0"
            cur_by_thread[t] = m.group(2).split("::")[-1]
            cur_thread = t
            buf.setdefault(cur_by_thread[t], [])
            continue
        m = re.match(r"Thread (\d+): ?(.*)$", line)
        if m:
            cur_thread = m.group(1)
            line = m.group(2)
        if cur_thread is not None and cur_thread in cur_by_thread:
            buf.setdefault(cur_by_thread[cur_thread], []).append(line)
    for name, lines in buf.items():
        if name not in by_name:
            continue
        r = by_name[name]
        txt = "\n".join(lines)
        r.raw = txt[-6000:]
        m = re.search(r"\*\* (\d+) of (\d+) failed", txt)
        if m:
            r.checks = int(m.group(2))
        m = re.search(r"\*\* (\d+) of (\d+) cover properties satisfied", txt)
        if m:
            r.covers_sat, r.covers_total = int(m.group(1)), int(m.group(2))
        m = re.search(r"Verification Time: ([0-9.]+)s", txt)
        if m:
            r.time_s = float(m.group(1))
        r.failed_checks = re.findall(r"(?m)^Failed Checks: (.*)$", txt)
        if "VERIFICATION:- SUCCESSFUL" in txt:
            r.status = "success"
        elif "VERIFICATION:- FAILED" in txt:
            if re.search(r"timed out|Status: ERROR|out of memory|std::bad_alloc|TIMEOUT", txt, re.I):
                r.status = "timeout"
            elif any("unwinding assertion" in f for f in r.failed_checks) and \
                    all("unwinding assertion" in f for f in r.failed_checks):
                r.status = "unwind"
            elif r.failed_checks or re.search(r"\*\* [1-9]\d* of \d+ failed", txt):
                r.status = "failed"
            else:
                # FAILED without a single failed check: CBMC died (out of memory / killed): never a violation
                r.status = "error"
        elif re.search(r"timed out|TIMEOUT", txt, re.I):
            r.status = "timeout"
        else:
            r.status = "error"
    return by_name


def run_harnesses(scratch, src, harnesses, jobs=None, global_timeout=None, logname="kani.log", extra_args=None):
    """One cargo-kani invocation for all harnesses. Returns ({name: Result}, raw_output, wall)."""
    if not harnesses:
        return {}, "", 0.0
    jobs = jobs or min(len(harnesses), int(os.environ.get("VERIF_JOBS", "6")))
    tmax = max(h.timeout for h in harnesses)
    cmd = ["cargo", "kani", "--lib", "-Z", "stubbing", "-Z", "unstable-options",
           "--harness-timeout", "%ds" % tmax, "--output-format", "terse",
           "--target-dir", os.path.join(scratch, "target"), "--exact"]
    if jobs > 1:
        cmd += ["-j", str(jobs)]
    for h in harnesses:
        cmd += ["--harness", h.fullname if hasattr(h, "fullname") else h.name]
    if extra_args:
        cmd += extra_args
    gt = global_timeout or (tmax * ((len(harnesses) + jobs - 1) // jobs) + 600)
    rc, out, wall = common.run(cmd, cwd=src, timeout=gt, mem_gb=KANI_MEM_GB,
                               logfile=os.path.join(scratch, logname))
    res = _parse(out, harnesses)
    if rc == -9:
        for r in res.values():
            if r.status in ("missing", "error"):
                r.status = "timeout"
    # second pass for harnesses that timed out: CBMC in all-properties mode reports nothing before it has decided every
    # property, so a counterexample found in milliseconds can hide behind one slow property.  Re-run each such harness
    # with `--stop-on-fail` (old output format: Kani's parser does not understand that mode) under a short cap; a violated
    # assertion (not a kani::cover!, which CBMC also reports as "failed" when it is satisfiable) is a real failure.
    for name, r in res.items():
        if r.status != "timeout" or os.environ.get("VERIF_NO_SECOND_PASS"):
            continue
        h = r.h
        cmd2 = ["cargo", "kani", "--lib", "-Z", "stubbing", "-Z", "unstable-options", "--harness-timeout", "240s", "--output-format", "old",
                "--target-dir", os.path.join(scratch, "target"), "--exact", "--harness", h.fullname if hasattr(h, "fullname") else h.name,
                "--no-assertion-reach-checks", "--cbmc-args", "--stop-on-fail"]
        rc2, out2, wall2 = common.run(cmd2, cwd=src, timeout=400, mem_gb=KANI_MEM_GB, logfile=os.path.join(scratch, "kani2_%s.log" % name))
        wall += wall2
        L = out2.splitlines()
        ix = [k for k, l in enumerate(L) if l.startswith("Violated property")]
        if "VERIFICATION FAILED" in out2 and ix:
            loc = L[ix[0] + 1].strip() if ix[0] + 1 < len(L) else ""
            m = re.search(r"file (\S+) .*line (\d+)", loc)
            is_cover = False
            if m:
                try:
                    src_line = open(m.group(1)).read().split("\n")[int(m.group(2)) - 1]
                    is_cover = "cover!" in src_line
                except Exception:
                    is_cover = False
            if m and not is_cover:
                r.status = "failed"
                r.failed_checks = ["(second pass, --stop-on-fail) violated property at %s:%s" % (m.group(1), m.group(2))]
                r.raw = (r.raw + "\n--- second pass ---\n" + "\n".join(L[ix[0]:ix[0] + 6]))[-6000:]
    compile_failed = ("could not compile" in out) or ("Failed to execute cargo" in out) \
        or ("Failed to compile" in out) or ("error: internal compiler error" in out)
    return res, out, wall, compile_failed


def list_harness_fullnames(src_root):
    """Map short harness name -> fully qualified name, by scanning harness files + injection table."""
    full = {}
    for rel, hf in overlay.INJECT.items():
        hp = os.path.join(overlay.HARNESS_DIR, hf)
        if not os.path.exists(hp):
            continue
        mod = rel[:-3].replace("/", "::")
        if mod.endswith("::mod"):
            mod = mod[:-5]
        txt = open(hp).read()
        for m in re.finditer(r"#\[kani::proof\](?:\s*#\[[^\]]*\])*\s*(?:pub(?:\([a-z]+\))?\s+)?fn\s+(\w+)", txt):
            full[m.group(1)] = "%s::kani_h::%s" % (mod, m.group(1))
    return full
