"""Check-time overlay for Engine K.  Applied to a *scratch copy* of /repo's working tree, never to /repo.

 E1  runtime boundary twins in src/io/unix/sync.rs  (cfg(not(kani)) on the 5 runtime functions, twins in kani_env)
 E2  InMemoryIndex alias -> sorted-Vec map under cfg(kani)
 E4  logging macros expand to nothing under cfg(kani)
 INJ child-module injection: `#[cfg(kani)] #[path=...] mod kani_h;` appended to instrumented files

Every site is located by pattern; a missing site raises OverlayError (=> inconclusive, exit 2)."""
import os, re

class OverlayError(Exception):
    pass

HARNESS_DIR = os.path.join(os.path.dirname(os.path.dirname(os.path.abspath(__file__))), "kani", "harness")

# file (relative to src/) -> harness file name in kani/harness
INJECT = {
    "blob/index/bptree/core.rs": "h_bptree_core.rs",
    "blob/index/bptree/node.rs": "h_bptree_node.rs",
    "blob/index/bptree/serializer.rs": "h_bptree_serializer.rs",
    "blob/index/bptree/meta.rs": "h_bptree_meta.rs",
    "blob/index/header.rs": "h_index_header.rs",
    "blob/index/core.rs": "h_index_core.rs",
    "blob/header.rs": "h_blob_header.rs",
    "blob/file_name.rs": "h_file_name.rs",
    "blob/core.rs": "h_blob_core.rs",
    "blob/entry.rs": "h_blob_entry.rs",
    "record/record.rs": "h_record.rs",
    "record/partially_serialized.rs": "h_partial.rs",
    "filter/atomic_bitvec.rs": "h_bitvec.rs",
    "filter/bloom.rs": "h_bloom.rs",
    "filter/ahash/fallback_hash.rs": "h_ahash.rs",
    "filter/range.rs": "h_range.rs",
    "filter/combined.rs": "h_combined.rs",
    "filter/hierarchical.rs": "h_hier.rs",
    "filter/mod.rs": "h_filter_mod.rs",
    "io/unix/sync.rs": "h_sync.rs",
    "storage/core.rs": "h_storage_core.rs",
    "storage/read_result.rs": "h_read_result.rs",
    "storage/observer_worker.rs": "h_observer_worker.rs",
    "error.rs": "h_error.rs",
    "tools/blob_reader.rs": "h_tools_reader.rs",
    "tools/blob_writer.rs": "h_tools_writer.rs",
}

LOG_OFF = """
// ---- verif overlay E4: logging off under cfg(kani) ----
#[cfg(kani)] #[allow(unused_macros)] macro_rules! trace { ($($t:tt)*) => {{}} }
#[cfg(kani)] #[allow(unused_macros)] macro_rules! debug { ($($t:tt)*) => {{}} }
#[cfg(kani)] #[allow(unused_macros)] macro_rules! info { ($($t:tt)*) => {{}} }
#[cfg(kani)] #[allow(unused_macros)] macro_rules! warn { ($($t:tt)*) => {{}} }
#[cfg(kani)] #[allow(unused_macros)] macro_rules! error { ($($t:tt)*) => {{}} }
#[cfg(kani)] #[path = "%s"] pub(crate) mod kani_env;
// ---- end overlay ----
"""


def _read(p):
    with open(p) as fh:
        return fh.read()


def _write(p, s):
    with open(p, "w") as fh:
        fh.write(s)


def _cfg_out_fn(src, name, site):
    """Put #[cfg(not(kani))] on the line above `fn <name>` (exactly one definition expected)."""
    pat = re.compile(r"^([ \t]*)((?:pub(?:\([a-z:]+\))?[ \t]+)?(?:async[ \t]+)?fn[ \t]+%s\b)" % re.escape(name), re.M)
    ms = list(pat.finditer(src))
    if len(ms) != 1:
        raise OverlayError("overlay failed at %s: %d definitions of fn %s" % (site, len(ms), name))
    m = ms[0]
    return src[:m.start()] + m.group(1) + "#[cfg(not(kani))]\n" + src[m.start():]


def apply(root, harness_files=None, log_off=True):
    """root = scratch copy. harness_files: subset of INJECT keys to inject (None = all that exist)."""
    src = os.path.join(root, "src")
    done = []
    # --- lib.rs: E4 + kani_env
    lib = os.path.join(src, "lib.rs")
    s = _read(lib)
    ms = list(re.finditer(r"^extern crate \w+;[ \t]*\n", s, re.M))
    if not ms:
        raise OverlayError("overlay failed at lib.rs: no extern crate line found")
    first_mod = re.search(r"^(pub )?mod \w+;", s, re.M)
    if not first_mod or first_mod.start() < ms[-1].end():
        raise OverlayError("overlay failed at lib.rs: mod declared before last extern crate")

    class _M:  # insertion point = right after the last `extern crate` line (before any mod, so macros shadow)
        def __init__(self, pos): self._p = pos
        def start(self): return self._p
    m = _M(ms[-1].end())
    env_path = os.path.join(HARNESS_DIR, "kani_env.rs")
    block = LOG_OFF % env_path
    if not log_off:
        block = "\n#[cfg(kani)] #[path = \"%s\"] pub(crate) mod kani_env;\n" % env_path
    s = s[:m.start()] + block + s[m.start():]
    _write(lib, s)
    done.append("lib.rs:E4+kani_env")

    # --- E1 sync.rs
    sync = os.path.join(src, "io/unix/sync.rs")
    s = _read(sync)
    for fn in ("background_sync_call", "inplace_sync_call", "can_run_inplace", "from_file"):
        s = _cfg_out_fn(s, fn, "io/unix/sync.rs")
    # created_at: only the inherent one (first occurrence is `pub(crate) fn created_at(&self)` in impl File)
    pat = re.compile(r"^([ \t]*)pub\(crate\) fn created_at\(&self\)", re.M)
    ms = list(pat.finditer(s))
    if len(ms) != 1:
        raise OverlayError("overlay failed at io/unix/sync.rs: created_at")
    s = s[:ms[0].start()] + ms[0].group(1) + "#[cfg(not(kani))]\n" + s[ms[0].start():]
    _write(sync, s)
    done.append("io/unix/sync.rs:E1")

    # --- E2 InMemoryIndex alias
    core = os.path.join(src, "blob/index/core.rs")
    s = _read(core)
    pat = re.compile(r"^pub type InMemoryIndex<K> = BTreeMap<K, Vec<RecordHeader>>;", re.M)
    ms = list(pat.finditer(s))
    if len(ms) != 1:
        raise OverlayError("overlay failed at blob/index/core.rs: InMemoryIndex alias")
    rep = ("#[cfg(not(kani))]\n" + ms[0].group(0) +
           "\n#[cfg(kani)]\npub type InMemoryIndex<K> = crate::kani_env::VecMap<K, Vec<RecordHeader>>;")
    s = s[:ms[0].start()] + rep + s[ms[0].end():]
    _write(core, s)
    done.append("blob/index/core.rs:E2")

    # --- child module injection
    for rel, hf in INJECT.items():
        if harness_files is not None and rel not in harness_files:
            continue
        hp = os.path.join(HARNESS_DIR, hf)
        if not os.path.exists(hp):
            continue
        p = os.path.join(src, rel)
        if not os.path.exists(p):
            raise OverlayError("overlay failed at %s: file missing" % rel)
        with open(p, "a") as fh:
            fh.write("\n#[cfg(kani)] #[path = \"%s\"] pub(crate) mod kani_h;\n" % hp)
        done.append(rel + ":INJ")
    return done
