//! Child module of src/blob/index/bptree/node.rs under cfg(kani).
#![allow(dead_code, unused_imports)]
use super::*;
use crate::storage::ArrayKey;

/// C09 node_key_offset: on an arbitrary well-formed serialized node (n sorted distinct 1-byte keys, n<=3,
/// arbitrary child offsets) the real descent step returns offsets[#keys <= key] (upper bound).
#[kani::proof]
#[kani::unwind(6)]
fn c09_node_key_offset_k1() {
    const MAXN: usize = 3;
    let n: usize = kani::any();
    kani::assume(n >= 1 && n <= MAXN);
    let keys: [u8; MAXN] = kani::any();
    let offs: [u64; MAXN + 1] = kani::any();
    kani::assume(n < 2 || keys[0] < keys[1]);
    kani::assume(n < 3 || keys[1] < keys[2]);
    // serialized form: NodeMeta{size:u64} | keys | offsets (u64 LE); built in a fixed buffer, sliced to its length
    let mut buf = [0u8; 8 + MAXN + 8 * (MAXN + 1)];
    buf[..8].copy_from_slice(&(n as u64).to_le_bytes());
    let mut i = 0;
    while i < MAXN {
        if i < n {
            buf[8 + i] = keys[i];
        }
        i += 1;
    }
    let mut i = 0;
    while i <= MAXN {
        if i <= n {
            let at = 8 + n + 8 * i;
            buf[at..at + 8].copy_from_slice(&offs[i].to_le_bytes());
        }
        i += 1;
    }
    let len = 8 + n + 8 * (n + 1);
    let q: u8 = kani::any();
    let key = ArrayKey::<1>::from([q]);
    let got = Node::key_offset_serialized(&buf[..len], &key).expect("offset");
    let mut ub = 0;
    let mut i = 0;
    while i < MAXN {
        if i < n && keys[i] <= q {
            ub += 1;
        }
        i += 1;
    }
    assert!(got == offs[ub]);
    kani::cover!(ub == 0, "below all keys");
    kani::cover!(ub == n && n == MAXN, "above all keys, full node");
    kani::cover!(ub == 2 && n == 3 && keys[1] == q, "equal to an inner key");
}

/// C09 node_binary_search: the in-node search over serialized keys finds an equal key (Ok(i)) or the insertion point
/// (Err(i)) on every sorted node of n <= 4 one-byte keys.
#[kani::proof]
#[kani::unwind(5)]
fn c09_node_binary_search_k1() {
    let n: usize = kani::any();
    kani::assume(n >= 1 && n <= 4);
    let keys: [u8; 4] = kani::any();
    kani::assume(n < 2 || keys[0] < keys[1]);
    kani::assume(n < 3 || keys[1] < keys[2]);
    kani::assume(n < 4 || keys[2] < keys[3]);
    let q: u8 = kani::any();
    let key = ArrayKey::<1>::from([q]);
    let r = Node::binary_search_serialized(&key, &keys[..n]);
    let mut below = 0;
    let mut eq: Option<usize> = None;
    let mut i = 0;
    while i < 4 {
        if i < n && keys[i] < q {
            below += 1;
        }
        if i < n && keys[i] == q {
            eq = Some(i);
        }
        i += 1;
    }
    match (r, eq) {
        (Ok(p), Some(e)) => assert!(p == e),
        (Err(p), None) => assert!(p == below),
        _ => assert!(false),
    }
    kani::cover!(eq.is_some() && n == 4, "hit in a full node");
    kani::cover!(eq.is_none() && below == n, "above all keys");
    kani::cover!(eq.is_none() && below == 0, "below all keys");
}

/// C09/C17: Node::new_serialized emits NodeMeta | keys | offsets in that order, and the size formula agrees.
#[kani::proof]
#[kani::unwind(8)]
fn c09_node_new_serialized_layout() {
    let keys: [[u8; 2]; 2] = kani::any();
    let offs: [u64; 3] = kani::any();
    let buf = Node::new_serialized(keys.iter().map(|k| &k[..]), offs.iter().copied(), 2, 2).expect("ser");
    assert!(buf.len() as u64 == Node::serialized_size_with_keys(2, 2).unwrap());
    assert!(buf.len() == 8 + 4 + 24);
    assert!(u64::from_le_bytes([buf[0], buf[1], buf[2], buf[3], buf[4], buf[5], buf[6], buf[7]]) == 2);
    assert!(buf[8] == keys[0][0] && buf[9] == keys[0][1] && buf[10] == keys[1][0] && buf[11] == keys[1][1]);
    let j: usize = kani::any();
    kani::assume(j < 3);
    let at = 12 + 8 * j;
    assert!(u64::from_le_bytes([buf[at], buf[at + 1], buf[at + 2], buf[at + 3], buf[at + 4], buf[at + 5], buf[at + 6], buf[at + 7]]) == offs[j]);
    kani::cover!(true, "reached");
    std::mem::forget(buf);
}
