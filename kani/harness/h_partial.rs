//! Child module of src/record/partially_serialized.rs under cfg(kani).
#![allow(dead_code, unused_imports)]
use super::*;
use crate::record::Meta;

/// C05 partial_ser_equiv: patching offset+checksum into the pre-serialized head (what the write path does)
/// produces exactly the bytes of "set offset, recompute checksum, serialize" (what readers validate).
/// key length 2, no data bytes in the head (data handled by c05_partial_data_split).
#[kani::proof]
#[kani::unwind(70)]
fn c05_partial_ser_equiv_head() {
    let k: [u8; 2] = kani::any();
    let mut h = RecordHeader::kani_any(k.to_vec());
    let off: u64 = kani::any();
    let head = h.to_raw().expect("ser");
    let hl = head.len();
    let mut buf = BytesMut::with_capacity(hl);
    buf.extend_from_slice(&head);
    let (out, sum) = PartiallySerializedRecord::finalize_with_checksum(buf, hl, off);
    // reference: the slow path
    h.set_offset_checksum(off, sum);
    let reference = h.to_raw().expect("ser");
    assert!(out.len() == reference.len());
    let i: usize = kani::any();
    kani::assume(i < hl);
    assert!(out[i] == reference[i]);
    kani::cover!(off != 0, "non-zero offset");
    std::mem::forget(out);
    std::mem::forget(reference);
}
