//! Child module of src/blob/index/bptree/meta.rs under cfg(kani).
#![allow(dead_code, unused_imports)]
use super::*;

/// C17 format::tree_meta: TreeMeta = leaves_offset u64 | tree_offset u64 (LE), NodeMeta = size u64; decoders invert.
#[kani::proof]
#[kani::unwind(18)]
fn c17_tree_meta_layout() {
    let m = TreeMeta::new(kani::any(), kani::any());
    let raw = bincode::serialize(&m).expect("ser");
    assert!(raw.len() == 16);
    assert!(TreeMeta::serialized_size_default().unwrap() == 16);
    assert!(u64::from_le_bytes([raw[0], raw[1], raw[2], raw[3], raw[4], raw[5], raw[6], raw[7]]) == m.leaves_offset);
    assert!(u64::from_le_bytes([raw[8], raw[9], raw[10], raw[11], raw[12], raw[13], raw[14], raw[15]]) == m.tree_offset);
    let back = TreeMeta::from_raw(&raw).expect("de");
    assert!(back.leaves_offset == m.leaves_offset && back.tree_offset == m.tree_offset);
    let n = NodeMeta::new(kani::any());
    let nraw = bincode::serialize(&n).expect("ser");
    assert!(nraw.len() == 8 && NodeMeta::serialized_size_default().unwrap() == 8);
    assert!(u64::from_le_bytes([nraw[0], nraw[1], nraw[2], nraw[3], nraw[4], nraw[5], nraw[6], nraw[7]]) == n.size);
    kani::cover!(m.leaves_offset != m.tree_offset, "multi-level tree offsets");
    std::mem::forget(raw);
    std::mem::forget(nraw);
}
