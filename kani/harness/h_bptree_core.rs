//! Child module of src/blob/index/bptree/core.rs under cfg(kani).
#![allow(dead_code, unused_imports)]
use super::*;
use crate::storage::ArrayKey;

fn any_findex<K>() -> BPTreeFileIndex<K> {
    BPTreeFileIndex {
        file: File::kani_model(0, 0, 0),
        header: IndexHeader::kani_any(0),
        metadata: TreeMeta::new(kani::any(), kani::any()),
        root_node: BytesMut::new(),
        key_type_marker: PhantomData,
    }
}

fn validate_exact<const N: usize>() {
    let idx = any_findex::<ArrayKey<N>>();
    let blob_size: u64 = kani::any();
    let res = FileIndexTrait::<ArrayKey<N>>::validate(&idx, blob_size);
    let h = &idx.header;
    let expect = h.is_written()
        && h.version() == HEADER_VERSION
        && h.key_size() == N as u16
        && h.blob_size() == blob_size
        && h.magic_byte() == INDEX_HEADER_MAGIC_BYTE;
    assert!(res.is_ok() == expect);
    // raw-field form of the same predicate (pins the bit layout too)
    let raw = (h.version & 1) == 1
        && (h.version >> 1) == 6
        && h.key_size == N as u16
        && h.blob_size == blob_size
        && h.kani_magic() == 0xacdc_bcde;
    assert!(res.is_ok() == raw);
    kani::cover!(res.is_ok(), "valid header accepted");
    kani::cover!(res.is_err() && h.blob_size < blob_size && h.is_written() && h.version() == 6
                 && h.key_size == N as u16 && h.kani_magic() == 0xacdc_bcde, "stale (shorter blob) rejected");
    kani::cover!(res.is_err() && h.blob_size > blob_size, "longer blob rejected");
    kani::cover!(res.is_err() && !h.is_written(), "unwritten rejected");
    std::mem::forget(res);
    std::mem::forget(idx);
}

/// C03 validate_exact: an index header is accepted iff complete, current version, right key size,
/// describing exactly the current blob length, right magic.
#[kani::proof]
#[kani::unwind(2)]
#[kani::stub(std::fmt::format, crate::kani_env::stub_format)]
#[kani::stub(std::backtrace::Backtrace::capture, crate::kani_env::stub_backtrace_capture)]
fn c03_validate_exact_k2() {
    validate_exact::<2>();
}

#[kani::proof]
#[kani::unwind(2)]
#[kani::stub(std::fmt::format, crate::kani_env::stub_format)]
#[kani::stub(std::backtrace::Backtrace::capture, crate::kani_env::stub_backtrace_capture)]
fn c03_validate_exact_k8() {
    validate_exact::<8>();
}
