//! Child module of src/blob/index/bptree/core.rs under cfg(kani).
#![allow(dead_code, unused_imports)]
use super::*;
use crate::storage::ArrayKey;

fn any_findex<K>() -> BPTreeFileIndex<K> {
    BPTreeFileIndex {
        file: { let sz: u64 = kani::any(); File::kani_model(0, sz, sz) },
        header: IndexHeader::kani_any(0),
        metadata: TreeMeta::new(kani::any(), kani::any()),
        root_node: BytesMut::new(),
        key_type_marker: PhantomData,
    }
}

fn validate_exact<const N: usize>() {
    let idx = any_findex::<ArrayKey<N>>();
    let blob_size: u64 = kani::any();
    // the expected-length product records_count * record_header_size is decided by engine M
    // (validate_rejects_short_index); here one factor is (nearly) concrete
    kani::assume(idx.header.records_count <= 1);
    kani::assume(idx.metadata.leaves_offset < (1u64 << 60) && idx.header.record_header_size < (1usize << 20));
    let res = FileIndexTrait::<ArrayKey<N>>::validate(&idx, blob_size);
    let h = &idx.header;
    let complete = idx.file.size() >= idx.metadata.leaves_offset + (h.records_count * h.record_header_size) as u64;
    let expect = complete
        && h.is_written()
        && h.version() == HEADER_VERSION
        && h.key_size() == N as u16
        && h.blob_size() == blob_size
        && h.magic_byte() == INDEX_HEADER_MAGIC_BYTE;
    let exact = idx.file.size() == idx.metadata.leaves_offset + (h.records_count * h.record_header_size) as u64;
    assert!(!res.is_ok() || expect);
    assert!(!(expect && exact) || res.is_ok());
    // raw-field form of the same predicate (pins the bit layout too)
    let raw = complete
        && (h.version & 1) == 1
        && (h.version >> 1) == 6
        && h.key_size == N as u16
        && h.blob_size == blob_size
        && h.kani_magic() == 0xacdc_bcde;
    assert!(!res.is_ok() || raw);
    assert!(!(raw && exact) || res.is_ok());
    kani::cover!(res.is_ok(), "valid header accepted");
    kani::cover!(res.is_err() && h.blob_size < blob_size && h.is_written() && h.version() == 6
                 && h.key_size == N as u16 && h.kani_magic() == 0xacdc_bcde, "stale (shorter blob) rejected");
    kani::cover!(res.is_err() && h.blob_size > blob_size, "longer blob rejected");
    kani::cover!(res.is_err() && !h.is_written(), "unwritten rejected");
    std::mem::forget(res);
    std::mem::forget(idx);
}

/// C03 validate_exact: an index header is accepted iff complete, current version, right key size,
/// describing exactly the current blob length, right magic, and the file is at least as long as the header says.
#[kani::proof]
#[kani::unwind(2)]
#[kani::stub(std::fmt::format, crate::kani_env::stub_format)]
#[kani::stub(std::backtrace::Backtrace::capture, crate::kani_env::stub_backtrace_capture)]
fn c03_validate_exact_k2() {
    validate_exact::<2>();
}

#[kani::proof]
#[kani::unwind(2)]
#[kani::stub(std::fmt::format, crate::kani_env::stub_format)]
#[kani::stub(std::backtrace::Backtrace::capture, crate::kani_env::stub_backtrace_capture)]
fn c03_validate_exact_k8() {
    validate_exact::<8>();
}
