//! Child module of src/blob/index/header.rs under cfg(kani).
#![allow(dead_code, unused_imports)]
use super::*;

impl IndexHeader {
    /// Arbitrary header; `hash` is a concrete-length vector (hash_len bytes of zeros) because the property
    /// harnesses never look at the hash (SHA-256 is outside every claim).
    pub(crate) fn kani_any(hash_len: usize) -> Self {
        Self {
            magic_byte: kani::any(),
            records_count: kani::any(),
            record_header_size: kani::any(),
            meta_size: kani::any(),
            hash: vec![0u8; hash_len],
            version: kani::any(),
            key_size: kani::any(),
            blob_size: kani::any(),
        }
    }
    pub(crate) fn kani_magic(&self) -> u64 {
        self.magic_byte
    }
    pub(crate) fn kani_set_magic(&mut self, m: u64) {
        self.magic_byte = m;
    }
}

/// C03/C17 (M1-class, decided by Kani): the written bit and the version share one byte without interference.
#[kani::proof]
fn c03_written_bit_packing() {
    let mut h = IndexHeader::kani_any(0);
    let v0 = h.version();
    let w: bool = kani::any();
    h.set_written(w);
    assert!(h.is_written() == w);
    assert!(h.version() == v0);
    let nv: u8 = kani::any();
    kani::assume(nv < 128);
    h.set_version(nv);
    assert!(h.version() == nv);
    assert!(h.is_written() == w);
    // serialized form: bit 0 = written, bits 1.. = version
    assert!(h.version == (nv << 1) | (w as u8));
    let d = IndexHeader::default();
    assert!(!d.is_written() && d.version() == crate::blob::index::HEADER_VERSION);
    assert!(d.magic_byte == crate::blob::index::INDEX_HEADER_MAGIC_BYTE);
    assert!(d.hash.len() == 32);
    kani::cover!(w && nv == 6, "written v6");
}

/// C17 format::index_header (encoder): magic u64 | records_count u64 | record_header_size u64 | meta_size u64 |
/// hash (u64 length + bytes) | version u8 | key_size u16 | blob_size u64, little-endian.  (hash of 4 bytes to keep the
/// serializer loop short; the length prefix is checked.)
#[kani::proof]
#[kani::unwind(10)]
fn c17_index_header_layout() {
    let mut h = IndexHeader::kani_any(4);
    let hb: [u8; 2] = kani::any();
    h.hash[0] = hb[0];
    h.hash[3] = hb[1];
    let raw = bincode::serialize(&h).expect("ser");
    assert!(raw.len() == 55);
    assert!(h.serialized_size() == 55);
    let le64 = |at: usize| u64::from_le_bytes([raw[at], raw[at + 1], raw[at + 2], raw[at + 3], raw[at + 4], raw[at + 5], raw[at + 6], raw[at + 7]]);
    assert!(le64(0) == h.magic_byte);
    assert!(le64(8) == h.records_count as u64);
    assert!(le64(16) == h.record_header_size as u64);
    assert!(le64(24) == h.meta_size as u64);
    assert!(le64(32) == 4);
    assert!(raw[40] == hb[0] && raw[43] == hb[1]);
    assert!(raw[44] == h.version);
    assert!(u16::from_le_bytes([raw[45], raw[46]]) == h.key_size);
    assert!(le64(47) == h.blob_size);
    kani::cover!(h.is_written(), "written header");
    std::mem::forget(raw);
    std::mem::forget(h);
}
