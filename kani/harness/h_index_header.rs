//! Child module of src/blob/index/header.rs under cfg(kani).
#![allow(dead_code, unused_imports)]
use super::*;

impl IndexHeader {
    /// Arbitrary header; `hash` is a concrete-length vector (hash_len bytes of zeros) because the property
    /// harnesses never look at the hash (SHA-256 is outside every claim).
    pub(crate) fn kani_any(hash_len: usize) -> Self {
        Self {
            magic_byte: kani::any(),
            records_count: kani::any(),
            record_header_size: kani::any(),
            meta_size: kani::any(),
            hash: vec![0u8; hash_len],
            version: kani::any(),
            key_size: kani::any(),
            blob_size: kani::any(),
        }
    }
    pub(crate) fn kani_magic(&self) -> u64 {
        self.magic_byte
    }
    pub(crate) fn kani_set_magic(&mut self, m: u64) {
        self.magic_byte = m;
    }
}

/// C03/C17 (M1-class, decided by Kani): the written bit and the version share one byte without interference.
#[kani::proof]
fn c03_written_bit_packing() {
    let mut h = IndexHeader::kani_any(0);
    let v0 = h.version();
    let w: bool = kani::any();
    h.set_written(w);
    assert!(h.is_written() == w);
    assert!(h.version() == v0);
    let nv: u8 = kani::any();
    kani::assume(nv < 128);
    h.set_version(nv);
    assert!(h.version() == nv);
    assert!(h.is_written() == w);
    // serialized form: bit 0 = written, bits 1.. = version
    assert!(h.version == (nv << 1) | (w as u8));
    let d = IndexHeader::default();
    assert!(!d.is_written() && d.version() == crate::blob::index::HEADER_VERSION);
    assert!(d.magic_byte == crate::blob::index::INDEX_HEADER_MAGIC_BYTE);
    assert!(d.hash.len() == 32);
    kani::cover!(w && nv == 6, "written v6");
}
