//! Child module of src/filter/atomic_bitvec.rs under cfg(kani).
#![allow(dead_code, unused_imports)]
use super::*;

/// C10 bit_mapping: the in-memory probe (u64 words) and the on-file probe (bytes of the little-endian serialized
/// words, what bincode writes for Vec<u64>) address the same bit for every index.
#[kani::proof]
#[kani::unwind(3)]
fn c10_bit_mapping_mem_vs_file() {
    let bits_count: usize = kani::any();
    kani::assume(bits_count >= 1 && bits_count <= 70);
    let words: [u64; 2] = kani::any();
    let bv = AtomicBitVec::from_raw_slice(&words, bits_count).expect("enough words");
    let i: usize = kani::any();
    kani::assume(i < bits_count);
    let mem = bv.get(i);
    // file side: byte (i >> 3) of the LE image of the words, mask 1 << (i % 8)
    let (off, mask) = OffsetAndMaskCalculator::offset_and_mask_u8(i as u64);
    assert!(off == (i as u64) >> 3);
    let w = words[(off / 8) as usize];
    let byte = w.to_le_bytes()[(off % 8) as usize];
    let file = OffsetAndMaskCalculator::get_bit_u8(byte, mask);
    assert!(mem == file);
    // and the raw vector written to the file is exactly the words
    let raw = bv.to_raw_vec();
    assert!(raw.len() == AtomicBitVec::items_count(bits_count));
    assert!(raw[i / 64] == words[i / 64]);
    kani::cover!(bits_count == 65 && i == 64, "first bit of the second word");
    kani::cover!(bits_count == 70 && i == 69, "last bit of a partial word");
    kani::cover!(i % 8 == 7 && mem, "high bit of a byte set");
    std::mem::forget(raw);
    std::mem::forget(bv);
}

/// C10: set(i) makes get(i) true and leaves every other bit unchanged; items_count is ceil(bits/64).
#[kani::proof]
#[kani::unwind(3)]
fn c10_bitvec_set_get() {
    let bits_count: usize = kani::any();
    kani::assume(bits_count >= 1 && bits_count <= 70);
    let words: [u64; 2] = kani::any();
    let bv = AtomicBitVec::from_raw_slice(&words, bits_count).expect("enough words");
    let i: usize = kani::any();
    let j: usize = kani::any();
    kani::assume(i < bits_count && j < bits_count && i != j);
    let before_j = bv.get(j);
    let prev = bv.set(i, true);
    assert!(prev == ((words[i / 64] >> (i % 64)) & 1 == 1));
    assert!(bv.get(i));
    assert!(bv.get(j) == before_j);
    assert!(AtomicBitVec::items_count(bits_count) == (bits_count + 63) / 64);
    assert!(AtomicBitVec::items_count(0) == 0);
    kani::cover!(i / 64 != j / 64, "different words");
    std::mem::forget(bv);
}

/// C10: or_with is the bitwise union (merged group filters never lose a bit).
#[kani::proof]
#[kani::unwind(3)]
fn c10_bitvec_or_with_union() {
    let a: [u64; 2] = kani::any();
    let b: [u64; 2] = kani::any();
    let mut x = AtomicBitVec::from_raw_slice(&a, 70).expect("ok");
    let y = AtomicBitVec::from_raw_slice(&b, 70).expect("ok");
    let i: usize = kani::any();
    kani::assume(i < 70);
    let (xa, yb) = (x.get(i), y.get(i));
    let r = x.or_with(&y);
    assert!(r.is_ok());
    assert!(x.get(i) == (xa || yb));
    let z = AtomicBitVec::from_raw_slice(&b, 69).expect("ok");
    assert!(x.or_with(&z).is_err());
    kani::cover!(!xa && yb, "bit only in the other filter");
    std::mem::forget(x);
    std::mem::forget(y);
    std::mem::forget(z);
}
