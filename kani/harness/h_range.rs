//! Child module of src/filter/range.rs under cfg(kani).
#![allow(dead_code, unused_imports)]
use super::*;
use crate::storage::ArrayKey;

type K2 = ArrayKey<2>;

fn any_key() -> K2 {
    let b: [u8; 2] = kani::any();
    K2::from(b)
}

fn any_inner() -> RangeFilterInner<K2> {
    let mut f = RangeFilterInner::<K2>::new();
    if kani::any() {
        let a = any_key();
        let b = any_key();
        kani::assume(a <= b);
        f.min = a;
        f.max = b;
        f.initialized = true;
    }
    f
}

/// C10 range_sound: after add(k) the filter contains k and everything it contained before; contains is exactly
/// the closed interval [min, max] of the added keys.
#[kani::proof]
#[kani::unwind(4)]
fn c10_range_add_contains() {
    let mut f = any_inner();
    let was_init = f.initialized;
    let q = any_key();
    let had = f.contains(&q);
    let k = any_key();
    f.add(&k);
    assert!(f.contains(&k));
    assert!(!had || f.contains(&q));
    assert!(f.initialized && f.min <= f.max);
    // exactness: contains(q) iff q within [min, max]
    assert!(f.contains(&q) == (f.min <= q && q <= f.max));
    if !was_init {
        assert!(f.min == k && f.max == k);
    }
    kani::cover!(was_init && !had && f.contains(&q), "interval grew over q");
    kani::cover!(!was_init, "first key");
}

/// C10: merge_with yields a filter containing everything either operand contained (interval hull).
#[kani::proof]
#[kani::unwind(4)]
fn c10_range_merge_superset() {
    let mut a = any_inner();
    let b = any_inner();
    let q = any_key();
    let in_a = a.contains(&q);
    let in_b = b.contains(&q);
    let b2 = b.clone();
    a.merge_with(b2);
    assert!(!(in_a || in_b) || a.contains(&q));
    assert!(!a.initialized || a.min <= a.max);
    kani::cover!(in_b && !in_a, "key only in the merged-in filter");
    kani::cover!(!b.initialized && in_a, "merge with an empty filter");
}

/// C10: an empty (never added to) range filter answers 'definitely absent' only because nothing was stored.
#[kani::proof]
#[kani::unwind(4)]
fn c10_range_empty_and_clear() {
    let f = RangeFilterInner::<K2>::new();
    let q = any_key();
    assert!(!f.contains(&q));
    let mut g = any_inner();
    g.clear();
    assert!(!g.contains(&q));
    g.add(&q);
    assert!(g.contains(&q) && g.min == q && g.max == q);
    kani::cover!(true, "reached");
}
