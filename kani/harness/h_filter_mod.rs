//! Child module of src/filter/mod.rs under cfg(kani).
#![allow(dead_code, unused_imports)]
use super::*;

fn any_fr() -> FilterResult {
    if kani::any() {
        FilterResult::NeedAdditionalCheck
    } else {
        FilterResult::NotContains
    }
}

/// C10 conservative: combining answers says 'definitely absent' only if every operand does; the default is
/// 'need additional check'; an absent (None) filter never answers 'definitely absent'.
#[kani::proof]
fn c10_filter_result_conservative() {
    let a = any_fr();
    let b = any_fr();
    let (an, bn) = (a == FilterResult::NotContains, b == FilterResult::NotContains);
    let r = a + b;
    assert!((r == FilterResult::NotContains) == (an && bn));
    assert!(FilterResult::default() == FilterResult::NeedAdditionalCheck);
    kani::cover!(an && !bn, "mixed answers");
}
